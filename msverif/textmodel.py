"""Model values and drivers for the text-form (print / parse) analyses of C10."""

from . import model
from .interp import Machine, Adt, Term, PyVec, NONE, some
from .builtins import PyFmt

T = model.TERMINAL
MS = model.MS


def ms(node):
    return Adt(MS, "Miniscript", {"node": node, "ty": Term("ty"), "ext": Term("ext"), "phantom": ()})


def term(variant, *fields):
    return Adt(T, variant, {str(i): f for i, f in enumerate(fields)})


def thresh(k, items):
    return model.threshold(k, items)


def leaf(i):
    """an opaque, non-alias, non-wrapper leaf: sha256(H<i>)"""
    return ms(term("Sha256", "H%d" % i))


def lock(path, n):
    return Adt(path, path.split("::")[-1], {"0": Term("extlock", n)})


def printer_paths(F):
    return {"conditional_fmt": F.fn("conditional_fmt", file="miniscript/display.rs"),
            "fragment_name": F.fn("fragment_name", file="miniscript/display.rs"),
            "is_wrapper": F.fn("is_wrapper", file="miniscript/display.rs")}


def print_terminal(F, m, t):
    """evaluate Terminal::conditional_fmt(t, f, DisplayTypes::None) -> token list"""
    P = printer_paths(F)
    dt = [a for a in F.adts if a.endswith("display::DisplayTypes")][0]
    f = PyFmt()
    r = m.call_path(P["conditional_fmt"], [t, f, Adt(dt, "None", {})])
    return f.out, r


def parser_machine(F, strict=True):
    """Machine for the parsing direction: keys/hashes are their text; typing and context checks are
    replaced by the identity (decided by C05 / C12), so ill-typed shapes can be round-tripped."""
    from .builtins import FMT_OK
    from .interp import ok
    from_ast = F.fn("from_ast", file="miniscript/mod.rs")
    hooks = {from_ast: lambda m, a, c: ok(ms(a[0]))}

    def unint(p, callee):
        f = F.fns.get(p)
        return bool(f and "miniscript/types/" in (f.get("file") or f.get("span") or ""))
    m = Machine(F, strict=strict, hooks=hooks, uninterpreted=unint)
    m.text_keys = True
    cgv = [p for p in F.fns if p.endswith("::check_global_validity")]
    for p in cgv:
        m.hooks[p] = lambda m_, a, c: ok(())
    return m


def parse_tree(F, m, s):
    fs = F.fn("from_str", file="expression/mod.rs")
    return m.call_path(fs, [s])


def ms_from_tree_path(F):
    return [it["path"] for i in F.impls if (i["trait"] or "").endswith("FromTree")
            and i["self_adt"] == MS for it in i["items"]][0]


def parse_miniscript(F, m, s):
    """Tree::from_str(s) then <Miniscript as FromTree>::from_tree(tree.root())"""
    r = parse_tree(F, m, s)
    if r.variant != "Ok":
        return r
    root = F.fn("root", file="expression/mod.rs")
    ft = ms_from_tree_path(F)
    ri = m.call_path(root, [r.fields["0"]])
    return m.call_callee({"def": ft, "resolved": ft, "name": "from_tree"}, [ri])


def strip(v):
    """structure of a model Miniscript / Terminal without the type annotations"""
    if isinstance(v, Adt):
        if v.path == MS:
            return strip(v.fields["node"])
        return (v.path.split("::")[-1], v.variant, tuple((k, strip(x)) for k, x in sorted(v.fields.items())))
    if isinstance(v, PyVec):
        return tuple(strip(x) for x in v.items)
    return v


def display(m, v, alternate=False):
    """evaluate <v as Display>::fmt -> (tokens, result)"""
    from .builtins import fmt_value
    f = PyFmt(alternate)
    r = fmt_value(m, "display", v, f)
    return f.out, r


def from_tree_path(F, adt):
    ps = [it["path"] for i in F.impls if (i["trait"] or "").endswith("FromTree")
          and i["self_adt"] == adt for it in i["items"]]
    if len(ps) != 1:
        raise KeyError("FromTree impl for %s" % adt)
    return ps[0]


def parse_with(F, m, adt, s):
    r = parse_tree(F, m, s)
    if r.variant != "Ok":
        return r
    root = F.fn("root", file="expression/mod.rs")
    ft = from_tree_path(F, adt)
    ri = m.call_path(root, [r.fields["0"]])
    return m.call_callee({"def": ft, "resolved": ft, "name": "from_tree"}, [ri])


# ---- the bech32 crate's checksum engine (external): modelled by spec/bip380.Bech32Engine, parameterised by the
# ---- constants of the library's `impl Checksum for DescriptorChecksum` as evaluated by rustc

def checksum_params(F):
    import sys, os
    from . import constval
    pre = [k for k in F.consts if k.endswith("as bech32::Checksum>::GENERATOR_SH")]
    if len(pre) != 1:
        raise KeyError("impl bech32::Checksum (GENERATOR_SH)")
    base = pre[0][:-len("GENERATOR_SH")]
    vals = {}
    for nm in ("GENERATOR_SH", "CHECKSUM_LENGTH", "TARGET_RESIDUE", "CODE_LENGTH"):
        v = constval.parse(F.consts[base + nm]["value"])
        vals[nm] = list(v.items) if isinstance(v, PyVec) else v
    return vals


def install_bech32(F, m):
    sys_path_spec()
    import bip380
    params = checksum_params(F)
    m.bech32_engines = []

    def new(m_, a, c):
        e = bip380.Bech32Engine(params["GENERATOR_SH"], params["CHECKSUM_LENGTH"], params["TARGET_RESIDUE"])
        m.bech32_engines.append(e)
        return e

    def input_fe(m_, a, c):
        from .builtins import deref
        deref(a[0]).input_fe(deref(a[1]))
        return ()

    def input_target(m_, a, c):
        from .builtins import deref
        deref(a[0]).input_target_residue()
        return ()

    def residue(m_, a, c):
        from .builtins import deref
        return deref(a[0]).residue

    def unpack(m_, a, c):
        from .builtins import deref
        return bip380.Bech32Engine.unpack(deref(a[0]), deref(a[1]))

    def fe_try_from(m_, a, c):
        from .builtins import deref
        from .interp import ok, err
        v = deref(a[0])
        return ok(v) if isinstance(v, int) and 0 <= v < 32 else err(Term("Fe32Error", v))

    def to_char(m_, a, c):
        from .builtins import deref
        return bip380.CHECKSUM_CHARSET[deref(a[0])]
    E = "bech32::primitives::checksum::Engine::<Ck>::"
    m.hooks[E + "new"] = new
    m.hooks[E + "input_fe"] = input_fe
    m.hooks[E + "input_target_residue"] = input_target
    m.hooks[E + "residue"] = residue
    m.hooks["bech32::primitives::checksum::PackedFe32::unpack"] = unpack
    m.hooks["bech32::Fe32::to_char"] = to_char
    m.hooks["bech32::primitives::gf32::Fe32::to_char"] = to_char
    m.fe_try_from = fe_try_from
    return params


def sys_path_spec():
    import sys, os
    p = os.path.join(os.path.dirname(os.path.dirname(os.path.abspath(__file__))), "spec")
    if p not in sys.path:
        sys.path.insert(0, p)
