"""Queries over the MIR control-flow graphs dumped by factgen:
dominance, success exits, must-pass-through (with success-edge tracking), who-constructs, panic census."""

from .report import Unsupported

RESULT = "std::result::Result"
ADAPTERS = ("map_err", "map", "and_then", "into", "from", "ok_or", "ok_or_else", "branch")


class CFG(object):
    def __init__(self, F, path):
        self.F = F
        self.path = path
        b = F.bodies.get(path)
        if b is None or b.get("mir") is None:
            raise KeyError("no MIR for %s" % path)
        self.mir = b["mir"]
        self.blocks = self.mir["blocks"]
        self.n = len(self.blocks)
        self.succ = [[] for _ in range(self.n)]
        for blk in self.blocks:
            if blk["cleanup"]:
                continue
            self.succ[blk["i"]] = [s for s in self._succs(blk) if not self.blocks[s]["cleanup"]]
        self.pred = [[] for _ in range(self.n)]
        for i, ss in enumerate(self.succ):
            for s in ss:
                self.pred[s].append(i)
        self._dom = None

    @staticmethod
    def _succs(blk):
        t = blk["term"]
        k = t["t"]
        if k == "goto":
            return [t["target"]]
        if k == "switch":
            return list(dict.fromkeys([x[1] for x in t["targets"]] + [t["otherwise"]]))
        if k in ("call", "drop", "assert"):
            return [t["target"]] if t.get("target") is not None else []
        return []

    # ---- dominators (iterative, on reachable non-cleanup blocks)
    def dominators(self):
        if self._dom is not None:
            return self._dom
        reach = self.reachable(0)
        dom = {b: set(reach) for b in reach}
        dom[0] = {0}
        changed = True
        order = sorted(reach)
        while changed:
            changed = False
            for b in order:
                if b == 0:
                    continue
                ps = [p for p in self.pred[b] if p in reach]
                new = set(reach)
                for p in ps:
                    new &= dom[p]
                new = new | {b} if ps else {b}
                if new != dom[b]:
                    dom[b] = new
                    changed = True
        self._dom = dom
        return dom

    def reachable(self, start, avoid=()):
        seen = set()
        work = [start]
        while work:
            b = work.pop()
            if b in seen or b in avoid:
                continue
            seen.add(b)
            work.extend(self.succ[b])
        return seen

    def dominates(self, a, b):
        d = self.dominators()
        return b in d and a in d[b]

    # ---- calls
    def calls(self):
        """[(block index, callee dict, terminator)]"""
        out = []
        for blk in self.blocks:
            if blk["cleanup"]:
                continue
            t = blk["term"]
            if t["t"] in ("call", "tailcall") and t["func"].get("o") == "const" and "fn" in t["func"]:
                out.append((blk["i"], t["func"]["fn"], t))
        return out

    def call_name(self, callee):
        return callee.get("name")

    # ---- success exits
    def success_exits(self):
        """blocks in which the function's return value is set for a successful return:
           [(block, kind, info)]  kind: 'ok' (Result::Ok / Some / plain value) | 'delegate' (tail call result)
           For functions not returning Result/Option every return-value assignment is a success exit."""
        out = []
        ret_ty = self.F.ty(self.mir["locals"][0]["ty"])
        fallible = ret_ty.startswith("std::result::Result<") or ret_ty.startswith("std::option::Option<")
        for blk in self.blocks:
            if blk["cleanup"]:
                continue
            for s in blk["stmts"]:
                if s["dst"]["l"] == 0 and not s["dst"]["p"]:
                    if s["rv"] == "agg":
                        if not fallible or s.get("variant") in ("Ok", "Some"):
                            out.append((blk["i"], "ok", s))
                    elif s["rv"] in ("use", "cast"):
                        out.append((blk["i"], "value", s))
            t = blk["term"]
            if t["t"] == "call" and t["dst"]["l"] == 0 and not t["dst"]["p"]:
                fn = t["func"].get("fn") if t["func"].get("o") == "const" else None
                if fn is not None and fn.get("name") == "from_residual":
                    continue
                out.append((blk["i"], "delegate", t))
            if t["t"] == "tailcall":
                out.append((blk["i"], "delegate", t))
        return out

    def error_exits(self):
        out = []
        for blk in self.blocks:
            if blk["cleanup"]:
                continue
            for s in blk["stmts"]:
                if s["dst"]["l"] == 0 and not s["dst"]["p"] and s["rv"] == "agg" and s.get("variant") in ("Err", "None"):
                    out.append((blk["i"], "err", s))
            t = blk["term"]
            if t["t"] == "call" and t["dst"]["l"] == 0:
                fn = t["func"].get("fn") if t["func"].get("o") == "const" else None
                if fn is not None and fn.get("name") == "from_residual":
                    out.append((blk["i"], "propagate", t))
        return out

    # ---- success edge of a fallible call
    def success_block(self, call_block):
        """Follow the result of the call in `call_block` through adapter calls to the switch on its
        discriminant; return the block reached when the result is Ok/Continue/Some, or None if the result
        is not tested (or the call does not return)."""
        blk = self.blocks[call_block]
        t = blk["term"]
        if t.get("target") is None:
            return None
        tracked = {t["dst"]["l"]}
        cur = t["target"]
        seen = set()
        for _ in range(12):
            if cur in seen:
                return None
            seen.add(cur)
            b = self.blocks[cur]
            discr_local = None
            for s in b["stmts"]:
                # copies / moves of the tracked value
                if s["rv"] in ("use", "cast") and s.get("ops") and s["ops"][0].get("place") \
                        and s["ops"][0]["place"]["l"] in tracked and not s["ops"][0]["place"]["p"]:
                    tracked.add(s["dst"]["l"])
                if s["rv"] == "ref" and s["place"]["l"] in tracked and not s["place"]["p"]:
                    tracked.add(s["dst"]["l"])
                if s["rv"] == "discr" and s["place"]["l"] in tracked:
                    discr_local = s["dst"]["l"]
            tt = b["term"]
            if tt["t"] == "switch" and discr_local is not None and tt["discr"].get("place", {}).get("l") == discr_local:
                for val, tgt in tt["targets"]:
                    if val == 0:      # Ok / Continue (Result, ControlFlow); for Option 0 = None
                        return ("switch", cur, tgt, tt)
                return ("switch", cur, tt["otherwise"], tt)
            if tt["t"] == "call" and tt["func"].get("o") == "const" and "fn" in tt["func"]:
                fn = tt["func"]["fn"]
                uses = any(a.get("place", {}).get("l") in tracked for a in tt["args"])
                if uses and fn.get("name") in ADAPTERS and tt.get("target") is not None:
                    tracked.add(tt["dst"]["l"])
                    cur = tt["target"]
                    continue
                return None
            if tt["t"] == "goto":
                cur = tt["target"]
                continue
            if tt["t"] == "drop":
                cur = tt["target"]
                continue
            return None
        return None

    def ok_target(self, call_block):
        sb = self.success_block(call_block)
        if sb is None:
            return None
        _, sw, tgt, tt = sb
        # Option-returning checks: value 1 = Some. The caller decides; here 0 is the Ok/Continue side.
        return sw, tgt

    def edge_dominates(self, sw, tgt, b):
        """does the edge sw->tgt dominate block b (every path to b uses that edge)?"""
        if b == tgt and len([p for p in self.pred[tgt]]) == 1:
            return True
        # remove the edge and see whether b stays reachable
        saved = list(self.succ[sw])
        self.succ[sw] = [s for s in self.succ[sw] if s != tgt]
        try:
            reach = self.reachable(0)
        finally:
            self.succ[sw] = saved
        return b not in reach

    # ---- aggregates
    def aggregates(self, adt):
        out = []
        for blk in self.blocks:
            if blk["cleanup"]:
                continue
            for s in blk["stmts"]:
                if s["rv"] == "agg" and s.get("adt") == adt:
                    out.append((blk["i"], s))
        return out


def must_pass(F, path, is_target, must=None, depth=0):
    """Every success exit of `path` requires a successful call to a target function (or to a function
    already known to require one). Path-sensitive: an exit is covered when it becomes unreachable once
    the success edges of all guarding calls are removed (every path to it uses one of them), or when it
    returns the result of a guarding call (directly or through map/map_err/...).
    Returns (True, []) or (False, [descriptions of uncovered exits])."""
    must = must if must is not None else set()
    try:
        g = CFG(F, path)
    except KeyError as e:
        return False, ["no MIR: %s" % e]
    exits = g.success_exits()
    if not exits:
        return True, []

    def guarding(callee):
        cp = callee.get("resolved") or callee.get("def")
        return is_target(callee) or cp in must or callee.get("def") in must
    calls = g.calls()
    edges = []
    plain = []
    guard_dst = {}
    for (cb, callee, t) in calls:
        if guarding(callee):
            guard_dst[t["dst"]["l"]] = cb
            ok = g.ok_target(cb)
            if ok is not None:
                edges.append(ok)
            elif not fallible_callee(F, callee):
                plain.append(cb)
    # reachability with all guard success edges removed
    saved = [list(x) for x in g.succ]
    for (sw, tgt) in edges:
        g.succ[sw] = [x for x in g.succ[sw] if x != tgt]
    for cb in plain:
        g.succ[cb] = []
    reach = g.reachable(0)
    g.succ = saved
    missing = []
    for (eb, kind, info) in exits:
        covered = eb not in reach
        if not covered and kind == "delegate":
            covered = delegates_to_guard(g, info, guarding, guard_dst)
        if not covered and kind == "value":
            # `_0 = move _x` where _x is the result of a guarding call
            ops = info.get("ops") or []
            if ops and ops[0].get("place") and ops[0]["place"]["l"] in guard_dst and not ops[0]["place"]["p"]:
                covered = True
        if not covered:
            missing.append("%s exit at %s" % (kind, info.get("sp", "")))
    return (not missing), missing


def delegates_to_guard(g, term, guarding, guard_dst, depth=0):
    fn = term["func"].get("fn") if term["func"].get("o") == "const" else None
    if fn is None or depth > 6:
        return False
    if guarding(fn):
        return True
    if fn.get("name") in ADAPTERS and term["args"]:
        a0 = term["args"][0]
        loc = a0.get("place", {}).get("l")
        if loc is None:
            return False
        if loc in guard_dst:
            return True
        # find the call that defines loc
        for blk in g.blocks:
            t = blk["term"]
            if t["t"] == "call" and t["dst"]["l"] == loc and not t["dst"]["p"]:
                return delegates_to_guard(g, t, guarding, guard_dst, depth + 1)
        # or a plain move from another local
        for blk in g.blocks:
            for s_ in blk["stmts"]:
                if s_["dst"]["l"] == loc and not s_["dst"]["p"] and s_["rv"] == "use" and s_["ops"][0].get("place"):
                    src = s_["ops"][0]["place"]["l"]
                    if src in guard_dst:
                        return True
    return False


def fallible_callee(F, callee):
    p = callee.get("resolved") or callee.get("def")
    f = F.fns.get(p)
    if f is None:
        return True
    out = F.ty(f["output"])
    return out.startswith("std::result::Result<") or out.startswith("std::option::Option<")


def must_set(F, candidates, is_target, max_rounds=8):
    """least fixpoint: functions (among candidates) all of whose success exits require a target call"""
    must = set()
    for _ in range(max_rounds):
        grew = False
        for p in candidates:
            if p in must:
                continue
            ok, _ = must_pass(F, p, is_target, must)
            if ok and has_target_or_must_call(F, p, is_target, must):
                must.add(p)
                grew = True
        if not grew:
            break
    return must


def has_target_or_must_call(F, path, is_target, must):
    try:
        g = CFG(F, path)
    except KeyError:
        return False
    for (cb, callee, t) in g.calls():
        cp = callee.get("resolved") or callee.get("def")
        if is_target(callee) or cp in must:
            return True
    return False
