"""Symbolic extraction of the per-fragment (satisfaction, dissatisfaction)
templates from Satisfaction::sat_dissat and its helpers."""

from . import model
from .interp import Machine, Adt, Term, PyVec, PyIter, explore, NONE, some
from .report import Unsupported

SAT = "miniscript::satisfy::Satisfaction"
WIT = "miniscript::satisfy::Witness"
PH = "miniscript::satisfy::Placeholder"
IMPOSSIBLE = "IMPOSSIBLE"
UNAVAILABLE = "UNAVAILABLE"


def paths(F):
    d = {}
    d["sat_dissat"] = F.fn("sat_dissat", file="satisfy/sat_dissat.rs")
    d["post_order_iter"] = F.fn("post_order_iter", file="iter/tree.rs")
    for nm in ("minimum", "minimum_mall", "thresh", "thresh_mall", "concatenate_rev", "empty"):
        d[nm] = F.fn(nm, file="satisfy/mod.rs", container="Satisfaction<miniscript::satisfy::Placeholder")
    for nm in ("combine", "push_0", "push_1", "hash_dissatisfaction"):
        d[nm] = F.fn(nm, file="satisfy/mod.rs", container="Witness")
    d["into_sorted_bip67"] = F.fn("into_sorted_bip67", file="primitives/threshold.rs")
    d["into_sorted_bip67_xonly"] = F.fn("into_sorted_bip67_xonly", file="primitives/threshold.rs")
    return d


def child_sd(F, i, locks=False):
    sdpath = [a for a in F.adts if a.endswith("sat_dissat::SatDissat")]
    if len(sdpath) != 1:
        raise KeyError("SatDissat struct")

    def s(tag):
        return Adt(SAT, "Satisfaction", {
            "stack": Adt(WIT, "Stack", {"0": PyVec([Term(tag, i)])}),
            "has_sig": Term("hs_" + tag, i),
            "absolute_timelock": some(Term("abs_" + tag, i)) if locks else NONE,
            "relative_timelock": some(Term("rel_" + tag, i)) if locks else NONE})
    return Adt(sdpath[0], "SatDissat", {"dissat": s("D"), "sat": s("S")})


def is_provider_call(t):
    return isinstance(t, Term) and t.op == "call" and ("provider_" in str(t.args[0]) or "check_" in str(t.args[0]))


def make_assume(assets=True, locks_met=True):
    def assume(term, taken):
        # asset lookups succeed (template with everything available)
        if term.op == "is" and is_provider_call(term.args[0]):
            return (term.args[1] == "Some") == assets
        if is_provider_call(term):
            name = str(term.args[0])
            if "check_after" in name or "check_older" in name:
                return locks_met
            return assets
        # documented belief asserted by the code: dissatisfactions of `d` children carry no signature
        if term.op == "hs_D":
            return False
        return None
    return assume


def run_variant(F, variant, malleable, n=3, k=2, assets=True, locks_met=True, locks=False, P=None):
    """-> list of (conditions, SatDissat value | ('panic', msg)), machine"""
    P = P or paths(F)
    t = model.terminal(F, variant, n=n, k=k)
    ar = model.arity(F, variant, n=n)
    ms = model.miniscript(t)
    hooks = {P["post_order_iter"]: lambda m, a, c: PyIter([model.iter_item(ms)])}
    for nm in ("minimum", "minimum_mall", "thresh", "thresh_mall"):
        hooks[P[nm]] = (lambda nm: lambda m, a, c: Term(nm, *a))(nm)

    def sorted_hook(tag):
        def h(m, a, c):
            th = a[0]
            if isinstance(th, Adt):
                items = th.fields["inner"].items
                return Adt(th.path, th.variant, {"k": th.fields["k"],
                                                 "inner": PyVec([Term(tag, x) for x in items])})
            return Term(tag, th)
        return h
    hooks[P["into_sorted_bip67"]] = sorted_hook("sorted67")
    hooks[P["into_sorted_bip67_xonly"]] = sorted_hook("sorted67x")

    def unint(p, callee):
        tr = callee.get("trait") or ""
        if tr.endswith("AssetProvider") or tr.endswith("Satisfier"):
            return True
        if tr.endswith("ScriptContext") and not callee.get("resolved"):
            return True
        if locks and callee.get("name") == "max" and "LockTime" in ((callee.get("container") or "") + (callee.get("def") or "")):
            return True
        return False
    m = Machine(F, strict=False, hooks=hooks, uninterpreted=unint)
    m.vec_seed = lambda ty: [child_sd(F, i, locks) for i in range(ar)] if "SatDissat" in ty else None
    args = [ms, Term("stfr"), malleable, Term("root_has_sig"), Term("leaf_hash")]
    res = explore(m, lambda: m.call_path(P["sat_dissat"], list(args)), make_assume(assets, locks_met))
    return res, m


def key_name(t):
    if isinstance(t, Term):
        if t.op == "pk":
            return "K%d" % t.args[0]
        if t.op in ("sorted67", "sorted67x"):
            return t.op + ":" + key_name(t.args[0])
        if t.op == "hash":
            return "KH"
    return repr(t)


def nf_atom(a):
    if isinstance(a, Term):
        if a.op in ("S", "D"):
            return (a.op, a.args[0])
        return ("?", repr(a))
    if isinstance(a, Adt) and a.path == PH:
        v = a.variant
        if v == "PushZero":
            return "0"
        if v == "PushOne":
            return "1"
        if v == "HashDissatisfaction":
            return "zeros32"
        if v in ("EcdsaSigPk", "SchnorrSigPk"):
            return ("sig", key_name(a.fields["0"]))
        if v in ("EcdsaSigPkHash", "SchnorrSigPkHash"):
            return ("sig", "KH")
        if v == "Pubkey":
            return ("key", key_name(a.fields["0"]))
        if v == "PubkeyHash":
            return ("key", "KH")
        if v.endswith("Preimage"):
            return ("pre",)
        return ("?", v)
    return ("?", repr(a))


def nf_witness(w):
    if isinstance(w, Adt) and w.path == WIT:
        if w.variant == "Impossible":
            return IMPOSSIBLE
        if w.variant == "Unavailable":
            return UNAVAILABLE
        items = w.fields["0"]
        if isinstance(items, PyVec):
            return [nf_atom(x) for x in items.items]
    return ("?", repr(w))


def nf_sat(x):
    """normal form of a Satisfaction value / selection term"""
    if isinstance(x, Adt) and x.path == SAT:
        return nf_witness(x.fields["stack"])
    if isinstance(x, Term) and x.op in ("minimum", "minimum_mall"):
        a, b = nf_sat(x.args[0]), nf_sat(x.args[1])
        return ("alt", a, b)
    if isinstance(x, Term) and x.op in ("thresh", "thresh_mall"):
        k, n, dis, sats = x.args
        return ("thresh", k, n, [nf_sat(d) for d in dis.items], [nf_sat(s) for s in sats.items])
    return ("?", repr(x))


def selectors(x):
    """names of the selection functions used in a value"""
    out = set()
    if isinstance(x, Term):
        if x.op in ("minimum", "minimum_mall", "thresh", "thresh_mall"):
            out.add(x.op)
        for a in x.args:
            out |= selectors(a)
    elif isinstance(x, Adt):
        for v in x.fields.values():
            out |= selectors(v)
    elif isinstance(x, PyVec):
        for v in x.items:
            out |= selectors(v)
    return out


def alt_eq(a, b):
    """template equality with unordered alternatives"""
    if isinstance(a, tuple) and a and a[0] == "alt":
        if not (isinstance(b, tuple) and b and b[0] == "alt"):
            return False
        return (alt_eq(a[1], b[1]) and alt_eq(a[2], b[2])) or (alt_eq(a[1], b[2]) and alt_eq(a[2], b[1]))
    if isinstance(a, list) and isinstance(b, list):
        return len(a) == len(b) and all(alt_eq(x, y) for x, y in zip(a, b))
    if isinstance(a, tuple) and isinstance(b, tuple):
        return len(a) == len(b) and all(alt_eq(x, y) for x, y in zip(a, b))
    return a == b


def has_sig_of(x):
    """the has_sig term of a Satisfaction value"""
    if isinstance(x, Adt) and x.path == SAT:
        return x.fields["has_sig"]
    return None


def expected_has_sig(x):
    """OR of the has_sig of the parts of the stack (signature atoms are True)"""
    if not (isinstance(x, Adt) and x.path == SAT):
        return None
    w = x.fields["stack"]
    if not (isinstance(w, Adt) and w.variant == "Stack"):
        return None
    parts = []
    for a in w.fields["0"].items:
        n = nf_atom(a)
        if isinstance(n, tuple) and n[0] == "sig":
            return True
        if isinstance(n, tuple) and n[0] in ("S", "D"):
            parts.append(Term("hs_" + n[0], n[1]))
    return parts


def flatten_or(t):
    if isinstance(t, Term) and t.op == "or":
        return flatten_or(t.args[0]) + flatten_or(t.args[1])
    if t is False:
        return []
    return [t]
