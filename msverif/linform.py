"""Linear forms over opaque atoms, for comparing size expressions."""

from .interp import Term


class NotLinear(Exception):
    pass


def lin(t, atom=None):
    """Term/int -> dict {atom_key or 1: coeff}. `atom(term)` may map a term to a canonical atom key
    (or return None to descend / fail)."""
    if isinstance(t, bool):
        return {1: int(t)}
    if isinstance(t, int):
        return {1: t} if t else {}
    if isinstance(t, Term):
        if atom is not None:
            a = atom(t)
            if a is not None:
                if isinstance(a, dict):
                    return a
                return {a: 1}
        if t.op in ("add", "addwithoverflow"):
            return add(lin(t.args[0], atom), lin(t.args[1], atom))
        if t.op == "sub":
            return add(lin(t.args[0], atom), scale(lin(t.args[1], atom), -1))
        if t.op == "mul":
            a, b = lin(t.args[0], atom), lin(t.args[1], atom)
            if set(a) <= {1}:
                return scale(b, a.get(1, 0))
            if set(b) <= {1}:
                return scale(a, b.get(1, 0))
            raise NotLinear(repr(t))
        if t.op in ("cast", "into"):
            return lin(t.args[0], atom)
        return {repr(t): 1}
    raise NotLinear(repr(t))


def add(a, b):
    out = dict(a)
    for k, v in b.items():
        out[k] = out.get(k, 0) + v
        if out[k] == 0:
            del out[k]
    return out


def scale(a, c):
    return {k: v * c for k, v in a.items() if v * c != 0}


def show(a):
    if not a:
        return "0"
    parts = []
    for k in sorted(a, key=lambda x: (x != 1, str(x))):
        v = a[k]
        parts.append(str(v) if k == 1 else ("%s" % k if v == 1 else "%d*%s" % (v, k)))
    return " + ".join(parts)
