"""Type strings as printed by rustc: splitting, substitution of generic parameters, unification."""

import re


def split_type(t):
    """'a::B<X, Y<Z>>' -> ('a::B', ['X', 'Y<Z>']); types without arguments -> (t, [])"""
    t = t.strip()
    i = t.find("<")
    if i <= 0 or not t.endswith(">") or t[0] in "<(&[":
        return t, []
    head, inner = t[:i], t[i + 1:-1]
    if head.endswith("::"):
        head = head[:-2]
    args, depth, cur = [], 0, ""
    for ch in inner:
        if ch in "<([":
            depth += 1
        elif ch in ">)]":
            depth -= 1
        if ch == "," and depth == 0:
            args.append(cur.strip())
            cur = ""
        else:
            cur += ch
    if cur.strip():
        args.append(cur.strip())
    return head, args


def type_head(t):
    t = re.sub(r"^&(mut )?('\w+ )?", "", t.strip())
    h, _ = split_type(t)
    return h


_IDENT = re.compile(r"(?<![\w:'])[A-Za-z_]\w*")


def subst_type(t, env):
    """replace generic parameter names (whole identifiers that do not follow a `::`) by their bindings"""
    if not env:
        return t

    def rep(mo):
        return env.get(mo.group(0), mo.group(0))
    return _IDENT.sub(rep, t)


def unify_type(pat, conc, gens, env):
    pat, conc = pat.strip(), conc.strip()
    if pat in gens:
        env.setdefault(pat, conc)
        return
    ph, pa = split_type(pat)
    ch, ca = split_type(conc)
    if ph == ch and len(pa) == len(ca):
        for x, y in zip(pa, ca):
            unify_type(x, y, gens, env)


def impl_self_pattern(container):
    """self type of an impl from its printed container:
       'm::<impl Trait for Type<Pk, Ctx>>'  or  '<Type<T> as Trait<..>>'"""
    mo = re.search(r"<impl .*? for (.*)>$", container)
    if mo:
        return mo.group(1)
    if container.startswith("<") and " as " in container:
        depth = 0
        for i, ch in enumerate(container):
            if ch == "<":
                depth += 1
            elif ch == ">":
                depth -= 1
            if depth == 1 and container[i:i + 4] == " as ":
                return container[1:i]
    return None
