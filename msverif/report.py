"""Check context: obligations, violations, known findings, evidence."""

import json
import os
import re
import time

from . import facts as factsmod

VERIF = factsmod.VERIF
KNOWN = os.path.join(VERIF, "known_findings.txt")


class Unsupported(Exception):
    """The analysed code left the language subset the analyser understands.
    Rules fail closed on this (kind=unanalysable)."""

    def __init__(self, what, where=""):
        Exception.__init__(self, "%s at %s" % (what, where))
        self.what = what
        self.where = where


def load_known():
    """known_findings.txt lines:
       finding: property=C09 key=<rule>|<site key> :: text
       fixed: property=C09 <commit> <text>
    Only `finding:` lines suppress anything."""
    out = {}
    if not os.path.exists(KNOWN):
        return out
    for line in open(KNOWN):
        line = line.strip()
        m = re.match(r"finding:\s+property=(\S+)\s+key=(\S+)\s*(?:::\s*(.*))?$", line)
        if m:
            out[(m.group(1), m.group(2))] = m.group(3) or ""
    return out


class Check:
    def __init__(self, prop, tier="quick", level="other"):
        self.prop = prop
        self.tier = tier
        self.level = level
        self.t0 = time.time()
        self.rules = {}          # rule -> {"obligations": n, "discharged": n, "desc": str}
        self.violations = []     # dicts
        self.samples = []
        self.analysed = set()
        self.assumptions = []
        self.explanation = ""
        self.trusted = []
        self.extra = {}
        self._facts = {}

    # ---- facts ---------------------------------------------------------
    def facts(self, config="default"):
        if config not in self._facts:
            self._facts[config] = factsmod.load(config)
        return self._facts[config]

    # ---- bookkeeping ---------------------------------------------------
    def rule(self, rule, desc):
        self.rules.setdefault(rule, {"obligations": 0, "discharged": 0, "desc": desc})

    def ok(self, rule, n=1):
        r = self.rules.setdefault(rule, {"obligations": 0, "discharged": 0, "desc": ""})
        r["obligations"] += n
        r["discharged"] += n

    def fail(self, rule, key, msg, where="", detail=None, kind="violation"):
        """key: stable site key without line numbers (function path, variant,
        field, ...). where: file:line for the reader."""
        r = self.rules.setdefault(rule, {"obligations": 0, "discharged": 0, "desc": ""})
        r["obligations"] += 1
        self.violations.append({
            "property": self.prop, "rule": rule, "key": "%s|%s" % (rule, key),
            "kind": kind, "message": msg, "where": where, "detail": detail,
        })

    def obligation(self, rule, cond, key, msg, where="", detail=None):
        if cond:
            self.ok(rule)
        else:
            self.fail(rule, key, msg, where, detail)
        return cond

    def floor(self, rule, what, count, floor):
        """Instance-count floor: a rule that matches fewer sites than were
        confirmed by hand fails (never passes vacuously)."""
        if count < floor:
            self.fail(rule, "floor:" + what,
                      "rule instance count for %s is %d, below the confirmed floor %d "
                      "(anchor moved or extraction incomplete)" % (what, count, floor),
                      kind="unanalysable")
        else:
            self.ok(rule)

    def guard(self, rule, key, fn, *a, **kw):
        """Run an extraction step; Unsupported / missing anchors fail closed."""
        try:
            return fn(*a, **kw)
        except Unsupported as e:
            self.fail(rule, key, "unanalysable: %s" % e, where=e.where, kind="unanalysable")
        except KeyError as e:
            self.fail(rule, key, "missing anchor: %s" % e, kind="unanalysable")
        return None

    def sample(self, s):
        if len(self.samples) < 40:
            self.samples.append(s)

    def saw(self, *paths):
        for p in paths:
            self.analysed.add(p)

    # ---- finish --------------------------------------------------------
    def finish(self):
        known = load_known()
        outdir = os.path.join(VERIF, "out", self.prop)
        os.makedirs(outdir, exist_ok=True)
        for f in os.listdir(outdir):
            try:
                os.remove(os.path.join(outdir, f))
            except OSError:
                pass
        new = []
        seen_known = []
        for v in self.violations:
            k = (self.prop, v["key"])
            if k in known:
                seen_known.append(v)
            else:
                new.append(v)
        lines = []
        for v in seen_known:
            lines.append("KNOWN-FINDING: property=%s %s: %s" % (self.prop, v["key"], v["message"]))
        n = 0
        for v in new:
            n += 1
            path = os.path.join(outdir, "%s-%d.json" % (re.sub(r"[^A-Za-z0-9.]+", "_", v["rule"]), n))
            with open(path, "w") as fh:
                json.dump(v, fh, indent=1, default=str)
            lines.append("[%s] %s %s: %s (%s)" % (v["kind"], v["rule"], v["key"], v["message"], v["where"]))
            lines.append("VIOLATION property=%s replay=%s" % (self.prop, path))
        obligations = sum(r["obligations"] for r in self.rules.values())
        discharged = sum(r["discharged"] for r in self.rules.values())
        wall = time.time() - self.t0
        cov = {
            "explanation": self.explanation,
            "obligations": obligations,
            "discharged": discharged + len(seen_known) * 0,
            "known_findings_reported": len(seen_known),
            "checker_cmd": "./check %s %s" % (self.prop, self.tier),
            "trusted_base": self.trusted,
            "rules": {k: v for k, v in sorted(self.rules.items())},
            "functions_analysed": sorted(self.analysed),
            "n_functions_analysed": len(self.analysed),
            "samples": self.samples[:40] if self.samples else ["(none)"],
            "evaluations": max(obligations, 1),
            "distinct_nontrivial": max(discharged, 0),
            "rule": "one obligation per rule instance (variant x site, table cell, call site, path); "
                    "distinct_nontrivial = obligations discharged on this run",
            "exhaustive": self.extra.get("exhaustive", False),
            "facts": os.path.basename(self.facts().path) if self._facts else None,
        }
        for k, v in self.extra.items():
            cov[k] = v
        ev = {
            "property_id": self.prop,
            "tier": self.tier,
            "seed": int(os.environ.get("VERIF_SEED", "0") or 0),
            "level": self.level,
            "coverage": cov,
            "assumptions": self.assumptions,
            "wall_s": round(wall, 2),
            "violations": len(new),
        }
        os.makedirs(os.path.join(VERIF, "evidence"), exist_ok=True)
        with open(os.path.join(VERIF, "evidence", self.prop + ".json"), "w") as fh:
            json.dump(ev, fh, indent=1, default=str)
        for l in lines:
            print(l)
        print("%s %s: %d rules, %d obligations, %d discharged, %d known findings, %d violations, %.1fs"
              % (self.prop, self.tier, len(self.rules), obligations, discharged, len(seen_known), len(new), wall))
        return 1 if new else 0


class RuleAlias(object):
    """present a check context to a rule function of another property under this property's rule id"""

    def __init__(self, chk, mapping, note):
        self._chk, self._map, self._note = chk, mapping, note

    def _r(self, rule):
        return self._map.get(rule, rule)

    def rule(self, rule, desc):
        self._chk.rule(self._r(rule), "%s -- %s" % (self._note, desc))

    def ok(self, rule, n=1):
        self._chk.ok(self._r(rule), n)

    def fail(self, rule, key, msg, where="", detail=None, kind="violation"):
        self._chk.fail(self._r(rule), key, msg, where, detail, kind)

    def obligation(self, rule, cond, key, msg, where="", detail=None):
        return self._chk.obligation(self._r(rule), cond, key, msg, where, detail)

    def floor(self, rule, what, count, floor):
        self._chk.floor(self._r(rule), what, count, floor)

    def guard(self, rule, key, fn, *a, **kw):
        return self._chk.guard(self._r(rule), key, fn, *a, **kw)

    def __getattr__(self, name):
        return getattr(self._chk, name)
