"""Max-plus normal forms: an expression over +, max and opaque non-negative atoms is a set of linear
forms (its value is the max of them). Used to compare size bounds."""

from .interp import Term
from . import linform


class NotMaxPlus(Exception):
    pass


def mp(t, atom=None):
    """-> list of linear forms (dict)"""
    if isinstance(t, bool):
        return [{1: int(t)} if t else {}]
    if isinstance(t, int):
        return [{1: t} if t else {}]
    if isinstance(t, Term):
        if atom is not None:
            a = atom(t)
            if a is not None:
                return a if isinstance(a, list) else [{a: 1}]
        if t.op in ("add", "addwithoverflow"):
            return plus(mp(t.args[0], atom), mp(t.args[1], atom))
        if t.op == "max":
            return dedup(mp(t.args[0], atom) + mp(t.args[1], atom))
        if t.op in ("cast", "into"):
            return mp(t.args[0], atom)
        if t.op == "mul":
            a, b = mp(t.args[0], atom), mp(t.args[1], atom)
            if len(a) == 1 and set(a[0]) <= {1}:
                return [linform.scale(x, a[0].get(1, 0)) for x in b]
            if len(b) == 1 and set(b[0]) <= {1}:
                return [linform.scale(x, b[0].get(1, 0)) for x in a]
            raise NotMaxPlus(repr(t))
        if t.op == "sub":
            a, b = mp(t.args[0], atom), mp(t.args[1], atom)
            if len(b) == 1:
                return [linform.add(x, linform.scale(b[0], -1)) for x in a]
            raise NotMaxPlus(repr(t))
        return [{repr(t): 1}]
    raise NotMaxPlus(repr(t))


def plus(a, b):
    return dedup([linform.add(x, y) for x in a for y in b])


def dedup(forms):
    out = []
    for f in forms:
        if not any(dominates(g, f) for g in out):
            out = [g for g in out if not dominates(f, g)]
            out.append(f)
    return out


def dominates(big, small):
    """big >= small for all non-negative atom values"""
    for k, v in small.items():
        if big.get(k, 0) < v:
            return False
    for k, v in big.items():
        if v < 0 and small.get(k, 0) > v:
            return False
    return True


def set_dominates(big, small):
    """max(big) >= max(small): every form of small is dominated by some form of big"""
    missing = [s for s in small if not any(dominates(b, s) for b in big)]
    return not missing, missing


def show(forms):
    return "max(" + ", ".join(linform.show(f) for f in forms) + ")" if len(forms) != 1 else linform.show(forms[0])
