"""Symbolic extraction of the script template emitted by Terminal::encode."""

import re

from . import model
from .interp import Machine, Adt, Term, PyVec, PyIter, explore
from .report import Unsupported


def paths(F):
    d = {}
    d["encode"] = F.fn("encode", file="miniscript/astelem.rs", container="Terminal")
    d["push_astelem"] = F.fn("push_astelem", file="miniscript/astelem.rs", container="PushAstElem")
    d["push_ms_key"] = [p for p in F.fn("push_ms_key", file="util.rs", allow_many=True)]
    d["push_ms_key_hash"] = [p for p in F.fn("push_ms_key_hash", file="util.rs", allow_many=True)]
    d["into_sorted_bip67"] = F.fn("into_sorted_bip67", file="primitives/threshold.rs")
    d["into_sorted_bip67_xonly"] = F.fn("into_sorted_bip67_xonly", file="primitives/threshold.rs")
    return d


def B(b, *toks):
    if not (isinstance(b, Term) and b.op == "B"):
        raise Unsupported("builder value %r" % (b,))
    return Term("B", *(b.args + toks))


def child_index(x):
    if isinstance(x, Adt) and isinstance(x.fields.get("node"), Term) and x.fields["node"].op == "node":
        return x.fields["node"].args[0]
    return None


def key_ref(t):
    """key term -> ('plain'|'sorted67'|'sorted67x', index)"""
    if isinstance(t, Term):
        if t.op == "pk":
            return ("plain", t.args[0])
        if t.op in ("sorted67", "sorted67x"):
            inner = key_ref(t.args[0])
            return (t.op, inner[1]) if inner else None
        if t.op == "call" and t.args[1:]:
            return key_ref(t.args[1])
    return None


def make_hooks(F, P):
    hooks = {}

    def push_opcode(m, a, c):
        op = a[1]
        if isinstance(op, Adt) and "code" in op.fields:
            return B(a[0], ("op", op.fields["code"]))
        return B(a[0], ("op?", repr(op)))

    def push_int(m, a, c):
        return B(a[0], ("num", a[1]))

    def push_slice(m, a, c):
        return B(a[0], ("push", a[1]))

    def push_key(m, a, c):
        return B(a[0], ("key_full", a[1]))

    def push_verify(m, a, c):
        return B(a[0], ("verify",))
    hooks["bitcoin::script::Builder::push_opcode"] = push_opcode
    hooks["bitcoin::script::Builder::push_int"] = push_int
    hooks["bitcoin::script::Builder::push_slice"] = push_slice
    hooks["bitcoin::script::Builder::push_key"] = push_key
    hooks["bitcoin::script::Builder::push_verify"] = push_verify
    hooks["bitcoin::script::Builder::push_x_only_key"] = lambda m, a, c: B(a[0], ("key_xonly", a[1]))

    def push_astelem(m, a, c):
        i = child_index(a[1])
        if i is None:
            raise Unsupported("push_astelem of a non-child %r" % (a[1],))
        return B(a[0], ("child", i))
    hooks[P["push_astelem"]] = push_astelem
    hooks["miniscript::astelem::PushAstElem::push_astelem"] = push_astelem
    for p in P["push_ms_key"] + ["util::MsKeyBuilder::push_ms_key"]:
        hooks[p] = lambda m, a, c: B(a[0], ("key_ctx", a[1]))
    for p in P["push_ms_key_hash"] + ["util::MsKeyBuilder::push_ms_key_hash"]:
        hooks[p] = lambda m, a, c: B(a[0], ("keyhash_ctx", a[1]))

    def sorted_hook(tag):
        def h(m, a, c):
            th = a[0]
            if isinstance(th, Adt):
                return Adt(th.path, th.variant, {"k": th.fields["k"],
                                                 "inner": PyVec([Term(tag, x) for x in th.fields["inner"].items])})
            return Term(tag, th)
        return h
    hooks[P["into_sorted_bip67"]] = sorted_hook("sorted67")
    hooks[P["into_sorted_bip67_xonly"]] = sorted_hook("sorted67x")
    return hooks


def run_encode(F, variant, n=3, k=None, P=None):
    P = P or paths(F)
    t = model.terminal(F, variant, n=n, k=k if k is not None else 2, sym_k=(k is None))

    def unint(p, callee):
        tr = callee.get("trait") or ""
        if tr.endswith("ScriptContext") and not callee.get("resolved"):
            return True
        if tr.endswith("ToPublicKey") or tr.endswith("MiniscriptKey"):
            return True
        return False
    m = Machine(F, strict=False, hooks=make_hooks(F, P), uninterpreted=unint)

    def assume(term, taken):
        # debug_assert!(Ctx::sig_type() == ...) : follow the asserted belief
        s = repr(term)
        if "sig_type" in s and term.op in ("eq", "ne", "not"):
            return None
        return None
    res = explore(m, lambda: m.call_path(P["encode"], [t, Term("B")]), assume)
    return res, m


def classify_push(x):
    s = repr(x)
    if re.search(r"to_sha256|to_hash256", s):
        return 32
    if re.search(r"to_ripemd160|to_hash160", s):
        return 20
    if "hash" in s:   # RawPkH payload: hash160::Hash
        return 20
    if "x_only" in s or "xonly" in s:
        return "xonly"
    return "?"


def nf_tokens(b):
    """normal form of the emitted token sequence"""
    if not (isinstance(b, Term) and b.op == "B"):
        return None
    out = []
    for t in b.args:
        kind = t[0]
        if kind == "op":
            out.append(("op", t[1]))
        elif kind == "num":
            v = t[1]
            if isinstance(v, int):
                out.append(("num", v))
            else:
                s = repr(v)
                if re.fullmatch(r"((cast|into)\()*to_consensus_u32\(field\(locktime, '0'\)\)(, '?i64'?\))*", s):
                    # the fragment's own lock value, all 32 bits of its consensus encoding, widened to i64
                    out.append(("num", "locktime"))
                elif "locktime" in s:
                    # the lock value through some other conversion (rust-bitcoin's relative::LockTime keeps 16 bits + the
                    # unit flag, Height / Time keep the value only ...): not the number the fragment stands for
                    out.append(("num", "locktime through " + s))
                elif s in ("k", "cast(k, 'i64')") or re.fullmatch(r"(cast|into)\(k, '?i64'?\)", s):
                    out.append(("num", "k"))
                else:
                    out.append(("num", s))
        elif kind == "push":
            out.append(("push", classify_push(t[1])))
        elif kind in ("key_full", "key_ctx", "key_xonly"):
            kr = key_ref(t[1])
            out.append(("key", kind, kr))
        elif kind == "keyhash_ctx":
            out.append(("keyhash",))
        elif kind == "child":
            out.append(("child", t[1]))
        elif kind == "verify":
            out.append(("verify",))
        else:
            out.append(("?", repr(t)))
    return out
