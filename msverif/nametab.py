"""Printer / parser name tables extracted from match arms (THIR)."""

import re

from . import symx


def literals(node):
    out = []

    def f(n):
        if n.get("k") == "lit" and "str" in n:
            out.append(n["str"])
    symx.walk(node, f)
    return out


def head(s):
    m = re.match(r"^([A-Za-z_0-9]+)", s)
    return m.group(1) if m else None


def printer_table(F, fn_path, adt):
    """variant -> set of head names written by the arm of the match over `adt` in fn_path"""
    body = F.thir(fn_path)["body"]
    tab = {}
    for mnode in symx.find_matches_on(body, adt, min_arms=2):
        for a in mnode["arms"]:
            vs = symx.pat_variants(a["pat"], adt)
            if not vs:
                continue
            names = [head(s) for s in literals(a["body"])]
            names = [n for n in names if n]
            for v in vs:
                tab.setdefault(v, [])
                for n in names:
                    if n not in tab[v]:
                        tab[v].append(n)
        if tab:
            break
    return tab


def parser_table(F, fn_path, adt, closures=True):
    """name -> set of variants of `adt` constructed in the arm of the string match"""
    bodies = [fn_path] + (F.closures_of(fn_path) if closures else [])
    best = {}
    for bp in bodies:
        body = F.thir(bp)["body"]
        for mnode in symx.find_nodes(body, lambda n: n.get("k") == "match"):
            tab = {}
            for a in mnode["arms"]:
                names = const_strs(a["pat"])
                if not names:
                    continue
                built = constructed(a["body"], adt)
                for nm in names:
                    tab[nm] = built
            if len(tab) > len(best):
                best = tab
    return best


def const_strs(pat):
    out = []
    k = pat["k"]
    if k == "const" and symx.pat_str(pat) is not None:
        out.append(symx.pat_str(pat))
    elif k == "or":
        for p in pat["pats"]:
            out += const_strs(p)
    elif k in ("deref", "deref_pattern") or (k == "bind" and "sub" in pat):
        out += const_strs(pat["sub"])
    return out


def const_ints(pat):
    out = []
    k = pat["k"]
    if k == "const" and "int" in pat:
        out.append(pat["int"])
    elif k == "or":
        for p in pat["pats"]:
            out += const_ints(p)
    elif k in ("deref", "deref_pattern") or (k == "bind" and "sub" in pat):
        out += const_ints(pat["sub"])
    return out


def constructed(node, adt):
    """variants of adt built (struct/variant literal or constructor function reference) inside node,
    plus names of associated functions / constants of Self referenced"""
    out = []

    def f(n):
        if n.get("k") == "adt" and n.get("adt") == adt:
            out.append(n["variant"])
        if n.get("k") in ("zst", "call", "const") and "callee" in n:
            d = n["callee"].get("def") or ""
            if d.startswith(adt + "::"):
                out.append(d[len(adt) + 2:])
            else:
                nm = n["callee"].get("name")
                if nm:
                    out.append("fn:" + nm)
    symx.walk(node, f)
    return out
