"""Mode dispatch: malleable entry points reach the malleable internals and vice versa."""

import re

from . import symx

MALL_RE = re.compile(r"_mall(eable)?(?=_|$)")
FLAG_PARAMS = ("allow_mall", "malleable")


# Reasoned exceptions: (function, callee) pairs where malleable-mode code legitimately uses the
# non-malleable routine because the output type has a single witness shape.
EXCEPTIONS = {
    ("descriptor::bare::Pkh::<Pk>::get_satisfaction_mall", "get_satisfaction"):
        "pkh has exactly one witness shape (sig, key)",
    ("descriptor::bare::Pkh::<Pk>::plan_satisfaction_mall", "plan_satisfaction"):
        "pkh has exactly one witness shape (sig, key)",
    ("descriptor::segwitv0::Wpkh::<Pk>::get_satisfaction_mall", "get_satisfaction"):
        "wpkh has exactly one witness shape (sig, key)",
    ("descriptor::segwitv0::Wpkh::<Pk>::plan_satisfaction_mall", "plan_satisfaction"):
        "wpkh has exactly one witness shape (sig, key)",
    ("descriptor::segwitv0::Wsh::<Pk>::plan_satisfaction_mall", "build_template"):
        "only in the `Terminal::SortedMulti` arm: a top-level sortedmulti has no alternative witnesses",
    ("descriptor::sh::Sh::<Pk>::get_satisfaction_mall", "get_satisfaction"):
        "only in the arm left for ShInner::Wpkh (Wsh and Ms handled explicitly): single witness shape",
    ("descriptor::sh::Sh::<Pk>::plan_satisfaction_mall", "plan_satisfaction"):
        "only in the arm left for ShInner::Wpkh (Wsh and Ms handled explicitly): single witness shape",
}


def exception_holds(F, p, cs):
    """structural side-condition of an exception"""
    sp = short(p)
    if sp.startswith("descriptor::sh::Sh"):
        # the call must sit in a wildcard arm of a match whose explicit arms cover Wsh and Ms
        th = F.bodies[p]["thir"]["body"]
        for mnode in symx.find_nodes(th, lambda n: n.get("k") == "match"):
            covered = set()
            wild_bodies = []
            for a in mnode["arms"]:
                v = symx.pat_variants(a["pat"])
                if v is None:
                    wild_bodies.append(a["body"])
                else:
                    covered |= v
            for wb in wild_bodies:
                if symx.find_nodes(wb, lambda n: n is cs["node"]):
                    return {"Wsh", "Ms"} <= covered
        return False
    if sp.startswith("descriptor::segwitv0::Wsh"):
        th = F.bodies[p]["thir"]["body"]
        for n in symx.find_nodes(th, lambda n: n.get("k") == "if"):
            c = n["cond"]
            lets = symx.find_nodes(c, lambda x: x.get("k") == "let")
            if lets and symx.pat_variants(lets[0]["pat"]) == {"SortedMulti"}:
                if symx.find_nodes(n["then"], lambda x: x is cs["node"]):
                    return True
        return False
    return True


def is_mall(name):
    return bool(MALL_RE.search(name or ""))


def untwin(name):
    return MALL_RE.sub("", name)


def mall_twins(F):
    """set of (container, non-mall name) that have a malleable twin"""
    out = set()
    for p, f in F.fns.items():
        n = f.get("name")
        if n and is_mall(n):
            out.add((f.get("container") or module_of(p), untwin(n)))
    return out


def module_of(path):
    return path.rsplit("::", 1)[0]


def flag_regions(F, path):
    """for a function with a flag parameter: [(then_nodes, else_nodes)] of `if <flag>`"""
    th = F.bodies[path]["thir"]
    names = symx.param_names(F, path)
    flags = [n for n in names if n in FLAG_PARAMS]
    if not flags:
        return None
    regs = []
    for n in symx.find_nodes(th["body"], lambda n: n.get("k") == "if"):
        c = symx.strip_expr(n["cond"])
        neg = False
        if c.get("k") == "un" and c.get("op") == "Not":
            neg = True
            c = symx.strip_expr(c["e"])
        if c.get("k") in ("var", "upvar") and c.get("name") in flags:
            t, e = n["then"], n["else"]
            regs.append((e, t) if neg else (t, e))
    return regs


def check_modes(chk, F, rid, in_files):
    """in_files: source file suffixes whose functions are subject to the rule"""
    chk.rule(rid, "malleable-mode entry points reach only the malleable internals (or pass the flag as "
                  "true); non-malleable ones the converse; flag-dispatching functions branch the right way")
    twins = mall_twins(F)
    n_sites = 0
    subjects = []
    for p, f in sorted(F.fns.items()):
        if f.get("kind") == "Closure" or f.get("derived"):
            continue
        file = f["span"].split(":")[0]
        if not any(file.endswith(s) for s in in_files):
            continue
        if "::tests::" in p or "::test::" in p:
            continue
        subjects.append(p)
    for p in subjects:
        f = F.fns[p]
        name = f["name"]
        xmall = is_mall(name)
        has_twin = (f.get("container") or module_of(p), name) in twins
        regs = flag_regions(F, p)
        my_flags = [n for n in symx.param_names(F, p) if n in FLAG_PARAMS]
        relevant = xmall or has_twin or bool(my_flags)
        if not relevant:
            continue
        chk.saw(p)

        def region_mode(node):
            """True (mall) / False / None for a call node by the enclosing `if flag` region"""
            if not regs:
                return None
            for then, els in regs:
                if then is not None and any(x is node for x in symx.find_nodes(then, lambda n: n is node)):
                    return True
                if els is not None and any(x is node for x in symx.find_nodes(els, lambda n: n is node)):
                    return False
            return None
        for cs in symx.callsites(F, p):
            callee = cs["callee"]
            cf = F.fns.get(callee) or F.fns.get(cs["def"])
            if cf is None:
                continue
            cname = cf.get("name")
            ccont = cf.get("container") or module_of(callee)
            ymall = is_mall(cname)
            ytwin = (ccont, cname) in twins
            mode = True if xmall else (False if not my_flags else None)
            if my_flags:
                rm = region_mode(cs["node"])
                mode = rm
            key = "%s->%s" % (short(p), cname)
            if ymall or ytwin:
                n_sites += 1
                if mode is True and not ymall and (short(p), cname) in EXCEPTIONS:
                    chk.obligation(rid, exception_holds(F, p, cs), key + "|exception",
                                   "the reasoned exception for %s -> %s no longer has its structural "
                                   "side-condition (%s)" % (short(p), cname, EXCEPTIONS[(short(p), cname)]), cs["sp"])
                elif mode is True:
                    chk.obligation(rid, ymall, key,
                                   "malleable-mode code in %s calls the non-malleable %s although a malleable "
                                   "twin exists" % (short(p), cname), cs["sp"])
                elif mode is False:
                    chk.obligation(rid, not ymall, key,
                                   "non-malleable code in %s calls the malleable %s" % (short(p), cname), cs["sp"])
                else:
                    chk.fail(rid, key + "|unguarded",
                             "%s calls mode-specific %s outside an `if <flag>` region" % (short(p), cname), cs["sp"])
            # literal flags handed to flag parameters
            try:
                pn = symx.param_names(F, callee if callee in F.bodies else cs["def"])
            except KeyError:
                continue
            for i, a in enumerate(cs["args"]):
                if i >= len(pn) or pn[i] not in FLAG_PARAMS:
                    continue
                n_sites += 1
                a = symx.strip_expr(a)
                if a.get("k") == "lit" and "bool" in a:
                    if mode is None:
                        chk.fail(rid, key + "|flag", "%s passes a literal %s=%s from flag-dependent code"
                                 % (short(p), pn[i], a["bool"]), cs["sp"])
                    else:
                        chk.obligation(rid, a["bool"] == mode, key + "|flag",
                                       "%s (%s mode) passes %s=%s to %s"
                                       % (short(p), "malleable" if mode else "non-malleable", pn[i],
                                          str(a["bool"]).lower(), cname), cs["sp"],
                                       detail={"function": p, "callee": callee})
                elif a.get("k") in ("var", "upvar") and a.get("name") in my_flags:
                    chk.ok(rid)
                else:
                    chk.fail(rid, key + "|flag", "%s passes a computed value for %s to %s"
                             % (short(p), pn[i], cname), cs["sp"], kind="unanalysable")
    return n_sites


def short(p):
    p = re.sub(r"<impl [^>]*(<[^<>]*(<[^<>]*>)?[^<>]*>)?[^>]*>::", "", p)
    return p
