"""Fixed models of core/alloc functions used by the analysed code."""

from .interp import (Adt, Term, PyVec, PyIter, LazyIter, Closure, FnRef, MutRef, Panic, some, NONE, ok, err,
                     OPTION, RESULT, ORDERING, CF, dcopy, is_sym, INT_RANGES)
from .report import Unsupported

NOT_HANDLED = object()
TABLE = {}
TRAIT_TABLE = {}
# trait methods that are modelled semantically even when a crate-local impl exists
SEMANTIC_FIRST = set()
CONSTS = {
    "core::num::<impl usize>::MAX": 2**64 - 1,
    "core::num::<impl u32>::MAX": 2**32 - 1,
    "core::num::<impl u64>::MAX": 2**64 - 1,
    "core::num::<impl i64>::MAX": 2**63 - 1,
    "core::num::<impl u16>::MAX": 2**16 - 1,
    "core::num::<impl u8>::MAX": 255,
    "core::num::<impl i32>::MAX": 2**31 - 1,
    "core::num::<impl i32>::MIN": -2**31,
    "core::num::<impl i64>::MIN": -2**63,
    "core::num::<impl u32>::MIN": 0,
    "core::num::<impl usize>::MIN": 0,
    # rust-bitcoin: Weight is modelled by its weight-unit count
    "bitcoin::Weight::MAX_BLOCK": 4_000_000,
    "std::f64::INFINITY": float("inf"), "std::f64::MAX": 1.7976931348623157e308,
    "core::f64::<impl f64>::INFINITY": float("inf"), "core::f64::<impl f64>::MAX": 1.7976931348623157e308,
    "std::f64::consts::INFINITY": float("inf"),
}


def reg(*names):
    def deco(f):
        for n in names:
            TABLE[n] = f
        return f
    return deco


def treg(trait, name, first=False):
    def deco(f):
        TRAIT_TABLE[(trait, name)] = f
        if first:
            SEMANTIC_FIRST.add((trait, name))
        return f
    return deco


def deref(v):
    while isinstance(v, MutRef):
        v = v.get()
    return v


def is_opt(v, variant=None):
    return isinstance(v, Adt) and v.path == OPTION and (variant is None or v.variant == variant)


def is_res(v, variant=None):
    return isinstance(v, Adt) and v.path == RESULT and (variant is None or v.variant == variant)


_CUR_MACHINE = [None]


def drain_user_iter(m, it):
    """eagerly drain a crate-local iterator value by calling its `next`"""
    for imp in m.facts.impls_of(trait="std::iter::Iterator", self_adt=it.path):
        for item in imp["items"]:
            if item["name"] == "next" and item["path"] in m.facts.bodies:
                out = []
                for _ in range(100000):
                    r = m.call_path(item["path"], [it])
                    if is_sym(r):
                        raise Unsupported("symbolic result from user iterator")
                    if r.variant == "None":
                        return out
                    out.append(r.fields["0"])
                raise Unsupported("user iterator did not terminate")
    return None


def items_of(v):
    v = deref(v)
    if isinstance(v, Adt) and _CUR_MACHINE[0] is not None and v.path in _CUR_MACHINE[0].facts.adts:
        r = drain_user_iter(_CUR_MACHINE[0], v)
        if r is not None:
            return r
    if isinstance(v, PyVec):
        return v.items
    if type(v).__name__ == "PyMap":
        return list(v.pairs)
    if isinstance(v, PyIter):
        return v.rest()
    if isinstance(v, list):
        return v
    if isinstance(v, Adt) and v.path == "std::ops::RangeFrom":
        raise Unsupported("iteration over the unbounded range %r.." % (v.fields.get("start"),))
    if isinstance(v, Adt) and v.path.startswith("std::ops::Range"):
        lo = v.fields.get("start")
        hi = v.fields.get("end")
        if is_sym(lo) or is_sym(hi):
            raise Unsupported("symbolic range iteration")
        if v.path.endswith("RangeInclusive"):
            hi += 1
        return list(range(lo, hi))
    if is_opt(v, "Some"):
        return [v.fields["0"]]
    if is_opt(v, "None"):
        return []
    raise Unsupported("iteration over %r" % (v,))


# ---- Try / ? -------------------------------------------------------------

@treg("std::ops::Try", "branch", first=True)
def _branch(m, a, c):
    v = deref(a[0])
    if isinstance(v, Term):
        if m.decide(Term("is_ok", v)):
            return Adt(CF, "Continue", {"0": Term("unwrap", v)})
        return Adt(CF, "Break", {"0": Term("residual", v)})
    if is_res(v, "Ok") or is_opt(v, "Some"):
        return Adt(CF, "Continue", {"0": v.fields["0"]})
    if is_res(v, "Err"):
        return Adt(CF, "Break", {"0": v})
    if is_opt(v, "None"):
        return Adt(CF, "Break", {"0": v})
    raise Unsupported("Try::branch on %r" % (v,))


@treg("std::ops::FromResidual", "from_residual", first=True)
def _from_residual(m, a, c):
    v = a[0]
    if isinstance(v, Term):
        return Term("from_residual", v)
    # `?` converts the error with From<E> for F when the function's error type differs from the operand's: apply the
    # crate's own From impl (type-directed: picked from the two Result types the call is instantiated with)
    d = deref(v)
    targs = c.get("targs") or []
    if is_res(d, "Err") and len(targs) == 2 and not isinstance(d.fields["0"], Term):
        conv = _residual_conversion(m, targs[0], targs[1])
        if conv is not None:
            return err(m.call_path(conv, [d.fields["0"]]))
    return v  # identical error types, or a foreign conversion (modelled as identity)


_CONV_CACHE = {}


def _residual_conversion(m, target, residual):
    from .tystr import split_type, type_head
    key = (target, residual)
    if key in _CONV_CACHE:
        return _CONV_CACHE[key]
    out = None
    th, ta = split_type(target)
    rh, ra = split_type(residual)
    if th.endswith("result::Result") and rh.endswith("result::Result") and len(ta) == 2 and len(ra) == 2 and ta[1] != ra[1]:
        fty, ety = ta[1], ra[1]
        concrete, generic = [], []
        for imp in m.facts.impls:
            if imp.get("trait") != "std::convert::From" or type_head(imp.get("self_ty") or "") != type_head(fty):
                continue
            ts = imp.get("trait_str") or ""
            k = ts.rfind("std::convert::From<")
            if k < 0:
                continue
            src = ts[k + len("std::convert::From<"):].rstrip(">")
            # re-balance: the trait_str ends with `>>`: one for From<..>, one for the `<.. as ..>` wrapper
            src = ts[k + len("std::convert::From<"):-2]
            froms = [it["path"] for it in imp["items"] if it["name"] == "from" and it["path"] in m.facts.bodies]
            if not froms:
                continue
            if "::" not in src and "<" not in src and src[:1].isupper() and len(src) <= 3:
                generic.append(froms[0])
            elif type_head(src) == type_head(ety):
                concrete.append(froms[0])
        if len(concrete) == 1:
            out = concrete[0]
        elif not concrete and len(generic) == 1:
            out = generic[0]
    _CONV_CACHE[key] = out
    return out


# ---- Option --------------------------------------------------------------

@reg("std::option::Option::<T>::unwrap", "std::option::Option::<T>::expect")
def _opt_unwrap(m, a, c):
    v = deref(a[0])
    if isinstance(v, Term):
        return Term("unwrap", v)
    if is_opt(v, "Some"):
        return v.fields["0"]
    if is_opt(v, "None"):
        raise Panic("unwrap on None")
    raise Unsupported("Option::unwrap on %r" % (v,))


@reg("std::result::Result::<T, E>::unwrap", "std::result::Result::<T, E>::expect")
def _res_unwrap(m, a, c):
    v = deref(a[0])
    if isinstance(v, Term):
        return Term("unwrap", v)
    if is_res(v, "Ok"):
        return v.fields["0"]
    if is_res(v, "Err"):
        raise Panic("unwrap on Err")
    raise Unsupported("Result::unwrap on %r" % (v,))


@reg("std::option::Option::<T>::unwrap_or", "std::result::Result::<T, E>::unwrap_or")
def _opt_unwrap_or(m, a, c):
    v = deref(a[0])
    if isinstance(v, Term):
        return Term("unwrap_or", v, a[1])
    return v.fields["0"] if v.variant in ("Some", "Ok") else a[1]


@reg("std::option::Option::<T>::unwrap_or_else")
def _opt_unwrap_or_else(m, a, c):
    v = deref(a[0])
    if isinstance(v, Term):
        return Term("unwrap_or_else", v, a[1])
    return v.fields["0"] if v.variant == "Some" else m.call_value(a[1], [])


@reg("std::option::Option::<T>::is_some")
def _opt_is_some(m, a, c):
    v = deref(a[0])
    if isinstance(v, Term):
        return Term("is_some", v)
    return v.variant == "Some"


@reg("std::option::Option::<T>::is_none")
def _opt_is_none(m, a, c):
    v = deref(a[0])
    if isinstance(v, Term):
        return Term("not", Term("is_some", v))
    return v.variant == "None"


@reg("std::result::Result::<T, E>::is_ok")
def _res_is_ok(m, a, c):
    v = deref(a[0])
    if isinstance(v, Term):
        return Term("is_ok", v)
    return v.variant == "Ok"


@reg("std::result::Result::<T, E>::is_err")
def _res_is_err(m, a, c):
    v = deref(a[0])
    if isinstance(v, Term):
        return Term("not", Term("is_ok", v))
    return v.variant == "Err"


@reg("std::option::Option::<T>::map")
def _opt_map(m, a, c):
    v = deref(a[0])
    if isinstance(v, Term):
        return Term("opt_map", v, a[1])
    if v.variant == "Some":
        return some(m.call_value(a[1], [v.fields["0"]]))
    return NONE


@reg("std::option::Option::<T>::map_or")
def _opt_map_or(m, a, c):
    v = deref(a[0])
    if isinstance(v, Term):
        return Term("opt_map_or", v, a[1], a[2])
    if v.variant == "Some":
        return m.call_value(a[2], [v.fields["0"]])
    return a[1]


@reg("std::option::Option::<T>::map_or_else")
def _opt_map_or_else(m, a, c):
    v = deref(a[0])
    if isinstance(v, Term):
        return Term("opt_map_or_else", v, a[1], a[2])
    if v.variant == "Some":
        return m.call_value(a[2], [v.fields["0"]])
    return m.call_value(a[1], [])


@reg("core::slice::<impl [T]>::binary_search", "std::slice::<impl [T]>::binary_search")
def _slice_binary_search(m, a, c):
    # the standard library's algorithm on whatever order the slice is in (an unsorted slice gives what it gives)
    v = deref(a[0])
    x = deref(a[1])
    if is_sym(v) or not isinstance(v, PyVec):
        raise Unsupported("binary_search over %r" % (v,))
    size = len(v.items)
    if size == 0:
        return err(0)
    base = 0
    while size > 1:
        half = size // 2
        mid = base + half
        o = _cmp_vals(v.items[mid], x, m)
        if isinstance(o, Term):
            raise Unsupported("symbolic ordering in binary_search")
        if o.variant != "Greater":
            base = mid
        size -= half
    o = _cmp_vals(v.items[base], x, m)
    if isinstance(o, Term):
        raise Unsupported("symbolic ordering in binary_search")
    if o.variant == "Equal":
        return ok(base)
    return err(base + (1 if o.variant == "Less" else 0))


@reg("std::option::Option::<T>::and_then")
def _opt_and_then(m, a, c):
    v = deref(a[0])
    if isinstance(v, Term):
        return Term("opt_and_then", v, a[1])
    if v.variant == "Some":
        return m.call_value(a[1], [v.fields["0"]])
    return NONE


@reg("std::option::Option::<T>::or_else")
def _opt_or_else(m, a, c):
    v = deref(a[0])
    if isinstance(v, Term):
        return Term("opt_or_else", v, a[1])
    if v.variant == "Some":
        return v
    return m.call_value(a[1], [])


@reg("std::option::Option::<T>::zip")
def _opt_zip(m, a, c):
    x, y = deref(a[0]), deref(a[1])
    if isinstance(x, Term) or isinstance(y, Term):
        return Term("opt_zip", x, y)
    if x.variant == "Some" and y.variant == "Some":
        return some((x.fields["0"], y.fields["0"]))
    return NONE


@reg("std::option::Option::<T>::or")
def _opt_or(m, a, c):
    x = deref(a[0])
    if isinstance(x, Term):
        return Term("opt_or", x, a[1])
    return x if x.variant == "Some" else a[1]


@reg("std::option::Option::<T>::ok_or")
def _opt_ok_or(m, a, c):
    v = deref(a[0])
    if isinstance(v, Term):
        return Term("ok_or", v, a[1])
    return ok(v.fields["0"]) if v.variant == "Some" else err(a[1])


@reg("std::option::Option::<T>::ok_or_else")
def _opt_ok_or_else(m, a, c):
    v = deref(a[0])
    if isinstance(v, Term):
        return Term("ok_or", v, a[1])
    return ok(v.fields["0"]) if v.variant == "Some" else err(m.call_value(a[1], []))


@reg("std::option::Option::<T>::as_ref", "std::option::Option::<T>::as_mut",
     "std::option::Option::<&T>::copied", "std::option::Option::<&T>::cloned",
     "std::option::Option::<T>::as_deref", "std::option::Option::<T>::take")
def _opt_as_ref(m, a, c):
    v = deref(a[0])
    if c.get("def", "").endswith("::take") and not isinstance(a[0], Term):
        if isinstance(a[0], MutRef):
            old = a[0].get()
            a[0].set(NONE)
            return old
        raise Unsupported("Option::take")
    return v


@reg("std::result::Result::<T, E>::map_err")
def _res_map_err(m, a, c):
    v = deref(a[0])
    if isinstance(v, Term):
        return Term("map_err", v, a[1])
    if v.variant == "Err":
        return err(m.call_value(a[1], [v.fields["0"]]))
    return v


@reg("std::result::Result::<T, E>::map")
def _res_map(m, a, c):
    v = deref(a[0])
    if isinstance(v, Term):
        return Term("res_map", v, a[1])
    if v.variant == "Ok":
        return ok(m.call_value(a[1], [v.fields["0"]]))
    return v


@reg("std::result::Result::<T, E>::and_then")
def _res_and_then(m, a, c):
    v = deref(a[0])
    if isinstance(v, Term):
        return Term("res_and_then", v, a[1])
    if v.variant == "Ok":
        return m.call_value(a[1], [v.fields["0"]])
    return v


@reg("std::result::Result::<T, E>::ok")
def _res_ok(m, a, c):
    v = deref(a[0])
    if isinstance(v, Term):
        return Term("res_ok", v)
    return some(v.fields["0"]) if v.variant == "Ok" else NONE


# ---- references, smart pointers ------------------------------------------

def _identity(m, a, c):
    return deref(a[0]) if not isinstance(a[0], MutRef) else a[0]


for _t, _n in [("std::ops::Deref", "deref"), ("std::ops::DerefMut", "deref_mut"),
               ("std::convert::AsRef", "as_ref"), ("std::borrow::Borrow", "borrow"),
               ("std::borrow::ToOwned", "to_owned")]:
    TRAIT_TABLE[(_t, _n)] = _identity
    SEMANTIC_FIRST.add((_t, _n))

for _n in ["std::sync::Arc::<T>::new", "std::boxed::Box::<T>::new", "std::hint::must_use",
           "std::vec::Vec::<T, A>::as_slice", "std::vec::Vec::<T, A>::as_mut_slice",
           "std::mem::drop", "std::sync::Arc::<T, A>::as_ref"]:
    TABLE[_n] = _identity


@treg("std::clone::Clone", "clone", first=True)
def _clone(m, a, c):
    return dcopy(deref(a[0]))


@treg("std::convert::Into", "into")
def _into(m, a, c):
    v = deref(a[0])
    targs = c.get("targs") or []
    if len(targs) >= 2 and targs[0] == targs[1]:
        return v
    if isinstance(v, (int, bool)) and len(targs) >= 2 and targs[1] in INT_RANGES:
        return int(v)
    if isinstance(v, int) and len(targs) >= 2 and targs[1] == "char" and targs[0] == "u8":
        return chr(v)
    if len(targs) >= 2 and (targs[1].startswith("std::sync::Arc<") or targs[1].startswith("std::boxed::Box<")) \
            and targs[1].split("<", 1)[1][:-1] == targs[0]:
        return v
    if isinstance(v, Term):
        return Term("into", v, targs[1] if len(targs) > 1 else "?")
    if len(targs) >= 2 and targs[0].lstrip("&").startswith("bitcoin::") and targs[1].startswith("bitcoin::"):
        return v     # rust-bitcoin newtype conversions (hash -> PubkeyHash / ScriptHash ...) keep the value
    if len(targs) >= 2:
        # a crate-local `impl From<T> for U`
        from .tystr import type_head
        src, dst = type_head(targs[0]), type_head(targs[1])
        for imp in m.facts.impls_of(trait="std::convert::From", self_adt=dst):
            if src.split("::")[-1] in (imp.get("trait_str") or ""):
                for it in imp["items"]:
                    if it["name"] == "from" and it["path"] in m.facts.bodies:
                        return m.call_path(it["path"], [a[0]])
    return NOT_HANDLED


@treg("std::convert::From", "from")
def _from(m, a, c):
    v = deref(a[0])
    targs = c.get("targs") or []
    if len(targs) >= 2 and targs[0] == targs[1]:
        return v
    if isinstance(v, (int, bool)) and targs and targs[0] in INT_RANGES:
        return int(v)
    if isinstance(v, int) and len(targs) >= 2 and targs[0] == "char" and targs[1] == "u8":
        return chr(v)
    if isinstance(v, str) and len(v) == 1 and len(targs) >= 2 and targs[1] == "char" and targs[0] in INT_RANGES:
        return ord(v)
    if isinstance(v, Term) and targs and targs[0] in INT_RANGES:
        return Term("into", v, targs[0])
    return NOT_HANDLED


# ---- comparison ------------------------------------------------------------

def _cmp_vals(x, y, m=None):
    x, y = deref(x), deref(y)
    if isinstance(x, Term) or isinstance(y, Term):
        if x == y:
            return Adt(ORDERING, "Equal")
        return Term("cmp", x, y)
    if isinstance(x, bool):
        x, y = int(x), int(y)
    if isinstance(x, (int, str)) and not isinstance(y, float):
        return Adt(ORDERING, "Less" if x < y else ("Greater" if x > y else "Equal"))
    if isinstance(x, float) or isinstance(y, float):
        if x != x or y != y:
            raise Unsupported("comparison with NaN")
        return Adt(ORDERING, "Less" if x < y else ("Greater" if x > y else "Equal"))
    if isinstance(x, (tuple, PyVec)):
        xs = x.items if isinstance(x, PyVec) else x
        ys = y.items if isinstance(y, PyVec) else y
        for p, q in zip(xs, ys):
            r = _cmp_vals(p, q, m)
            if isinstance(r, Term) or r.variant != "Equal":
                return r
        if isinstance(x, PyVec) and len(xs) != len(ys):
            return Adt(ORDERING, "Less" if len(xs) < len(ys) else "Greater")
        return Adt(ORDERING, "Equal")
    if isinstance(x, Adt) and x.path.endswith("cmp::Reverse") and isinstance(y, Adt):
        r = _cmp_vals(x.fields["0"], y.fields["0"], m)
        if isinstance(r, Term):
            return r
        return Adt(ORDERING, {"Less": "Greater", "Greater": "Less", "Equal": "Equal"}[r.variant])
    if isinstance(x, Adt) and x.path == OPTION:
        kx = 0 if x.variant == "None" else 1
        ky = 0 if y.variant == "None" else 1
        if kx != ky:
            return Adt(ORDERING, "Less" if kx < ky else "Greater")
        return Adt(ORDERING, "Equal") if kx == 0 else _cmp_vals(x.fields["0"], y.fields["0"], m)
    m = m or _CUR_MACHINE[0]
    if isinstance(x, Adt) and m is not None and x.path in m.facts.adts:
        for imp in m.facts.impls_of(trait="std::cmp::Ord", self_adt=x.path):
            for it in imp["items"]:
                if it["name"] == "cmp" and it["path"] in m.facts.bodies:
                    return m.call_path(it["path"], [x, y])
        raise Unsupported("no Ord impl found for %s" % x.path)
    if isinstance(x, Adt):
        # foreign opaque value: order by structural repr (any fixed total order).  A path that looks like one of this
        # crate's modules but names no type of it is a mistake in the check that built the value, not a foreign type
        if m is not None and x.path.split("::")[0] in _CRATE_ROOTS and x.path not in m.facts.adts:
            raise Unsupported("ordering a value of unknown crate type %s" % x.path)
        rx, ry = repr(x), repr(y)
        return Adt(ORDERING, "Less" if rx < ry else ("Greater" if rx > ry else "Equal"))
    raise Unsupported("cmp of %r and %r" % (x, y))


_CRATE_ROOTS = ("policy", "miniscript", "descriptor", "plan", "psbt", "interpreter", "primitives", "util", "expression", "iter")


@treg("std::cmp::PartialEq", "eq")
def _eq(m, a, c):
    x, y = deref(a[0]), deref(a[1])
    if isinstance(x, Term) or isinstance(y, Term):
        if x == y:
            return True
        return Term("eq", x, y)
    if isinstance(x, Adt) and x.path in m.facts.adts:
        if c.get("resolved") in m.facts.bodies:
            return NOT_HANDLED
        for imp in m.facts.impls_of(trait="std::cmp::PartialEq", self_adt=x.path):
            for it in imp["items"]:
                if it["name"] == "eq" and it["path"] in m.facts.bodies:
                    return m.call_path(it["path"], [x, y])
        raise Unsupported("no PartialEq impl found for %s" % x.path)
    return x == y


@treg("std::cmp::PartialEq", "ne")
def _ne(m, a, c):
    x, y = deref(a[0]), deref(a[1])
    if isinstance(x, Term) or isinstance(y, Term):
        if x == y:
            return False
        return Term("ne", x, y)
    if isinstance(x, Adt) and x.path in m.facts.adts:
        for imp in m.facts.impls_of(trait="std::cmp::PartialEq", self_adt=x.path):
            for it in imp["items"]:
                if it["name"] == "eq" and it["path"] in m.facts.bodies:
                    r = m.call_path(it["path"], [x, y])
                    return Term("not", r) if isinstance(r, Term) else (not r)
        raise Unsupported("no PartialEq impl found for %s" % x.path)
    return x != y


@treg("std::cmp::Ord", "cmp")
def _ord_cmp(m, a, c):
    x = deref(a[0])
    if isinstance(x, Adt) and x.path in m.facts.adts:
        return NOT_HANDLED
    return _cmp_vals(a[0], a[1])


@treg("std::cmp::PartialOrd", "partial_cmp")
def _partial_cmp(m, a, c):
    x = deref(a[0])
    if isinstance(x, Adt) and x.path in m.facts.adts:
        return NOT_HANDLED
    y = deref(a[1])
    if isinstance(x, Adt) and isinstance(y, Adt) and x.path == y.path == "bitcoin::absolute::LockTime" and \
            isinstance(deref(x.fields.get("0")), int) and isinstance(deref(y.fields.get("0")), int):
        # rust-bitcoin: a block height and a UNIX time are not comparable (LOCK_TIME_THRESHOLD = 500_000_000)
        u, v = deref(x.fields["0"]), deref(y.fields["0"])
        if (u < 500000000) != (v < 500000000):
            return NONE
        return some(Adt(ORDERING, "Less" if u < v else ("Greater" if u > v else "Equal")))
    r = _cmp_vals(a[0], a[1])
    return Term("some", r) if isinstance(r, Term) else some(r)


def _rel(name, f):
    def h(m, a, c):
        x, y = deref(a[0]), deref(a[1])
        if isinstance(x, Term) or isinstance(y, Term):
            return Term(name, x, y)
        if isinstance(x, bool):
            x, y = int(x), int(y)
        if isinstance(x, Adt) and x.path in m.facts.adts:
            for imp in m.facts.impls_of(trait="std::cmp::PartialOrd", self_adt=x.path):
                for it in imp["items"]:
                    if it["name"] == "partial_cmp" and it["path"] in m.facts.bodies:
                        r = m.call_path(it["path"], [x, y])
                        if isinstance(r, Term):
                            return Term(name, x, y)
                        if r.variant == "None":
                            return False
                        o = {"Less": -1, "Equal": 0, "Greater": 1}[r.fields["0"].variant]
                        return f(o, 0)
            raise Unsupported("no PartialOrd impl found for %s" % x.path)
        if isinstance(x, Adt) and isinstance(y, Adt) and x.path == y.path and x.path not in m.facts.adts \
                and list(x.fields) == ["0"] and isinstance(x.fields["0"], int) and isinstance(y.fields["0"], int):
            return f(x.fields["0"], y.fields["0"])      # foreign integer newtype with derived ordering
        if not isinstance(x, (int, str, tuple)):
            return NOT_HANDLED
        return f(x, y)
    return h


TRAIT_TABLE[("std::cmp::PartialOrd", "lt")] = _rel("lt", lambda x, y: x < y)
TRAIT_TABLE[("std::cmp::PartialOrd", "le")] = _rel("le", lambda x, y: x <= y)
TRAIT_TABLE[("std::cmp::PartialOrd", "gt")] = _rel("gt", lambda x, y: x > y)
TRAIT_TABLE[("std::cmp::PartialOrd", "ge")] = _rel("ge", lambda x, y: x >= y)


@reg("std::sync::Arc::<T, A>::try_unwrap")
def _arc_try_unwrap(m, a, c):
    return ok(deref(a[0]))


@reg("std::sync::Arc::<T, A>::unwrap_or_clone", "std::sync::Arc::<T, A>::into_inner")
def _arc_unwrap_or_clone(m, a, c):
    return deref(a[0])


@reg("std::cmp::max")
def _max(m, a, c):
    x, y = deref(a[0]), deref(a[1])
    if isinstance(x, Term) or isinstance(y, Term):
        return Term("max", x, y)
    if is_opt(x) or is_opt(y):
        # Option<T: Ord>: None < Some
        kx = (0,) if x.variant == "None" else (1, x.fields["0"])
        ky = (0,) if y.variant == "None" else (1, y.fields["0"])
        return y if ky >= kx else x
    return y if y >= x else x


@reg("std::cmp::min")
def _min(m, a, c):
    x, y = deref(a[0]), deref(a[1])
    if isinstance(x, Term) or isinstance(y, Term):
        return Term("min", x, y)
    if is_opt(x) or is_opt(y):
        kx = (0,) if x.variant == "None" else (1, x.fields["0"])
        ky = (0,) if y.variant == "None" else (1, y.fields["0"])
        return x if kx <= ky else y
    return x if x <= y else y


@treg("std::cmp::Ord", "max")
def _ord_max(m, a, c):
    return _max(m, a, c)


@treg("std::cmp::Ord", "min")
def _ord_min(m, a, c):
    return _min(m, a, c)


@reg("std::cmp::Ordering::then", "std::cmp::Ordering::then_with")
def _then(m, a, c):
    x = deref(a[0])
    if isinstance(x, Term):
        return Term("ord_then", x, a[1])
    if x.variant != "Equal":
        return x
    if c.get("def", "").endswith("then_with"):
        return m.call_value(a[1], [])
    return a[1]


@reg("std::cmp::Ordering::is_eq")
def _is_eq(m, a, c):
    x = deref(a[0])
    if isinstance(x, Term):
        return Term("ord_is_eq", x)
    return x.variant == "Equal"


@reg("std::intrinsics::discriminant_value")
def _discr(m, a, c):
    v = deref(a[0])
    if isinstance(v, Term):
        return Term("discr", v)
    if isinstance(v, Adt):
        adt = m.facts.adts.get(v.path)
        if adt:
            for var in adt["variants"]:
                if var["name"] == v.variant:
                    return var["index"]
        if v.path == OPTION:
            return 0 if v.variant == "None" else 1
        if v.path == RESULT:
            return 0 if v.variant == "Ok" else 1
    raise Unsupported("discriminant of %r" % (v,))


# ---- integers --------------------------------------------------------------

def _int_method(name):
    def h(m, a, c):
        x = deref(a[0])
        y = deref(a[1]) if len(a) > 1 else None
        tys = c.get("self_ty") or ""
        if isinstance(x, Term) or isinstance(y, Term):
            return Term(name, x, y)
        lo, hi = INT_RANGES.get(tys, (0, 2**64 - 1))
        if name == "checked_add":
            v = x + y
            return some(v) if lo <= v <= hi else NONE
        if name == "checked_sub":
            v = x - y
            return some(v) if lo <= v <= hi else NONE
        if name == "checked_mul":
            v = x * y
            return some(v) if lo <= v <= hi else NONE
        if name == "saturating_sub":
            return max(lo, x - y)
        if name == "saturating_add":
            return min(hi, x + y)
        if name == "wrapping_add":
            return (x + y - lo) % (hi - lo + 1) + lo
        if name == "wrapping_sub":
            return (x - y - lo) % (hi - lo + 1) + lo
        if name == "pow":
            v = x ** y
            if not lo <= v <= hi:
                raise Panic("overflow in pow")
            return v
        if name == "abs":
            return abs(x)
        if name == "leading_zeros":
            bits = (hi - lo + 1).bit_length() - 1
            return bits - x.bit_length()
        if name == "is_power_of_two":
            return x > 0 and x & (x - 1) == 0
        raise Unsupported("int method %s" % name)
    return h


for _ty in INT_RANGES:
    for _nm in ["checked_add", "checked_sub", "checked_mul", "saturating_sub", "saturating_add",
                "wrapping_add", "wrapping_sub", "pow", "abs", "leading_zeros", "is_power_of_two"]:
        TABLE["core::num::<impl %s>::%s" % (_ty, _nm)] = _int_method(_nm)


# ---- Vec / slices ------------------------------------------------------------

@reg("std::vec::Vec::<T>::new", "std::collections::VecDeque::<T>::new", "std::vec::Vec::<T>::with_capacity")
def _vec_new(m, a, c):
    if m.vec_seed is not None and m.cur_call_ty is not None:
        seed = m.vec_seed(m.facts.ty(m.cur_call_ty))
        if seed is not None:
            return PyVec(seed)
    v = PyVec()
    if c.get("name") == "with_capacity" and isinstance(deref(a[0]), int):
        if deref(a[0]) > MAX_MODEL_ALLOC:
            # the real call reserves the memory at once: gigabytes for element counts like these (abort on failure)
            raise Panic("allocation of %d elements requested at once (Vec::with_capacity)" % deref(a[0]))
        CAPACITY[id(v)] = (v, deref(a[0]))
    return v


MAX_MODEL_ALLOC = 1 << 20      # elements; nothing in the library legitimately pre-allocates more than a script's worth

# requested capacities (model: with_capacity allocates exactly what was asked for, and the buffer
# grows only when the length exceeds it); keyed by object identity, the value keeps the vec alive
CAPACITY = {}


@reg("std::vec::Vec::<T, A>::capacity")
def _vec_capacity(m, a, c):
    v = deref(a[0])
    if not isinstance(v, PyVec):
        raise Unsupported("capacity of %r" % (v,))
    ent = CAPACITY.get(id(v))
    req = ent[1] if ent and ent[0] is v else 0
    if len(v.items) <= req:
        return req
    raise Unsupported("capacity after growth is unspecified")


@reg("std::vec::Vec::<T, A>::push", "std::collections::VecDeque::<T, A>::push_back")
def _vec_push(m, a, c):
    v = deref(a[0])
    if not isinstance(v, PyVec):
        raise Unsupported("push on %r" % (v,))
    v.items.append(a[1])
    return ()


@reg("std::slice::<impl [T]>::to_vec", "alloc::slice::<impl [T]>::to_vec")
def _slice_to_vec(m, a, c):
    v = deref(a[0])
    if isinstance(v, PyVec):
        return PyVec(list(v.items))
    return v          # an opaque byte token: its owned copy is the same token


@reg("std::vec::Vec::<T, A>::dedup")
def _vec_dedup(m, a, c):
    v = deref(a[0])
    out = []
    for x in v.items:
        if out:
            e = _eq(m, [out[-1], x], {})
            if isinstance(e, Term):
                raise Unsupported("dedup of symbolic values")
            if e:
                continue
        out.append(x)
    v.items[:] = out
    return ()


@reg("std::collections::BinaryHeap::<T>::new", "std::collections::BinaryHeap::<T, A>::new")
def _heap_new(m, a, c):
    return PyVec([])


@reg("std::collections::BinaryHeap::<T, A>::push", "std::collections::BinaryHeap::<T>::push")
def _heap_push(m, a, c):
    deref(a[0]).items.append(a[1])
    return ()


@reg("std::collections::BinaryHeap::<T, A>::pop", "std::collections::BinaryHeap::<T>::pop")
def _heap_pop(m, a, c):
    """the greatest element by the element type's own Ord (which of several equal ones is unspecified: the first)"""
    v = deref(a[0])
    if not v.items:
        return NONE
    best = 0
    for i in range(1, len(v.items)):
        o = _cmp_vals(v.items[i], v.items[best], m)
        if isinstance(o, Term):
            raise Unsupported("heap of symbolic values")
        if o.variant == "Greater":
            best = i
    return some(v.items.pop(best))


@reg("std::collections::BinaryHeap::<T, A>::len", "std::collections::BinaryHeap::<T>::len")
def _heap_len(m, a, c):
    return len(deref(a[0]).items)


@reg("std::collections::BinaryHeap::<T, A>::is_empty", "std::collections::BinaryHeap::<T>::is_empty")
def _heap_is_empty(m, a, c):
    return not deref(a[0]).items


@reg("std::collections::VecDeque::<T, A>::pop_front")
def _deque_pop_front(m, a, c):
    v = deref(a[0])
    if not isinstance(v, PyVec):
        raise Unsupported("pop_front on %r" % (v,))
    if not v.items:
        return NONE
    return some(v.items.pop(0))


@reg("std::collections::VecDeque::<T, A>::push_front")
def _deque_push_front(m, a, c):
    v = deref(a[0])
    if not isinstance(v, PyVec):
        raise Unsupported("push_front on %r" % (v,))
    v.items.insert(0, a[1])
    return ()


@reg("std::vec::Vec::<T, A>::pop", "std::collections::VecDeque::<T, A>::pop_back")
def _vec_pop(m, a, c):
    v = deref(a[0])
    if not isinstance(v, PyVec):
        raise Unsupported("pop on %r" % (v,))
    if not v.items:
        return NONE
    return some(v.items.pop())


@reg("std::vec::Vec::<T, A>::len", "core::slice::<impl [T]>::len", "std::collections::VecDeque::<T, A>::len")
def _vec_len(m, a, c):
    v = deref(a[0])
    if isinstance(v, Term):
        return Term("len", v)
    if hasattr(v, "length") and isinstance(getattr(v, "length"), int):
        return v.length          # opaque byte-string token of a harness
    return len(items_of(v))


@reg("std::vec::Vec::<T, A>::split_off")
def _vec_split_off(m, a, c):
    v, at = deref(a[0]), deref(a[1])
    if not isinstance(v, PyVec) or not isinstance(at, int):
        raise Unsupported("split_off(%r, %r)" % (v, at))
    if at > len(v.items):
        raise Panic("split_off: at > len")
    tail = v.items[at:]
    del v.items[at:]
    return PyVec(tail)


@reg("std::vec::Vec::<T, A>::is_empty", "core::slice::<impl [T]>::is_empty", "std::collections::VecDeque::<T, A>::is_empty")
def _vec_is_empty(m, a, c):
    v = deref(a[0])
    if isinstance(v, Term):
        return Term("is_empty", v)
    if hasattr(v, "length") and isinstance(getattr(v, "length"), int):
        return v.length == 0
    return len(items_of(v)) == 0


@reg("std::vec::Vec::<T, A>::extend", "<std::vec::Vec<T, A> as std::iter::Extend<T>>::extend",
     "<std::vec::Vec<T, A> as std::iter::Extend<&'a T>>::extend")
def _vec_extend(m, a, c):
    v = deref(a[0])
    v.items.extend(items_of(a[1]))
    return ()


@reg("std::vec::Vec::<T, A>::drain")
def _vec_drain(m, a, c):
    v = deref(a[0])
    r = deref(a[1])
    n = len(v.items)
    if not isinstance(r, Adt):
        raise Unsupported("drain range %r" % (r,))
    lo = r.fields.get("start", 0)
    hi = r.fields.get("end", n)
    if is_sym(lo) or is_sym(hi):
        raise Unsupported("drain with symbolic range")
    if r.path.endswith("RangeInclusive"):
        hi += 1
    if lo > hi or hi > n:
        raise Panic("drain range out of bounds")
    out = v.items[lo:hi]
    del v.items[lo:hi]
    return PyIter(out)


@reg("std::vec::Vec::<T, A>::insert")
def _vec_insert(m, a, c):
    v = deref(a[0])
    v.items.insert(a[1], a[2])
    return ()


@reg("std::vec::Vec::<T, A>::truncate")
def _vec_truncate(m, a, c):
    v = deref(a[0])
    del v.items[a[1]:]
    return ()


@reg("std::vec::Vec::<T, A>::reverse", "core::slice::<impl [T]>::reverse")
def _vec_reverse(m, a, c):
    v = deref(a[0])
    v.items.reverse()
    return ()


@reg("std::vec::from_elem")
def _from_elem(m, a, c):
    n = a[1]
    if is_sym(n):
        return Term("repeat", a[0], n)
    return PyVec([dcopy(a[0]) for _ in range(n)])


@reg("std::slice::<impl [T]>::into_vec", "std::boxed::box_assume_init_into_vec_unsafe")
def _into_vec(m, a, c):
    return deref(a[0])


@reg("alloc::intrinsics::write_box_via_move")
def _write_box(m, a, c):
    return a[1]


@reg("std::boxed::Box::<T>::new_uninit")
def _new_uninit(m, a, c):
    return ()


@reg("std::slice::from_ref", "core::slice::from_ref")
def _slice_from_ref(m, a, c):
    return PyVec([a[0]])


@reg("core::slice::<impl [T]>::last")
def _last(m, a, c):
    v = deref(a[0])
    if isinstance(v, Term):
        return Term("last", v)
    it = items_of(v)
    return some(it[-1]) if it else NONE


@reg("core::slice::<impl [T]>::first")
def _first(m, a, c):
    v = deref(a[0])
    if isinstance(v, Term):
        return Term("first", v)
    it = items_of(v)
    return some(it[0]) if it else NONE


@reg("core::slice::<impl [T]>::get")
def _get(m, a, c):
    v = deref(a[0])
    i = deref(a[1])
    if isinstance(v, Term) or isinstance(i, Term):
        return Term("get", v, i)
    it = items_of(v)
    return some(it[i]) if 0 <= i < len(it) else NONE


@reg("core::slice::<impl [T]>::get_mut")
def _get_mut(m, a, c):
    v = deref(a[0])
    i = deref(a[1])
    if isinstance(v, Term) or isinstance(i, Term):
        raise Unsupported("get_mut on symbolic values")
    if not (isinstance(i, int) and 0 <= i < len(v.items)):
        return NONE
    x = v.items[i]
    if isinstance(x, (Adt, PyVec)) or type(x).__name__ in ("PyMap", "PySet"):
        return some(x)          # mutable containers are shared by reference
    return some(MutRef(lambda: v.items[i], lambda y: v.items.__setitem__(i, y)))


@reg("core::slice::<impl [T]>::last_mut", "core::slice::<impl [T]>::first_mut")
def _last_mut(m, a, c):
    v = deref(a[0])
    if not isinstance(v, PyVec):
        raise Unsupported("last_mut on %r" % (v,))
    if not v.items:
        return NONE
    i = len(v.items) - 1 if c.get("name") == "last_mut" else 0
    return some(MutRef(lambda: v.items[i], lambda x: v.items.__setitem__(i, x)))


@reg("core::slice::<impl [T]>::windows", "std::slice::<impl [T]>::windows")
def _slice_windows(m, a, c):
    v = deref(a[0])
    n = deref(a[1])
    if is_sym(v) or is_sym(n) or not isinstance(v, PyVec):
        raise Unsupported("windows over %r" % (v,))
    if n == 0:
        raise Panic("window size must be non-zero")
    return PyIter([PyVec(v.items[i:i + n]) for i in range(0, len(v.items) - n + 1)])


@reg("core::slice::<impl [T]>::iter", "core::slice::<impl [T]>::iter_mut")
def _slice_iter(m, a, c):
    v = deref(a[0])
    if isinstance(v, Term):
        return Term("iter", v)
    if c.get("name") == "iter_mut" and isinstance(v, PyVec):
        return _elem_refs(v)
    return PyIter(items_of(v))


@treg("std::ops::Index", "index")
def _index(m, a, c):
    v, i = deref(a[0]), deref(a[1])
    if isinstance(v, Term) or isinstance(i, Term):
        return Term("index", v, i)
    if isinstance(v, (PyVec, list)):
        it = items_of(v)
        if isinstance(i, int):
            if not 0 <= i < len(it):
                raise Panic("index out of bounds: %d of %d" % (i, len(it)))
            return it[i]
        if isinstance(i, Adt) and i.path.startswith("std::ops::Range"):
            lo = i.fields.get("start", 0)
            hi = i.fields.get("end", len(it))
            if i.path.endswith("RangeInclusive"):
                hi += 1
            if lo > hi or hi > len(it):
                raise Panic("slice index out of range")
            return PyVec(it[lo:hi])
    if hasattr(v, "kind") and hasattr(v, "extra") and isinstance(i, int) and getattr(m, "tok_index", None):
        return m.tok_index(v, i)
    if isinstance(v, str) and isinstance(i, Adt) and i.path.startswith("std::ops::Range"):
        b = v.encode("utf-8")
        lo = i.fields.get("start", 0)
        hi = i.fields.get("end", len(b))
        if i.path.endswith("RangeInclusive") or i.path.endswith("RangeToInclusive"):
            hi += 1
        if lo > hi or hi > len(b):
            raise Panic("str slice index out of range")
        for x in (lo, hi):
            if x < len(b) and (b[x] & 0xC0) == 0x80:
                raise Panic("str slice index not on a char boundary")
        return b[lo:hi].decode("utf-8")
    return NOT_HANDLED


TRAIT_TABLE[("std::ops::IndexMut", "index_mut")] = _index


# ---- iterators ---------------------------------------------------------------

def _elem_refs(v):
    def mk(i):
        return MutRef(lambda: v.items[i], lambda x: v.items.__setitem__(i, x))
    return PyIter([mk(i) for i in range(len(v.items))])


@treg("std::iter::IntoIterator", "into_iter", first=True)
def _into_iter(m, a, c):
    v = deref(a[0])
    if isinstance(v, PyIter):
        return v
    targs = c.get("targs") or []
    if isinstance(v, PyVec) and targs and targs[0].startswith("&mut "):
        return _elem_refs(v)
    if isinstance(v, Term):
        return Term("iter", v)
    if isinstance(v, Adt) and v.path in m.facts.adts and not m.facts.impls_of(trait="std::iter::Iterator", self_adt=v.path):
        # a crate type that is not itself an iterator: its own IntoIterator impl (by value; the impls for references
        # are separate items and are selected by the receiver's type in the call's type arguments)
        st = (targs[0] if targs else "") or (c.get("self_ty") or "")
        cands = []
        for imp in m.facts.impls_of(trait="std::iter::IntoIterator", self_adt=v.path):
            ity = imp.get("self_ty") or ""
            if ity.startswith("&") != st.startswith("&"):
                continue
            for it in imp["items"]:
                if it["name"] == "into_iter" and it["path"] in m.facts.bodies:
                    cands.append(it["path"])
        if len(cands) == 1:
            return m.call_path(cands[0], [a[0]])
    return PyIter(items_of(v))


@treg("std::iter::Iterator", "next", first=True)
def _next(m, a, c):
    it = deref(a[0])
    if isinstance(it, Term):
        raise Unsupported("next() on symbolic iterator %r" % (it,))
    if isinstance(it, Adt) and it.path in ("std::ops::RangeInclusive", "std::ops::Range"):
        return _range_step(it, back=False)
    if not isinstance(it, PyIter):
        return NOT_HANDLED
    if isinstance(it, LazyIter):
        if it.pos >= it.total():
            return NONE
        v = it.get(it.pos)
        it.pos += 1
        return some(v)
    if it.pos >= len(it.items):
        return NONE
    v = it.items[it.pos]
    it.pos += 1
    return some(v)


class _Pull(object):
    """list-like view of a LazyIter for consumers that only iterate (and may stop early)"""
    def __init__(self, it):
        self.it = it

    def __iter__(self):
        return self.it.pull()

    def __len__(self):
        return self.it.total() - self.it.pos

    def __bool__(self):
        return len(self) > 0

    def __getitem__(self, k):
        return list(self.it.rest())[k]

    def __add__(self, other):
        return list(self.it.rest()) + list(other)


def _iter_adapt(name):
    def h(m, a, c):
        it = deref(a[0])
        if isinstance(it, Term):
            return Term("it_" + name, *a)
        if not isinstance(it, (PyIter, PyVec, Adt)):
            return NOT_HANDLED
        if name == "map":
            f_ = a[1]
            if isinstance(it, LazyIter):
                src = it if it.pos == 0 else list(it.pull())
            else:
                src = list(items_of(it))
            return LazyIter(src, lambda x: m.call_value(f_, [x]))
        if isinstance(it, Adt) and it.path == "std::ops::RangeFrom":
            # an unbounded counter: only meaningful zipped with (or cut to) something finite
            lo = it.fields.get("start")
            if name == "zip" and not is_sym(lo):
                other = list(items_of(a[1]))
                return PyIter([(lo + i, x) for i, x in enumerate(other)])
            if name == "take" and not is_sym(lo) and not is_sym(deref(a[1])):
                return PyIter(list(range(lo, lo + deref(a[1]))))
            raise Unsupported("iteration over the unbounded range %r.." % (lo,))
        if isinstance(it, LazyIter) and name in ("all", "any", "find", "position", "try_fold", "try_for_each", "sum", "collect",
                                                  "take_while", "find_map"):
            xs = _Pull(it)       # pulled one at a time: what the consumer does not reach is not evaluated
        else:
            xs = items_of(it)
        if name == "enumerate":
            return PyIter([(i, x) for i, x in enumerate(xs)])
        if name == "rev":
            return PyIter(list(reversed(xs)))
        if name == "map":
            return PyIter([m.call_value(a[1], [x]) for x in xs])
        if name == "filter":
            out = []
            for x in xs:
                r = m.call_value(a[1], [x])
                if isinstance(r, Term):
                    r = m.decide(r)
                if r:
                    out.append(x)
            return PyIter(out)
        if name == "flat_map":
            out = []
            for x in xs:
                out.extend(items_of(m.call_value(a[1], [x])))
            return PyIter(out)
        if name == "find_map":
            for x in xs:
                r = deref(m.call_value(a[1], [x]))
                if isinstance(r, Term):
                    raise Unsupported("find_map with symbolic result")
                if r.variant == "Some":
                    return r
            return NONE
        if name == "filter_map":
            out = []
            for x in xs:
                r = m.call_value(a[1], [x])
                if isinstance(r, Term):
                    raise Unsupported("filter_map with symbolic result")
                if r.variant == "Some":
                    out.append(r.fields["0"])
            return PyIter(out)
        if name in ("cloned", "copied", "by_ref", "peekable", "fuse"):
            return PyIter([dcopy(x) for x in xs]) if name != "by_ref" else it
        if name == "chain":
            return PyIter(xs + items_of(a[1]))
        if name == "zip":
            ys = items_of(a[1])
            return PyIter([(x, y) for x, y in zip(xs, ys)])
        if name in ("take_while", "skip_while"):
            k = 0
            for x in xs:
                r = m.call_value(a[1], [x])
                if isinstance(r, Term):
                    r = m.decide(r)
                if not r:
                    break
                k += 1
            return PyIter(xs[:k] if name == "take_while" else xs[k:])
        if name == "skip":
            return PyIter(xs[a[1]:])
        if name == "take":
            return PyIter(xs[:a[1]])
        if name == "collect":
            target = m.facts.ty(m.cur_call_ty) if m.cur_call_ty is not None else ""
            targs = c.get("targs") or []
            if len(targs) >= 2:
                target = targs[1]
            if target in ("std::string::String", "alloc::string::String") and all(isinstance(deref(x), str) for x in xs):
                return "".join(deref(x) for x in xs)
            if target.startswith("std::collections::BTreeSet<") or target.startswith("std::collections::HashSet<"):
                return PySet(xs)
            if target.startswith("std::collections::BTreeMap<") or target.startswith("std::collections::HashMap<"):
                mp = PyMap()
                for kv in xs:
                    _map_insert(m, [mp, kv[0], kv[1]], c)
                return mp
            if target.startswith("std::result::Result<") or target.startswith("std::option::Option<"):
                isres = target.startswith("std::result::Result<")
                out = []
                for x in xs:
                    x = deref(x)
                    if isinstance(x, Term):
                        if m.decide(Term("is_ok" if isres else "is_some", x)):
                            out.append(Term("unwrap", x))
                        else:
                            return err(Term("err_of", x)) if isres else NONE
                    elif x.variant in ("Ok", "Some"):
                        out.append(x.fields["0"])
                    else:
                        return x
                return ok(PyVec(out)) if isres else some(PyVec(out))
            return PyVec(xs)
        if name == "count":
            return len(xs)
        if name == "sum":
            first = None
            acc = []
            for x in xs:
                xd = deref(x)
                if isinstance(xd, Adt) and xd.path in (OPTION, RESULT):
                    # Sum for Option<T> / Result<T, E>: stops at the first None / Err
                    first = xd.path
                    if xd.variant in ("None", "Err"):
                        return xd
                    acc.append(xd.fields["0"])
                else:
                    acc.append(x)
            xs = acc
            s = 0
            for x in xs:
                s = m.binop("Add", s, x, "usize") if not (is_sym(s) or is_sym(x)) else Term("add", s, x)
            if first is not None:
                return some(s) if first == OPTION else ok(s)
            return s
        if name == "all":
            for x in xs:
                r = m.call_value(a[1], [x])
                if isinstance(r, Term):
                    r = m.decide(r)
                if not r:
                    return False
            return True
        if name == "any":
            for x in xs:
                r = m.call_value(a[1], [x])
                if isinstance(r, Term):
                    r = m.decide(r)
                if r:
                    return True
            return False
        if name == "fold":
            acc = a[1]
            for x in xs:
                acc = m.call_value(a[2], [acc, x])
            return acc
        if name == "try_fold":
            acc = a[1]
            target = m.facts.ty(m.cur_call_ty) if m.cur_call_ty is not None else ""
            isopt = target.startswith("std::option::Option")
            for x in xs:
                r = deref(m.call_value(a[2], [acc, x]))
                if is_sym(r):
                    raise Unsupported("try_fold with symbolic step result")
                if r.variant in ("None", "Err"):
                    return r
                acc = r.fields["0"]
                isopt = r.path == OPTION
            return some(acc) if isopt else ok(acc)
        if name == "for_each":
            for x in xs:
                m.call_value(a[1], [x])
            return ()
        if name == "try_for_each":
            for x in xs:
                r = deref(m.call_value(a[1], [x]))
                if is_sym(r):
                    raise Unsupported("try_for_each with symbolic step result")
                if r.variant in ("None", "Err"):
                    return r
            target = m.facts.ty(m.cur_call_ty) if m.cur_call_ty is not None else ""
            return some(()) if target.startswith("std::option::Option") else ok(())
        if name == "max":
            if not xs:
                return NONE
            best = xs[0]
            for x in xs[1:]:
                best = _max(m, [best, x], c)
            return some(best)
        if name == "min":
            if not xs:
                return NONE
            best = xs[0]
            for x in xs[1:]:
                best = _min(m, [best, x], c)
            return some(best)
        if name in ("max_by_key", "min_by_key"):
            if not xs:
                return NONE
            best, bk = None, None
            for x in xs:
                kx = m.call_value(a[1], [x])
                if is_sym(kx):
                    raise Unsupported("%s with symbolic key" % name)
                # Rust: max_by_key returns the last maximum, min_by_key the first minimum
                if bk is not None:
                    o = _cmp_vals(kx, bk, m)
                    if isinstance(o, Term):
                        raise Unsupported("%s with symbolic key order" % name)
                    o = o.variant
                if bk is None or (name == "max_by_key" and o != "Less") or (name == "min_by_key" and o == "Less"):
                    best, bk = x, kx
            return some(best)
        if name == "last":
            return some(xs[-1]) if xs else NONE
        if name in ("cmp", "partial_cmp", "eq", "ne"):
            ys = items_of(a[1])
            if name in ("eq", "ne"):
                same = len(xs) == len(ys)
                if same:
                    for x, y in zip(xs, ys):
                        r = _eq(m, [x, y], c)
                        if isinstance(r, Term):
                            r = m.decide(r)
                        if not r:
                            same = False
                            break
                return same if name == "eq" else not same
            r = _cmp_vals(PyVec(list(xs)), PyVec(list(ys)), m)
            if name == "partial_cmp":
                return Term("some", r) if isinstance(r, Term) else some(r)
            return r
        if name == "unzip":
            return (PyVec([x[0] for x in xs]), PyVec([x[1] for x in xs]))
        if name == "position":
            for i, x in enumerate(xs):
                r = m.call_value(a[1], [x])
                if isinstance(r, Term):
                    r = m.decide(r)
                if r:
                    return some(i)
            return NONE
        if name == "find":
            for x in xs:
                r = m.call_value(a[1], [x])
                if isinstance(r, Term):
                    r = m.decide(r)
                if r:
                    return some(x)
            return NONE
        if name == "nth":
            k = deref(a[1])
            if is_sym(k):
                raise Unsupported("nth with symbolic index")
            if isinstance(it, PyIter) and not isinstance(it, LazyIter):
                # consumes the first k + 1 items of the underlying iterator
                got = some(xs[k]) if k < len(xs) else NONE
                it.pos = min(len(it.items), it.pos + k + 1)
                return got
            return some(xs[k]) if k < len(xs) else NONE
        if name == "step_by":
            k = deref(a[1])
            if is_sym(k):
                raise Unsupported("step_by with symbolic step")
            if k == 0:
                raise Panic("assertion failed: step != 0")
            return PyIter(list(xs)[::k])
        if name in ("min_by", "max_by"):
            if not xs:
                return NONE
            best = xs[0]
            for x in xs[1:]:
                o = deref(m.call_value(a[1], [best, x]))
                if isinstance(o, Term):
                    raise Unsupported("%s with symbolic order" % name)
                # Rust: max_by keeps the last of equal maxima, min_by the first of equal minima
                if (name == "max_by" and o.variant != "Greater") or (name == "min_by" and o.variant == "Greater"):
                    best = x
            return some(best)
        if name == "flatten":
            out = []
            for x in xs:
                out.extend(items_of(x))
            return PyIter(out)
        if name == "inspect":
            for x in xs:
                m.call_value(a[1], [x])
            return PyIter(list(xs))
        if name == "product":
            s = 1
            for x in xs:
                s = m.binop("Mul", s, x, "usize") if not (is_sym(s) or is_sym(x)) else Term("mul", s, x)
            return s
        if name == "partition":
            yes, no = [], []
            for x in xs:
                r = m.call_value(a[1], [x])
                if isinstance(r, Term):
                    r = m.decide(r)
                (yes if r else no).append(x)
            return (PyVec(yes), PyVec(no))
        if name == "rposition":
            for i in range(len(xs) - 1, -1, -1):
                r = m.call_value(a[1], [xs[i]])
                if isinstance(r, Term):
                    r = m.decide(r)
                if r:
                    return some(i)
            return NONE
        if name == "reduce":
            if not xs:
                return NONE
            acc = xs[0]
            for x in xs[1:]:
                acc = m.call_value(a[1], [acc, x])
            return some(acc)
        if name == "map_while":
            out = []
            for x in xs:
                r = deref(m.call_value(a[1], [x]))
                if is_sym(r):
                    raise Unsupported("map_while with symbolic result")
                if r.variant == "None":
                    break
                out.append(r.fields["0"])
            return PyIter(out)
        if name in ("lt", "le", "gt", "ge"):
            r = _cmp_vals(PyVec(list(xs)), PyVec(list(items_of(a[1]))), m)
            if isinstance(r, Term):
                raise Unsupported("symbolic iterator comparison")
            return {"lt": r.variant == "Less", "le": r.variant != "Greater", "gt": r.variant == "Greater", "ge": r.variant != "Less"}[name]
        if name == "is_sorted":
            for x, y in zip(xs, xs[1:]):
                o = _cmp_vals(x, y, m)
                if isinstance(o, Term):
                    raise Unsupported("symbolic ordering in is_sorted")
                if o.variant == "Greater":
                    return False
            return True
        raise Unsupported("iterator adaptor %s" % name)
    return h


for _nm in ["enumerate", "rev", "map", "filter", "flat_map", "find_map", "filter_map", "cloned", "copied", "chain", "zip",
            "skip", "take", "take_while", "skip_while", "collect", "count", "sum", "all", "any", "fold", "for_each", "max", "min",
            "last", "unzip", "position", "find", "cmp", "partial_cmp", "eq", "ne", "by_ref", "peekable", "fuse", "max_by_key", "min_by_key", "try_fold", "try_for_each",
            "nth", "step_by", "min_by", "max_by", "flatten", "inspect", "product", "partition", "reduce", "map_while", "lt", "le", "gt", "ge",
            "is_sorted"]:
    TRAIT_TABLE[("std::iter::Iterator", _nm)] = _iter_adapt(_nm)
    SEMANTIC_FIRST.add(("std::iter::Iterator", _nm))
TRAIT_TABLE[("std::iter::DoubleEndedIterator", "rev")] = _iter_adapt("rev")
TRAIT_TABLE[("std::iter::DoubleEndedIterator", "rposition")] = _iter_adapt("rposition")
TRAIT_TABLE[("std::iter::Iterator", "rposition")] = _iter_adapt("rposition")


@treg("std::iter::ExactSizeIterator", "len", first=True)
def _esi_len(m, a, c):
    it = deref(a[0])
    if isinstance(it, Term):
        return Term("len", it)
    return len(items_of(it))


@reg("std::iter::once")
def _once(m, a, c):
    return PyIter([a[0]])


@reg("std::iter::empty")
def _empty(m, a, c):
    return PyIter([])


@reg("std::iter::repeat")
def _repeat(m, a, c):
    raise Unsupported("iter::repeat")


@reg("std::ops::RangeInclusive::<Idx>::new")
def _range_incl(m, a, c):
    return Adt("std::ops::RangeInclusive", "RangeInclusive", {"start": a[0], "end": a[1]})


# ---- closures ----------------------------------------------------------------

for _t in ["std::ops::Fn", "std::ops::FnMut", "std::ops::FnOnce"]:
    for _n in ["call", "call_mut", "call_once"]:
        def _callcl(m, a, c):
            f = deref(a[0])
            args = a[1]
            if not isinstance(args, tuple):
                args = (args,)
            return m.call_value(f, list(args))
        TRAIT_TABLE[(_t, _n)] = _callcl
        SEMANTIC_FIRST.add((_t, _n))


# ---- panics ------------------------------------------------------------------

@reg("core::panicking::panic", "core::panicking::panic_fmt", "core::panicking::assert_failed",
     "core::panicking::panic_explicit", "std::rt::panic_fmt", "core::panicking::unreachable_display",
     "std::intrinsics::unreachable", "core::panicking::panic_nounwind")
def _panic(m, a, c):
    raise Panic("explicit panic (%s)" % c.get("def"))


# formatting machinery: opaque
for _n in ["std::fmt::Arguments::<'a>::new", "core::fmt::rt::Argument::<'_>::new_display",
           "core::fmt::rt::Argument::<'_>::new_debug", "std::fmt::Arguments::<'a>::from_str",
           "std::fmt::Arguments::<'a>::from_str_nonconst", "std::fmt::format"]:
    TABLE[_n] = lambda m, a, c: Term("fmt")


@reg("bitcoin::VarInt::size")
def _varint_size(m, a, c):
    v = deref(a[0])
    n = v.fields["0"] if isinstance(v, Adt) else v
    if is_sym(n):
        return Term("varint_len", n)
    return 1 if n < 0xfd else (3 if n <= 0xffff else (5 if n <= 0xffffffff else 9))


def _sort_key(v):
    if isinstance(v, bool):
        return int(v)
    if isinstance(v, tuple):
        return tuple(_sort_key(x) for x in v)
    if isinstance(v, PyVec):
        # arrays / vectors order lexicographically (a proper prefix first), as Python tuples do
        return tuple(_sort_key(deref(x)) for x in v.items)
    if isinstance(v, Adt) and v.path == OPTION:
        return (0,) if v.variant == "None" else (1, _sort_key(v.fields["0"]))
    if is_sym(v):
        raise Unsupported("sort with symbolic key")
    return v


@reg("std::slice::<impl [T]>::sort_by_key", "std::slice::<impl [T]>::sort_by_cached_key",
     "core::slice::<impl [T]>::sort_unstable_by_key")
def _sort_by_key(m, a, c):
    v = deref(a[0])
    keyed = [(_sort_key(m.call_value(a[1], [x])), i, x) for i, x in enumerate(v.items)]
    keyed.sort(key=lambda t: (t[0], t[1]))
    v.items[:] = [x for _, _, x in keyed]
    return ()


@reg("std::slice::<impl [T]>::sort", "core::slice::<impl [T]>::sort_unstable")
def _sort(m, a, c):
    v = deref(a[0])
    if any(isinstance(x, Adt) and x.path in m.facts.adts for x in v.items) and not any(is_sym(x) for x in v.items):
        # user-ordered items: sort with the type's own Ord impl (stable merge order = slice::sort)
        import functools

        def cmpf(x, y):
            r = _cmp_vals(x, y, m)
            if isinstance(r, Term):
                raise Unsupported("symbolic ordering")
            return {"Less": -1, "Equal": 0, "Greater": 1}[r.variant]
        try:
            v.items.sort(key=functools.cmp_to_key(cmpf))
            return ()
        except Unsupported:
            pass
    if any(isinstance(x, Adt) and x.path in m.facts.adts for x in v.items) or any(is_sym(x) for x in v.items):
        # order of opaque items is not modelled: keep a marker
        v.items[:] = [Term("sorted", PyVec(list(v.items)), i) for i in range(len(v.items))]
        return ()
    v.items.sort(key=_sort_key)
    return ()


@reg("std::mem::swap")
def _swap(m, a, c):
    x, y = a[0], a[1]
    if isinstance(x, MutRef) and isinstance(y, MutRef):
        vx, vy = x.get(), y.get()
        x.set(vy)
        y.set(vx)
        return ()
    x, y = deref(x), deref(y)
    if isinstance(x, Adt) and isinstance(y, Adt):
        x.path, y.path = y.path, x.path
        x.variant, y.variant = y.variant, x.variant
        x.fields, y.fields = y.fields, x.fields
        return ()
    if isinstance(x, PyVec) and isinstance(y, PyVec):
        x.items, y.items = y.items, x.items
        return ()
    raise Unsupported("mem::swap of %r, %r" % (x, y))


@reg("std::mem::replace")
def _replace(m, a, c):
    x = a[0]
    if isinstance(x, MutRef):
        old = x.get()
        if isinstance(old, Adt):
            old = Adt(old.path, old.variant, dict(old.fields))   # the place may be updated in place
        elif isinstance(old, PyVec):
            old = PyVec(list(old.items))
        x.set(a[1])
        return old
    x = deref(x)
    new = deref(a[1])
    if isinstance(x, Adt) and isinstance(new, Adt):
        old = Adt(x.path, x.variant, x.fields)
        x.path, x.variant, x.fields = new.path, new.variant, new.fields
        return old
    raise Unsupported("mem::replace of %r" % (x,))


# ---- crate-specific: generic tree iterators of iter/tree.rs (modelled, see DESIGN.md trusted base) ----

def _treelike_impl(m, node):
    node = deref(node)
    if not isinstance(node, Adt):
        raise Unsupported("tree iteration over %r" % (node,))
    for imp in m.facts.impls:
        if imp["trait"] == "iter::tree::TreeLike" and imp["self_adt"] == node.path:
            return {it["name"]: it["path"] for it in imp["items"]}
    raise Unsupported("no TreeLike impl for %s" % node.path)


def tree_children(m, node, impl=None):
    impl = impl or _treelike_impl(m, node)
    t = m.call_path(impl["as_node"], [node])
    if is_sym(t):
        raise Unsupported("symbolic tree node")
    v = t.variant
    if v == "Nullary":
        return []
    if v in ("Unary", "Binary", "Ternary"):
        return [t.fields[str(i)] for i in range({"Unary": 1, "Binary": 2, "Ternary": 3}[v])]
    ch = t.fields["0"]
    n = m.call_path(impl["nary_len"], [ch])
    if is_sym(n):
        raise Unsupported("symbolic n-ary length")
    return [m.call_path(impl["nary_index"], [dcopy(ch), i]) for i in range(n)]


@reg("iter::tree::TreeLike::pre_order_iter")
def _pre_order_iter(m, a, c):
    root = deref(a[0])
    if is_sym(root):
        return Term("pre_order_iter", root)
    impl = _treelike_impl(m, root)
    out, stack = [], [root]
    while stack:
        top = stack.pop()
        out.append(top)
        stack.extend(reversed(tree_children(m, top, impl)))
        if len(out) > 10000:
            raise Unsupported("tree too large")
    return PyIter(out)


def _post_order(m, root, rtl=False):
    impl = _treelike_impl(m, root)
    items = []

    def go(node):
        ch = tree_children(m, node, impl)
        if rtl:
            ch = list(reversed(ch))
        idx = [go(x) for x in ch]
        if rtl:
            idx.reverse()        # RtlPostOrderIter::next reports the child indices in left-to-right child order
        items.append(Adt("iter::tree::PostOrderIterItem", "PostOrderIterItem",
                         {"node": node, "index": len(items), "child_indices": PyVec(idx)}))
        return len(items) - 1
    go(root)
    return items


@reg("iter::tree::TreeLike::post_order_iter")
def _post_order_iter(m, a, c):
    root = deref(a[0])
    if is_sym(root):
        return Term("post_order_iter", root)
    return PyIter(_post_order(m, root))


@reg("iter::tree::TreeLike::rtl_post_order_iter")
def _rtl_post_order_iter(m, a, c):
    root = deref(a[0])
    if is_sym(root):
        return Term("rtl_post_order_iter", root)
    return PyIter(_post_order(m, root, rtl=True))


# ---- hashing into a recording hasher (a PyVec) -------------------------------------------------

def hash_into(m, x, hasher):
    x = deref(x)
    h = deref(hasher)
    if not isinstance(h, PyVec):
        raise Unsupported("hasher %r" % (h,))
    if isinstance(x, Adt) and x.path in m.facts.adts:
        for imp in m.facts.impls_of(trait="std::hash::Hash", self_adt=x.path):
            for it in imp["items"]:
                if it["name"] == "hash" and it["path"] in m.facts.bodies:
                    m.call_path(it["path"], [x, h])
                    return
        raise Unsupported("no Hash impl for %s" % x.path)
    if isinstance(x, PyVec):
        h.items.append(("len", len(x.items)))
        for e in x.items:
            hash_into(m, e, h)
        return
    if isinstance(x, tuple):
        for e in x:
            hash_into(m, e, h)
        return
    if isinstance(x, Adt) and x.path == OPTION:
        h.items.append(("discr", 0 if x.variant == "None" else 1))
        if x.variant == "Some":
            hash_into(m, x.fields["0"], h)
        return
    from .interp import freeze
    h.items.append(("h", freeze(x) if not isinstance(x, Adt) else repr(x)))


@treg("std::hash::Hash", "hash")
def _hash(m, a, c):
    x = deref(a[0])
    if isinstance(x, Adt) and x.path in m.facts.adts and c.get("resolved") in m.facts.bodies:
        return NOT_HANDLED
    hash_into(m, x, a[1])
    return ()


@reg("std::mem::discriminant")
def _mem_discriminant(m, a, c):
    v = deref(a[0])
    if is_sym(v):
        return Term("discriminant", v)
    return ("discriminant", v.path, v.variant)


@reg("bitcoin::absolute::LockTime::to_consensus_u32", "bitcoin::Sequence::to_consensus_u32")
def _to_consensus(m, a, c):
    v = deref(a[0])
    if isinstance(v, Adt) and "0" in v.fields and isinstance(v.fields["0"], int):
        return v.fields["0"]
    if isinstance(v, int) and not isinstance(v, bool):
        return v
    return Term("to_consensus_u32", v)


# rust-bitcoin lock-time types when represented by their consensus u32 (BIP-65 / BIP-68 / BIP-112 encoding)
def _lock_int(v):
    v = deref(v)
    if isinstance(v, Adt) and "0" in v.fields:
        v = v.fields["0"]
    if isinstance(v, int) and not isinstance(v, bool):
        return v
    return None


def _lock_pred(fn, name):
    def h(m, a, c):
        n = _lock_int(a[0])
        if n is None:
            return Term(name, deref(a[0]))
        return fn(n)
    return h


TABLE["bitcoin::absolute::LockTime::from_consensus"] = lambda m, a, c: deref(a[0])
TABLE["bitcoin::Sequence::from_consensus"] = lambda m, a, c: deref(a[0])
TABLE["bitcoin::absolute::LockTime::is_block_height"] = _lock_pred(lambda n: n < 500_000_000, "is_block_height")
TABLE["bitcoin::absolute::LockTime::is_block_time"] = _lock_pred(lambda n: n >= 500_000_000, "is_block_time")
TABLE["bitcoin::Sequence::is_relative_lock_time"] = _lock_pred(lambda n: n & (1 << 31) == 0, "is_relative_lock_time")
TABLE["bitcoin::Sequence::is_height_locked"] = _lock_pred(
    lambda n: n & (1 << 31) == 0 and n & (1 << 22) == 0, "is_height_locked")
TABLE["bitcoin::Sequence::is_time_locked"] = _lock_pred(
    lambda n: n & (1 << 31) == 0 and n & (1 << 22) != 0, "is_time_locked")
CONSTS["bitcoin::Sequence::ZERO"] = 0
CONSTS["bitcoin::Sequence::MAX"] = 0xffffffff
CONSTS["bitcoin::Sequence::ENABLE_LOCKTIME_NO_RBF"] = 0xfffffffe
CONSTS["bitcoin::Sequence::ENABLE_RBF_NO_LOCKTIME"] = 0xfffffffd


@reg("iter::tree::TreeLike::n_children")
def _n_children(m, a, c):
    node = deref(a[0])
    if is_sym(node):
        return Term("n_children", node)
    return len(tree_children(m, node))


@reg("iter::tree::TreeLike::nth_child")
def _nth_child(m, a, c):
    node = deref(a[0])
    if is_sym(node) or is_sym(a[1]):
        return Term("nth_child", node, a[1])
    ch = tree_children(m, node)
    return some(ch[a[1]]) if 0 <= a[1] < len(ch) else NONE


@treg("std::default::Default", "default")
def _default(m, a, c):
    st = c.get("self_ty") or ""
    if c.get("resolved") in m.facts.bodies:
        return NOT_HANDLED
    if st == "bool":
        return False
    if st in INT_RANGES:
        return 0
    if st.startswith("std::option::Option"):
        return NONE
    if st.startswith("std::vec::Vec"):
        return PyVec()
    if st.startswith(("std::collections::BTreeSet", "std::collections::HashSet")):
        return PySet()
    if st.startswith(("std::collections::BTreeMap", "std::collections::HashMap")):
        return PyMap()
    if st == "std::string::String":
        return ""
    for imp in m.facts.impls:
        if imp["trait"] == "std::default::Default" and imp["self_ty"].split("<")[0] == st.split("<")[0]:
            for it in imp["items"]:
                if it["name"] == "default" and it["path"] in m.facts.bodies:
                    return m.call_path(it["path"], [])
    return NOT_HANDLED


@reg("std::option::Option::<T>::then_some", "core::bool::<impl bool>::then_some")
def _then_some(m, a, c):
    b = deref(a[0])
    if is_sym(b):
        return Term("then_some", b, a[1])
    return some(a[1]) if b else NONE


def _arith(op):
    def h(m, a, c):
        x, y = deref(a[0]), deref(a[1])
        if isinstance(x, Adt) or isinstance(y, Adt):
            return NOT_HANDLED
        st = (c.get("self_ty") or "usize").lstrip("&").strip()
        return m.binop(op, x, y, st)
    return h


for _tr, _nm, _op in (("std::ops::Add", "add", "Add"), ("std::ops::Sub", "sub", "Sub"), ("std::ops::Mul", "mul", "Mul"),
                      ("std::ops::Div", "div", "Div"), ("std::ops::Rem", "rem", "Rem"),
                      ("std::ops::BitAnd", "bitand", "BitAnd"), ("std::ops::BitOr", "bitor", "BitOr")):
    TRAIT_TABLE[(_tr, _nm)] = _arith(_op)


# ---- formatting: a recording Formatter ----------------------------------------------------------

class PyFmt(object):
    """core::fmt::Formatter modelled as a token recorder: str pieces and opaque Terms."""
    __slots__ = ("out", "alternate")

    def __init__(self, alternate=False):
        self.out = []
        self.alternate = alternate

    def text(self):
        return "".join(x if isinstance(x, str) else "<%r>" % (x,) for x in self.out)


class FmtArgs(object):
    __slots__ = ("template", "args")

    def __init__(self, template, args):
        self.template = template
        self.args = args


FMT_OK = Adt(RESULT, "Ok", {"0": ()})


def fmt_value(m, kind, x, f):
    """Display / Debug of x into PyFmt f; returns the Result value"""
    x = deref(x)
    if isinstance(x, str):
        f.out.append(x if kind == "display" else '"%s"' % x)
        return FMT_OK
    if isinstance(x, bool):
        f.out.append("true" if x else "false")
        return FMT_OK
    if isinstance(x, int):
        f.out.append(str(x))
        return FMT_OK
    if isinstance(x, Term):
        f.out.append(Term(kind, x) if kind != "display" else x)
        return FMT_OK
    if isinstance(x, Adt):
        tr = "std::fmt::Display" if kind == "display" else "std::fmt::Debug"
        for imp in m.facts.impls_of(trait=tr, self_adt=x.path):
            if imp.get("derived"):
                continue
            for it in imp["items"]:
                if it["name"] == "fmt" and it["path"] in m.facts.bodies:
                    return m.call_path(it["path"], [x, f])
    if isinstance(x, Adt) and kind == "debug" and any(
            imp.get("derived") for imp in m.facts.impls_of(trait="std::fmt::Debug", self_adt=x.path)):
        # #[derive(Debug)]: `Name`, `Name(a, b)` or `Name { f: a }`
        f.out.append(x.variant)
        names = list(x.fields)
        if names:
            positional = all(n.isdigit() for n in names)
            f.out.append("(" if positional else " { ")
            for i, n in enumerate(names):
                if i:
                    f.out.append(", ")
                if not positional:
                    f.out.append(n + ": ")
                fmt_value(m, "debug", x.fields[n], f)
            f.out.append(")" if positional else " }")
        return FMT_OK
    if isinstance(x, PyVec) and kind == "debug":
        f.out.append("[")
        for i, it in enumerate(x.items):
            if i:
                f.out.append(", ")
            fmt_value(m, "debug", it, f)
        f.out.append("]")
        return FMT_OK
    if isinstance(x, Adt) and "inner" in x.fields and hasattr(x.fields["inner"], "name"):
        f.out.append(str(x.fields["inner"].name))       # a foreign key type modelled by a token
        return FMT_OK
    if hasattr(x, "kind") and hasattr(x, "name") and hasattr(x, "length"):
        f.out.append(str(x.name))                        # opaque byte token
        return FMT_OK
    raise Unsupported("formatting (%s) of %r" % (kind, x))


@reg("std::fmt::Formatter::<'a>::write_str", "<std::fmt::Formatter<'_> as std::fmt::Write>::write_str")
def _fmt_write_str(m, a, c):
    f = deref(a[0])
    s = deref(a[1])
    if not isinstance(f, PyFmt):
        raise Unsupported("write_str on %r" % (f,))
    f.out.append(s)
    return FMT_OK


@reg("std::fmt::Formatter::<'a>::write_char", "<std::fmt::Formatter<'_> as std::fmt::Write>::write_char")
def _fmt_write_char(m, a, c):
    f = deref(a[0])
    f.out.append(deref(a[1]))
    return FMT_OK


@reg("std::fmt::Formatter::<'a>::alternate")
def _fmt_alternate(m, a, c):
    return deref(a[0]).alternate


@reg("core::fmt::rt::Argument::<'_>::new_display")
def _arg_display(m, a, c):
    return ("display", deref(a[0]))


@reg("core::fmt::rt::Argument::<'_>::new_debug")
def _arg_debug(m, a, c):
    return ("debug", deref(a[0]))


@reg("core::fmt::rt::Argument::<'_>::new_lower_hex")
def _arg_lhex(m, a, c):
    return ("lower_hex", deref(a[0]))


@reg("std::fmt::Arguments::<'a>::new")
def _args_new(m, a, c):
    tpl = deref(a[0])
    args = deref(a[1])
    if isinstance(tpl, PyVec):
        tpl = tpl.items
    if isinstance(args, PyVec):
        args = args.items
    return FmtArgs(list(tpl), list(args))


@reg("std::fmt::Arguments::<'a>::from_str", "std::fmt::Arguments::<'a>::from_str_nonconst")
def _args_from_str(m, a, c):
    return FmtArgs(None, [deref(a[0])])


def parse_template(tpl):
    """-> list of ('lit', str) | ('arg', index|None, alternate)"""
    out = []
    i = 0
    while True:
        n = tpl[i]
        i += 1
        if n == 0:
            return out
        if n < 0x80:
            out.append(("lit", bytes(tpl[i:i + n]).decode("utf-8")))
            i += n
        elif n == 0x80:
            ln = tpl[i] | (tpl[i + 1] << 8)
            i += 2
            out.append(("lit", bytes(tpl[i:i + ln]).decode("utf-8")))
            i += ln
        else:
            flags = 0
            idx = None
            if n & 1:
                flags = tpl[i] | (tpl[i + 1] << 8) | (tpl[i + 2] << 16) | (tpl[i + 3] << 24)
                i += 4
            width = None
            if n & 2:
                width = tpl[i] | (tpl[i + 1] << 8)
                i += 2
            if n & 4:
                i += 2
            if n & 8:
                idx = tpl[i] | (tpl[i + 1] << 8)
                i += 2
            if n & (16 | 32):
                raise Unsupported("dynamic width/precision in format template")
            # FormattingOptions flag bits: alternate is bit 23 (see core::fmt::flags)
            out.append(("arg", idx, bool(flags & (1 << 23)), flags, width))


def _string_place(ref):
    """the innermost &mut place behind a chain of references (a String buffer is a Python str held in a place)"""
    r = ref
    while isinstance(r, MutRef) and isinstance(r.get(), MutRef):
        r = r.get()
    if not isinstance(r, MutRef):
        raise Unsupported("String buffer that is not a place")
    return r


@reg("std::string::String::new")
def _string_new(m, a, c):
    return ""


@reg("std::string::String::push_str", "<std::string::String as std::fmt::Write>::write_str")
def _string_push_str(m, a, c):
    pl = _string_place(a[0])
    pl.set(pl.get() + _s(a[1]))
    return () if c.get("name") == "push_str" else FMT_OK


@reg("std::string::String::push", "<std::string::String as std::fmt::Write>::write_char")
def _string_push(m, a, c):
    pl = _string_place(a[0])
    ch = deref(a[1])
    pl.set(pl.get() + (ch if isinstance(ch, str) else chr(ch)))
    return () if c.get("name") == "push" else FMT_OK


@reg("std::fmt::Formatter::<'a>::write_fmt", "std::fmt::Write::write_fmt")
def _fmt_write_fmt(m, a, c):
    f = deref(a[0])
    fa = deref(a[1])
    if isinstance(f, str) and isinstance(fa, FmtArgs):
        # a String as fmt::Write target: render with a fresh Formatter, append the text
        tmp = PyFmt(False)
        r = _fmt_write_fmt(m, [tmp, fa], c)
        if not all(isinstance(x, str) for x in tmp.out):
            raise Unsupported("opaque token written into a String")
        pl = _string_place(a[0])
        pl.set(pl.get() + "".join(tmp.out))
        return r
    if isinstance(f, Adt) and isinstance(fa, FmtArgs):
        # a crate-local fmt::Write implementor: core::fmt::write renders the arguments with a fresh
        # Formatter (default options) whose output goes through the implementor's write_str
        ws = None
        for imp in m.facts.impls_of(trait="std::fmt::Write", self_adt=f.path):
            for it in imp["items"]:
                if it["name"] == "write_str":
                    ws = it["path"]
        if ws is None:
            raise Unsupported("write_fmt on %r" % (f,))
        tmp = PyFmt(False)
        r = _fmt_write_fmt(m, [tmp, fa], c)
        for piece in tmp.out:
            r2 = m.call_path(ws, [f, piece])
            if is_res(r2, "Err"):
                return r2
        return r
    if not isinstance(f, PyFmt) or not isinstance(fa, FmtArgs):
        raise Unsupported("write_fmt(%r, %r)" % (f, fa))
    if fa.template is None:
        f.out.append(fa.args[0])
        return FMT_OK
    nxt = 0
    for part in parse_template(fa.template):
        if part[0] == "lit":
            f.out.append(part[1])
            continue
        idx = part[1] if part[1] is not None else nxt
        nxt = idx + 1
        kind, val = fa.args[idx]
        if kind in ("lower_hex", "upper_hex") or (len(part) > 4 and part[4] is not None and isinstance(deref(val), int)):
            v = deref(val)
            if not isinstance(v, int) or isinstance(v, bool):
                raise Unsupported("hex / padded formatting of %r" % (v,))
            txt = ("%x" % v) if kind == "lower_hex" else (("%X" % v) if kind == "upper_hex" else str(v))
            width = part[4] if len(part) > 4 and part[4] is not None else 0
            zero = bool(part[3] & (1 << 24))
            if len(txt) < width:
                txt = ("0" if zero else " ") * (width - len(txt)) + txt
            f.out.append(txt)
            continue
        saved = f.alternate
        f.alternate = part[2]
        try:
            r = fmt_value(m, kind, val, f)
        finally:
            f.alternate = saved
        if is_res(r, "Err"):
            return r
    return FMT_OK


def _fmt_trait(kind):
    def h(m, a, c):
        f = deref(a[1])
        if not isinstance(f, PyFmt):
            return NOT_HANDLED
        x = deref(a[0])
        if isinstance(x, Adt) and (c.get("resolved") or c.get("def")) in m.facts.bodies:
            return NOT_HANDLED
        return fmt_value(m, kind, x, f)
    return h


TRAIT_TABLE[("std::fmt::Display", "fmt")] = _fmt_trait("display")
TRAIT_TABLE[("std::fmt::Debug", "fmt")] = _fmt_trait("debug")


# ---- strings (Python str models &str and String) ----------------------------------------------

def _s(v):
    v = deref(v)
    if not isinstance(v, str):
        raise Unsupported("string operation on %r" % (v,))
    return v


class PyChar(str):
    """a Rust char (distinct from a one-character str only for Debug output)"""
    __slots__ = ()


@reg("core::str::<impl str>::len", "std::string::String::len")
def _str_len(m, a, c):
    return len(_s(a[0]).encode("utf-8"))


@reg("core::str::<impl str>::is_empty", "std::string::String::is_empty")
def _str_is_empty(m, a, c):
    return _s(a[0]) == ""


@reg("core::str::<impl str>::bytes", "core::str::<impl str>::as_bytes")
def _str_bytes(m, a, c):
    b = list(_s(a[0]).encode("utf-8"))
    return PyIter(b) if c.get("name") == "bytes" else PyVec(b)


@reg("core::str::<impl str>::chars")
def _str_chars(m, a, c):
    return PyIter(list(_s(a[0])))


@reg("core::str::<impl str>::char_indices")
def _str_char_indices(m, a, c):
    s = _s(a[0])
    out, pos = [], 0
    for ch in s:
        out.append((pos, ch))
        pos += len(ch.encode("utf-8"))
    return PyIter(out)


@reg("core::str::<impl str>::splitn")
def _str_splitn(m, a, c):
    return PyIter(_s(a[0]).split(_s(a[2]), deref(a[1]) - 1))


@reg("core::str::<impl str>::split")
def _str_split(m, a, c):
    return PyIter(_s(a[0]).split(_s(a[1])))


@reg("core::str::<impl str>::starts_with")
def _str_starts_with(m, a, c):
    return _s(a[0]).startswith(_s(a[1]))


@reg("core::str::<impl str>::ends_with")
def _str_ends_with(m, a, c):
    return _s(a[0]).endswith(_s(a[1]))


@reg("core::str::<impl str>::contains")
def _str_contains(m, a, c):
    return _s(a[1]) in _s(a[0])


@reg("core::str::<impl str>::strip_prefix")
def _str_strip_prefix(m, a, c):
    s, p = _s(a[0]), _s(a[1])
    return some(s[len(p):]) if s.startswith(p) else NONE


@reg("std::str::<impl str>::replace", "alloc::str::<impl str>::replace", "core::str::<impl str>::replace")
def _str_replace(m, a, c):
    s, p, r = _s(a[0]), deref(a[1]), _s(a[2])
    if not isinstance(p, str):
        raise Unsupported("replace with a non-string pattern")
    return s.replace(p, r)


@reg("core::str::<impl str>::split_once")
def _str_split_once(m, a, c):
    s, p = _s(a[0]), deref(a[1])
    if not isinstance(p, str):
        raise Unsupported("split_once with a non-string pattern")
    i = s.find(p)
    if i < 0:
        return NONE
    return some((s[:i], s[i + len(p):]))


@reg("core::str::<impl str>::rsplit_once")
def _str_rsplit_once(m, a, c):
    s, p = _s(a[0]), deref(a[1])
    if not isinstance(p, str):
        raise Unsupported("rsplit_once with a non-string pattern")
    i = s.rfind(p)
    if i < 0:
        return NONE
    return some((s[:i], s[i + len(p):]))


@reg("core::str::<impl str>::strip_suffix")
def _str_strip_suffix(m, a, c):
    s, p = _s(a[0]), _s(a[1])
    return some(s[:len(s) - len(p)]) if s.endswith(p) else NONE


@reg("core::str::<impl str>::find")
def _str_find(m, a, c):
    s, p = _s(a[0]), deref(a[1])
    if not isinstance(p, str):
        raise Unsupported("str::find with a non-literal pattern")
    i = s.find(p)
    return some(len(s[:i].encode("utf-8"))) if i >= 0 else NONE


@reg("core::str::<impl str>::rfind")
def _str_rfind(m, a, c):
    s, p = _s(a[0]), deref(a[1])
    if not isinstance(p, str):
        raise Unsupported("str::rfind with a non-literal pattern")
    i = s.rfind(p)
    return some(len(s[:i].encode("utf-8"))) if i >= 0 else NONE


@reg("core::str::<impl str>::is_char_boundary")
def _str_is_char_boundary(m, a, c):
    b = _s(a[0]).encode("utf-8")
    i = deref(a[1])
    return i == len(b) or (i < len(b) and (b[i] & 0xC0) != 0x80)


@reg("core::str::<impl str>::is_ascii")
def _str_is_ascii(m, a, c):
    return all(ord(ch) < 128 for ch in _s(a[0]))


@reg("core::str::<impl str>::to_owned", "alloc::str::<impl str>::to_owned",
     "alloc::str::<impl std::borrow::ToOwned for str>::to_owned", "std::string::String::as_str")
def _str_to_owned(m, a, c):
    return _s(a[0])


@reg("core::str::<impl str>::parse")
def _str_parse(m, a, c):
    # `s.parse::<F>()` is F::from_str(s): a crate type's own FromStr impl when F is one
    from .tystr import type_head
    targ = (c.get("targs") or [""])[0] or ""
    head = type_head(targ)
    if head in m.facts.adts:
        for imp in m.facts.impls_of(trait="std::str::FromStr", self_adt=head):
            for it in imp["items"]:
                if it["name"] == "from_str" and it["path"] in m.facts.bodies:
                    if it["path"] in m.hooks:
                        return m.hooks[it["path"]](m, [a[0]], c)
                    return m.call_path(it["path"], [a[0]])
    return _from_str_prim(m, a, c)


def _from_str_prim(m, a, c):
    s = _s(a[0])
    targ = (c.get("targs") or [c.get("self_ty")])[0] or ""
    st = c.get("self_ty") or targ
    for ty in ("u8", "u16", "u32", "u64", "usize"):
        if st == ty or targ == ty:
            body = s[1:] if s.startswith("+") else s
            if body and all("0" <= ch <= "9" for ch in body) and int(body) <= INT_RANGES[ty][1]:
                return ok(int(body))
            return err(Term("ParseIntError", s))
    if st in ("std::string::String",) or targ in ("std::string::String",):
        return ok(s)
    if getattr(m, "text_keys", False) and not c.get("resolved"):
        # generic key / hash types are modelled by their text (Display and FromStr assumed inverse)
        return ok(s)
    return NOT_HANDLED


TRAIT_TABLE[("std::str::FromStr", "from_str")] = _from_str_prim


@reg("std::char::convert::<impl std::convert::From<char> for u32>::from")
def _char_to_u32(m, a, c):
    return ord(_s(a[0]))


@reg("std::ops::Range::<Idx>::contains", "std::ops::RangeInclusive::<Idx>::contains")
def _range_contains(m, a, c):
    r, x = deref(a[0]), deref(a[1])
    lo, hi = r.fields["start"], r.fields["end"]
    if isinstance(x, str):
        lo, hi, x = ord(lo), ord(hi), ord(x)
    if r.path.endswith("RangeInclusive"):
        return lo <= x <= hi
    return lo <= x < hi


def _try_from(m, a, c):
    v = deref(a[0])
    targs = c.get("targs") or []
    tgt = targs[0] if targs else c.get("self_ty")
    if "Fe32" in (tgt or "") and getattr(m, "fe_try_from", None):
        return m.fe_try_from(m, a, c)
    if isinstance(v, int) and not isinstance(v, bool) and tgt in INT_RANGES:
        lo, hi = INT_RANGES[tgt]
        if lo <= v <= hi:
            return ok(v)
        return err(Term("TryFromIntError", v))
    return NOT_HANDLED


TRAIT_TABLE[("std::convert::TryFrom", "try_from")] = _try_from


def _range_step(r, back):
    lo, hi = r.fields["start"], r.fields["end"]
    if not (isinstance(lo, int) and isinstance(hi, int)):
        raise Unsupported("stepping a symbolic range")
    if r.path.endswith("RangeInclusive"):
        if r.fields.get("exhausted") or lo > hi:
            return NONE
        if lo == hi:
            r.fields["exhausted"] = True
            return some(lo)
        if back:
            r.fields["end"] = hi - 1
            return some(hi)
        r.fields["start"] = lo + 1
        return some(lo)
    if lo >= hi:
        return NONE
    if back:
        r.fields["end"] = hi - 1
        return some(hi - 1)
    r.fields["start"] = lo + 1
    return some(lo)


@treg("std::iter::DoubleEndedIterator", "next_back", first=True)
def _next_back(m, a, c):
    it = deref(a[0])
    if isinstance(it, Adt) and it.path in ("std::ops::RangeInclusive", "std::ops::Range"):
        return _range_step(it, back=True)
    if isinstance(it, PyIter):
        if it.pos >= len(it.items):
            return NONE
        return some(it.items.pop())
    return NOT_HANDLED


@reg("std::ops::RangeInclusive::<Idx>::is_empty")
def _rangeincl_is_empty(m, a, c):
    r = deref(a[0])
    return bool(r.fields.get("exhausted")) or r.fields["start"] > r.fields["end"]


@reg("std::ops::RangeInclusive::<Idx>::start")
def _rangeincl_start(m, a, c):
    return deref(a[0]).fields["start"]


@reg("std::ops::RangeInclusive::<Idx>::end")
def _rangeincl_end(m, a, c):
    return deref(a[0]).fields["end"]


def _bounds_of(r):
    """(lo inclusive | None, hi inclusive | None) of a std::ops range value"""
    p = r.path
    lo = r.fields.get("start")
    hi = r.fields.get("end")
    if p.endswith("RangeFull"):
        return None, None
    if hi is not None and not (p.endswith("RangeInclusive") or p.endswith("RangeToInclusive")):
        hi = hi - 1
    return lo, hi


@treg("std::ops::RangeBounds", "contains", first=True)
def _rangebounds_contains(m, a, c):
    r, x = deref(a[0]), deref(a[1])
    if not (isinstance(r, Adt) and r.path.startswith("std::ops::Range")) or is_sym(x):
        return NOT_HANDLED
    lo, hi = _bounds_of(r)
    if isinstance(x, str):
        x = ord(x)
        lo = ord(lo) if isinstance(lo, str) else lo
        hi = ord(hi) if isinstance(hi, str) else hi
    return (lo is None or lo <= x) and (hi is None or x <= hi)


def _bound(v, incl=True):
    if v is None:
        return Adt("std::ops::Bound", "Unbounded", {})
    return Adt("std::ops::Bound", "Included" if incl else "Excluded", {"0": v})


@treg("std::ops::RangeBounds", "start_bound", first=True)
def _start_bound(m, a, c):
    r = deref(a[0])
    return _bound(r.fields.get("start"))


@treg("std::ops::RangeBounds", "end_bound", first=True)
def _end_bound(m, a, c):
    r = deref(a[0])
    hi = r.fields.get("end")
    return _bound(hi, r.path.endswith("RangeInclusive") or r.path.endswith("RangeToInclusive"))


@treg("std::iter::Iterator", "size_hint", first=True)
def _size_hint(m, a, c):
    it = deref(a[0])
    if isinstance(it, PyIter):
        n = len(it.items) - it.pos
        return (n, some(n))
    return NOT_HANDLED


@reg("std::array::from_fn")
def _array_from_fn(m, a, c):
    cargs = c.get("cargs") or []
    n = None
    for x in cargs:
        try:
            n = int(x)
        except (TypeError, ValueError):
            pass
    if n is None:
        raise Unsupported("array::from_fn with unknown length %r" % (cargs,))
    return PyVec([m.call_value(a[0], [i]) for i in range(n)])





@reg("bitcoin::Weight::to_wu", "bitcoin::Weight::from_wu")
def _weight_wu(m, a, c):
    v = deref(a[0])
    if isinstance(v, Adt) and "0" in v.fields and c.get("name") == "to_wu":
        return v.fields["0"]
    return v


@reg("std::sync::Mutex::<T>::new")
def _mutex_new(m, a, c):
    return Adt("std::sync::Mutex", "Mutex", {"0": a[0]})


# ---- sets (BTreeSet / HashSet): concrete elements only ------------------------------------------

class PySet(PyVec):
    """a set with deterministic (sorted when possible) iteration order"""
    __slots__ = ()

    def __init__(self, items=None):
        out = []
        m = _CUR_MACHINE[0]
        user = []
        for x in (items or []):
            x = deref(x)
            if is_sym(x):
                raise Unsupported("set of symbolic values")
            if m is not None and isinstance(x, (Adt, tuple)) and _user_ordered(m, x):
                user.append(x)
                continue
            if x not in out:
                out.append(x)
        try:
            out.sort()
        except TypeError:
            pass
        PyVec.__init__(self, out)
        for x in user:
            _set_insert(m, [self, x], {})


@reg("std::collections::BTreeSet::<T>::new", "std::collections::HashSet::<T>::new",
     "std::collections::HashSet::<T, S>::new")
def _set_new(m, a, c):
    return PySet()


@reg("std::collections::BTreeSet::<T, A>::len", "std::collections::HashSet::<T, S, A>::len",
     "std::collections::HashSet::<T, S>::len")
def _set_len(m, a, c):
    return len(deref(a[0]).items)


@reg("std::collections::BTreeSet::<T, A>::insert", "std::collections::HashSet::<T, S, A>::insert",
     "std::collections::HashSet::<T, S>::insert")
def _set_insert(m, a, c):
    s_, x = deref(a[0]), deref(a[1])
    if is_sym(x):
        raise Unsupported("set insert of a symbolic value")
    if isinstance(x, (Adt, tuple)) and _user_ordered(m, x):
        # BTreeSet of a crate type: position and membership by the type's own Ord (binary insertion)
        lo, hi = 0, len(s_.items)
        try:
            while lo < hi:
                mid = (lo + hi) // 2
                o = _cmp_vals(s_.items[mid], x, m)
                if isinstance(o, Term):
                    raise Unsupported("symbolic element order")
                if o.variant == "Less":
                    lo = mid + 1
                else:
                    hi = mid
            if lo < len(s_.items) and _cmp_vals(s_.items[lo], x, m).variant == "Equal":
                return False
            s_.items.insert(lo, x)
            return True
        except Unsupported:
            pass
    if x in s_.items:
        return False
    s_.items.append(x)
    try:
        s_.items.sort()
    except TypeError:
        pass
    return True


def _set_find(m, s_, x):
    x = deref(x)
    if isinstance(x, (Adt, tuple)) and not is_sym(x) and _user_ordered(m, x):
        for i, y in enumerate(s_.items):
            o = _cmp_vals(y, x, m)
            if isinstance(o, Term):
                raise Unsupported("symbolic element order")
            if o.variant == "Equal":
                return i
        return -1
    for i, y in enumerate(s_.items):
        if y == x:
            return i
    return -1


@reg("std::collections::BTreeSet::<T, A>::contains", "std::collections::HashSet::<T, S, A>::contains",
     "std::collections::HashSet::<T, S>::contains")
def _set_contains(m, a, c):
    return _set_find(m, deref(a[0]), a[1]) >= 0


@reg("std::collections::BTreeSet::<T, A>::remove", "std::collections::HashSet::<T, S, A>::remove",
     "std::collections::HashSet::<T, S>::remove")
def _set_remove(m, a, c):
    s_ = deref(a[0])
    i = _set_find(m, s_, a[1])
    if i < 0:
        return False
    s_.items.pop(i)
    return True


@reg("<std::collections::BTreeSet<T, A> as std::iter::Extend<T>>::extend", "std::collections::BTreeSet::<T, A>::extend",
     "<std::collections::HashSet<T, S, A> as std::iter::Extend<T>>::extend")
def _set_extend(m, a, c):
    for x in list(items_of(a[1])):
        _set_insert(m, [a[0], x], c)
    return ()


@reg("std::collections::BTreeSet::<T, A>::is_empty", "std::collections::HashSet::<T, S, A>::is_empty")
def _set_is_empty(m, a, c):
    return not deref(a[0]).items


@reg("std::collections::BTreeSet::<T, A>::into_iter", "std::collections::HashSet::<T, S, A>::into_iter")
def _set_into_iter(m, a, c):
    return PyIter(list(deref(a[0]).items))


@reg("std::collections::BTreeSet::<T, A>::iter", "std::collections::HashSet::<T, S, A>::iter",
     "std::collections::HashSet::<T, S>::iter")
def _set_iter(m, a, c):
    return PyIter(list(deref(a[0]).items))


# ---- char / u8 ASCII helpers ---------------------------------------------------------------------

def _ascii_fn(name):
    def h(m, a, c):
        v = deref(a[0])
        isint = isinstance(v, int) and not isinstance(v, bool)
        ch = chr(v) if isint else v
        if not isinstance(ch, str) or len(ch) != 1:
            raise Unsupported("%s on %r" % (name, v))
        asc = ord(ch) < 128
        res = {
            "to_ascii_lowercase": lambda: ch.lower() if asc else ch,
            "to_ascii_uppercase": lambda: ch.upper() if asc else ch,
            "is_ascii": lambda: asc,
            "is_ascii_digit": lambda: asc and ch.isdigit(),
            "is_ascii_hexdigit": lambda: asc and ch in "0123456789abcdefABCDEF",
            "is_ascii_alphabetic": lambda: asc and ch.isalpha(),
            "is_ascii_alphanumeric": lambda: asc and ch.isalnum(),
            "is_ascii_lowercase": lambda: asc and ch.islower(),
            "is_ascii_uppercase": lambda: asc and ch.isupper(),
            "is_ascii_whitespace": lambda: ch in " \t\n\x0c\r",
            "is_ascii_control": lambda: ord(ch) < 32 or ord(ch) == 127,
            "is_ascii_graphic": lambda: 33 <= ord(ch) <= 126,
            "is_ascii_punctuation": lambda: asc and 33 <= ord(ch) <= 126 and not ch.isalnum(),
            # Unicode general category Cc: U+0000..U+001F and U+007F..U+009F
            "is_control": lambda: ord(ch) < 32 or 127 <= ord(ch) <= 159,
            "is_whitespace": lambda: ch.isspace(),
            "is_alphabetic": lambda: ch.isalpha(),
            "is_alphanumeric": lambda: ch.isalnum(),
            "is_numeric": lambda: ch.isnumeric(),
            "is_lowercase": lambda: ch.islower(),
            "is_uppercase": lambda: ch.isupper(),
        }[name]()
        if isint and isinstance(res, str):
            return ord(res)
        return res
    return h


for _nm in ["to_ascii_lowercase", "to_ascii_uppercase", "is_ascii", "is_ascii_digit", "is_ascii_hexdigit",
            "is_ascii_alphabetic", "is_ascii_alphanumeric", "is_ascii_lowercase", "is_ascii_uppercase",
            "is_ascii_whitespace", "is_ascii_control", "is_ascii_graphic", "is_ascii_punctuation"]:
    TABLE["std::char::methods::<impl char>::" + _nm] = _ascii_fn(_nm)
    TABLE["core::num::<impl u8>::" + _nm] = _ascii_fn(_nm)
for _nm in ["is_control", "is_whitespace", "is_alphabetic", "is_alphanumeric", "is_numeric", "is_lowercase", "is_uppercase"]:
    TABLE["std::char::methods::<impl char>::" + _nm] = _ascii_fn(_nm)


@reg("std::array::<impl std::convert::TryFrom<&[T]> for [T; N]>::try_from",
     "std::array::<impl std::convert::TryFrom<&[T]> for &[T; N]>::try_from")
def _array_try_from(m, a, c):
    v = deref(a[0])
    n = None
    for x in (c.get("cargs") or []):
        try:
            n = int(str(x).split("_")[0])
        except ValueError:
            pass
    if n is None:
        import re as _re
        for t in [c.get("self_ty") or ""] + list(c.get("targs") or []):
            mo = _re.search(r";\s*(\d+)(?:_usize)?\]", t)
            if mo:
                n = int(mo.group(1))
                break
    if n is None:
        raise Unsupported("array length of TryFrom<&[T]> target unknown (%r)" % (c,))
    if hasattr(v, "length") and isinstance(getattr(v, "length"), int):
        if n is None or v.length == n:
            return ok(v)
        return err(Term("TryFromSliceError"))
    if isinstance(v, PyVec):
        if n is None or len(v.items) == n:
            return ok(v)
        return err(Term("TryFromSliceError"))
    return NOT_HANDLED


@reg("std::result::Result::<T, E>::err")
def _res_err(m, a, c):
    v = deref(a[0])
    if isinstance(v, Term):
        return Term("err", v)
    return some(v.fields["0"]) if v.variant == "Err" else NONE


@reg("std::fmt::format")
def _fmt_format(m, a, c):
    # format!(..): the arguments rendered into a fresh String (opaque when an argument has no text form)
    fa = deref(a[0])
    if not isinstance(fa, FmtArgs):
        return Term("fmt")
    f = PyFmt(False)
    try:
        r = _fmt_write_fmt(m, [f, fa], c)
    except Unsupported:
        return Term("fmt")          # error messages etc. built from values without a text model stay opaque
    if is_res(r, "Err"):
        raise Panic("a formatting trait implementation returned an error")
    if not all(isinstance(x, str) for x in f.out):
        return Term("fmt")
    return "".join(f.out)


@reg("<T as std::string::ToString>::to_string", "std::string::ToString::to_string")
def _to_string(m, a, c):
    v = deref(a[0])
    if isinstance(v, str):
        return v
    f = PyFmt(False)
    r = fmt_value(m, "display", v, f)
    if is_res(r, "Err"):
        raise Panic("a Display implementation returned an error unexpectedly")
    if not all(isinstance(x, str) for x in f.out):
        return Term("to_string", v)
    return "".join(f.out)


@reg("<T as std::convert::TryInto<U>>::try_into", "std::convert::TryInto::try_into")
def _try_into(m, a, c):
    targs = c.get("targs") or []
    v = deref(a[0])
    tgt = targs[1] if len(targs) > 1 else (c.get("self_ty") or "")
    if tgt.startswith("["):
        c2 = dict(c)
        c2["targs"] = [tgt]
        c2["self_ty"] = tgt
        c2["cargs"] = []
        return _array_try_from(m, a, c2)
    if isinstance(v, int) and not isinstance(v, bool) and tgt in INT_RANGES:
        lo, hi = INT_RANGES[tgt]
        return ok(v) if lo <= v <= hi else err(Term("TryFromIntError", v))
    if isinstance(v, Term):
        return Term("try_into", v, tgt)
    # the blanket impl: U::try_from(self) -- a crate-local TryFrom impl for the target type
    from .tystr import type_head
    cands = []
    for imp in m.facts.impls:
        if imp.get("trait") == "std::convert::TryFrom" and type_head(imp.get("self_ty") or "") == type_head(tgt):
            for it in imp["items"]:
                if it["name"] == "try_from" and it["path"] in m.facts.bodies:
                    cands.append((imp.get("trait_str") or "", it["path"]))
    if len(cands) > 1:
        src = "str" if isinstance(v, str) else None
        pick = [p_ for ts, p_ in cands if src and ("TryFrom<&str>" in ts or "TryFrom<&'a str>" in ts)]
        cands = [("", pick[0])] if len(pick) == 1 else cands
    if len(cands) == 1:
        return m.call_path(cands[0][1], [a[0]])
    raise Unsupported("TryInto<%s> of %r" % (tgt, v))


# ---- maps (BTreeMap / HashMap): association lists; iteration order = key order when keys are comparable ----------

class PyMap(object):
    __slots__ = ("pairs",)

    def __init__(self, pairs=None):
        self.pairs = list(pairs or [])

    def find(self, k, m=None):
        kd = deref(k)
        if m is not None and isinstance(kd, (Adt, tuple)) and not is_sym(kd) and _user_ordered(m, kd):
            # BTreeMap look-up: by the key type's own Ord, as the real map does (keys are kept in that order)
            try:
                lo, hi = 0, len(self.pairs)
                while lo < hi:
                    mid = (lo + hi) // 2
                    o = _cmp_vals(self.pairs[mid][0], kd, m)
                    if isinstance(o, Term):
                        raise Unsupported("symbolic key order")
                    if o.variant == "Less":
                        lo = mid + 1
                    elif o.variant == "Equal":
                        return mid
                    else:
                        hi = mid
                return -1
            except Unsupported:
                pass
        for i, (kk, _) in enumerate(self.pairs):
            if _keys_equal(kk, k, m):
                return i
        return -1

    def order(self):
        try:
            self.pairs.sort(key=lambda kv: _sort_key(kv[0]))
        except (TypeError, Unsupported):
            pass

    def __repr__(self):
        return "map%r" % (self.pairs,)


def _keys_equal(a, b, m):
    a, b = deref(a), deref(b)
    if isinstance(a, Adt) and m is not None and a.path in m.facts.adts:
        r = _eq(m, [a, b], {})
        if isinstance(r, bool):
            return r
    return a == b


_MAPS = ["std::collections::BTreeMap::<K, V>::", "std::collections::BTreeMap::<K, V, A>::",
         "std::collections::HashMap::<K, V, S>::", "std::collections::HashMap::<K, V>::",
         "std::collections::HashMap::<K, V, S, A>::"]


def mapreg(*names):
    def deco(f):
        for pre in _MAPS:
            for n in names:
                TABLE[pre + n] = f
        return f
    return deco


@mapreg("new")
def _map_new(m, a, c):
    return PyMap()


@mapreg("insert")
def _map_insert(m, a, c):
    mp, k, v = deref(a[0]), a[1], a[2]
    if not isinstance(mp, PyMap):
        raise Unsupported("map insert on %r" % (mp,))
    i = mp.find(k, m)
    if i >= 0:
        old = mp.pairs[i][1]
        mp.pairs[i] = (mp.pairs[i][0], v)
        return some(old)
    kd = deref(k)
    if isinstance(kd, (Adt, tuple)) and not is_sym(kd) and _user_ordered(m, kd):
        # BTreeMap keeps its keys in the order of the key type's own Ord: binary insertion with the evaluated `cmp`
        lo, hi = 0, len(mp.pairs)
        try:
            while lo < hi:
                mid = (lo + hi) // 2
                o = _cmp_vals(mp.pairs[mid][0], kd, m)
                if isinstance(o, Term):
                    raise Unsupported("symbolic key order")
                if o.variant == "Less":
                    lo = mid + 1
                else:
                    hi = mid
            mp.pairs.insert(lo, (k, v))
            return NONE
        except Unsupported:
            pass
    mp.pairs.append((k, v))
    mp.order()
    return NONE


def _user_ordered(m, k):
    """does the key (or a component of it) belong to a crate type with its own Ord impl?"""
    if isinstance(k, Adt):
        if k.path in m.facts.adts:
            return True
        return any(_user_ordered(m, deref(x)) for x in k.fields.values())
    if isinstance(k, tuple):
        return any(_user_ordered(m, deref(x)) for x in k)
    return False


@mapreg("get", "get_mut")
def _map_get(m, a, c):
    mp = deref(a[0])
    if not isinstance(mp, PyMap):
        return NOT_HANDLED
    i = mp.find(a[1], m)
    if i < 0:
        return NONE
    if c.get("name") == "get_mut":
        return some(MutRef(lambda: mp.pairs[i][1], lambda x: mp.pairs.__setitem__(i, (mp.pairs[i][0], x))))
    return some(mp.pairs[i][1])


class MapEntry(object):
    """std::collections::{btree_map, hash_map}::Entry: a map and the key asked for"""
    __slots__ = ("mp", "key")

    def __init__(self, mp, key):
        self.mp, self.key = mp, key

    def __repr__(self):
        return "entry(%r)" % (self.key,)


@mapreg("entry")
def _map_entry(m, a, c):
    mp = deref(a[0])
    if not isinstance(mp, PyMap):
        raise Unsupported("entry on %r" % (mp,))
    return MapEntry(mp, a[1])


def _entry_slot(m, e):
    i = e.mp.find(e.key, m)
    if i < 0:
        return None
    mp = e.mp
    k = mp.pairs[i][0]

    def get():
        return mp.pairs[mp.find(k, m)][1]

    def set_(x):
        j = mp.find(k, m)
        mp.pairs[j] = (mp.pairs[j][0], x)
    return MutRef(get, set_)


_ENTRY = ["std::collections::btree_map::Entry::<'a, K, V, A>::", "std::collections::btree_map::Entry::<'a, K, V>::",
          "std::collections::hash_map::Entry::<'a, K, V>::", "std::collections::hash_map::Entry::<'a, K, V, A>::"]


def _entryreg(*names):
    def deco(f):
        for pre in _ENTRY:
            for n in names:
                TABLE[pre + n] = f
        return f
    return deco


@_entryreg("and_modify")
def _entry_and_modify(m, a, c):
    e = deref(a[0])
    if not isinstance(e, MapEntry):
        raise Unsupported("and_modify on %r" % (e,))
    slot = _entry_slot(m, e)
    if slot is not None:
        m.call_value(a[1], [slot])
    return e


@_entryreg("or_insert_with", "or_insert", "or_default", "or_insert_with_key")
def _entry_or_insert(m, a, c):
    e = deref(a[0])
    if not isinstance(e, MapEntry):
        raise Unsupported("or_insert on %r" % (e,))
    slot = _entry_slot(m, e)
    if slot is None:
        nm = c.get("name")
        if nm == "or_insert":
            v = a[1]
        elif nm == "or_insert_with":
            v = m.call_value(a[1], [])
        elif nm == "or_insert_with_key":
            v = m.call_value(a[1], [e.key])
        else:
            raise Unsupported("Entry::or_default")
        _map_insert(m, [e.mp, e.key, v], c)
        slot = _entry_slot(m, e)
    return slot


@mapreg("contains_key")
def _map_contains(m, a, c):
    mp = deref(a[0])
    return mp.find(a[1], m) >= 0


@mapreg("remove")
def _map_remove(m, a, c):
    mp = deref(a[0])
    i = mp.find(a[1], m)
    if i < 0:
        return NONE
    return some(mp.pairs.pop(i)[1])


@mapreg("len")
def _map_len(m, a, c):
    return len(deref(a[0]).pairs)


@mapreg("is_empty")
def _map_is_empty(m, a, c):
    return not deref(a[0]).pairs


@mapreg("iter", "into_iter")
def _map_iter(m, a, c):
    return PyIter(list(deref(a[0]).pairs))


@mapreg("keys", "into_keys")
def _map_keys(m, a, c):
    return PyIter([k for k, _ in deref(a[0]).pairs])


@mapreg("values", "into_values")
def _map_values(m, a, c):
    return PyIter([v for _, v in deref(a[0]).pairs])


@mapreg("values_mut")
def _map_values_mut(m, a, c):
    mp = deref(a[0])

    def mk(i):
        return MutRef(lambda: mp.pairs[i][1], lambda x: mp.pairs.__setitem__(i, (mp.pairs[i][0], x)))
    return PyIter([mk(i) for i in range(len(mp.pairs))])


@mapreg("append")
def _map_append(m, a, c):
    x, y = deref(a[0]), deref(a[1])
    for k, v in y.pairs:
        _map_insert(m, [x, k, v], c)
    y.pairs[:] = []
    return ()


@mapreg("clone")
def _map_clone(m, a, c):
    return PyMap([(dcopy(k), dcopy(v)) for k, v in deref(a[0]).pairs])


@reg("std::mem::take")
def _mem_take(m, a, c):
    x = a[0]
    if isinstance(x, MutRef):
        old = x.get()
        if isinstance(old, PyMap):
            x.set(PyMap())
            return old
        if isinstance(old, PyVec) and not isinstance(old, PySet):
            x.set(PyVec())
            return old
        if is_opt(old):
            x.set(NONE)
            return old
    old = deref(x)
    if isinstance(old, PyMap):
        cp = PyMap(list(old.pairs))
        old.pairs[:] = []
        return cp
    if isinstance(old, PyVec):
        cp = PyVec(list(old.items))
        old.items[:] = []
        return cp
    raise Unsupported("mem::take of %r" % (old,))


@reg("core::str::<impl str>::get")
def _str_get(m, a, c):
    s_, r = _s(a[0]), deref(a[1])
    if not (isinstance(r, Adt) and r.path.startswith("std::ops::Range")):
        raise Unsupported("str::get with %r" % (r,))
    b = s_.encode("utf-8")
    lo = r.fields.get("start", 0)
    hi = r.fields.get("end", len(b))
    if r.path.endswith("RangeInclusive") or r.path.endswith("RangeToInclusive"):
        hi += 1
    if lo > hi or hi > len(b):
        return NONE
    for x in (lo, hi):
        if x < len(b) and (b[x] & 0xC0) == 0x80:
            return NONE
    return some(b[lo:hi].decode("utf-8"))


@reg("std::option::Option::<T>::unwrap_or_default", "std::result::Result::<T, E>::unwrap_or_default")
def _unwrap_or_default(m, a, c):
    v = deref(a[0])
    if isinstance(v, Term):
        return Term("unwrap_or_default", v)
    if v.variant in ("Some", "Ok"):
        return v.fields["0"]
    t = (c.get("targs") or [""])[0]
    c2 = {"self_ty": t, "targs": [t], "def": "std::default::Default::default", "trait": "std::default::Default",
          "name": "default"}
    r = m.call_callee(c2, [])
    return r


@reg("core::slice::<impl [T]>::contains", "std::vec::Vec::<T, A>::contains")
def _slice_contains(m, a, c):
    v, x = deref(a[0]), deref(a[1])
    if isinstance(v, Term) or is_sym(x):
        return Term("contains", v, x)
    for it in items_of(v):
        r = _eq(m, [it, x], {})
        if r is True:
            return True
        if isinstance(r, Term):
            return Term("contains", v, x)
    return False


@reg("<bitcoin::absolute::LockTime as std::fmt::Display>::fmt")
def _abs_locktime_display(m, a, c):
    """rust-bitcoin 0.32: plain form prints the consensus integer; the alternate form names the unit"""
    v, f = deref(a[0]), deref(a[1])
    n = _lock_int(v)
    if not isinstance(f, PyFmt) or n is None:
        return NOT_HANDLED
    if f.alternate:
        f.out.append("block-height %d" % n if n < 500_000_000 else "block-time %d (seconds since epoch)" % n)
    else:
        f.out.append(str(n))
    return FMT_OK


# ---- further std models (added so that a rewritten function using another std idiom is evaluated, not "unanalysable") --------

def _need_concrete(v, what):
    if is_sym(v):
        raise Unsupported("%s on a symbolic value" % what)
    return v


def _truth(m, r):
    if isinstance(r, Term):
        r = m.decide(r)
    return bool(r)


@reg("std::option::Option::<T>::filter")
def _opt_filter(m, a, c):
    v = _need_concrete(deref(a[0]), "Option::filter")
    if v.variant == "Some" and _truth(m, m.call_value(a[1], [v.fields["0"]])):
        return v
    return NONE


@reg("std::option::Option::<T>::is_some_and")
def _opt_is_some_and(m, a, c):
    v = _need_concrete(deref(a[0]), "Option::is_some_and")
    return v.variant == "Some" and _truth(m, m.call_value(a[1], [v.fields["0"]]))


@reg("std::option::Option::<T>::is_none_or")
def _opt_is_none_or(m, a, c):
    v = _need_concrete(deref(a[0]), "Option::is_none_or")
    return v.variant == "None" or _truth(m, m.call_value(a[1], [v.fields["0"]]))


@reg("std::option::Option::<T>::and")
def _opt_and(m, a, c):
    v = _need_concrete(deref(a[0]), "Option::and")
    return a[1] if v.variant == "Some" else NONE


@reg("std::option::Option::<T>::xor")
def _opt_xor(m, a, c):
    v, w = _need_concrete(deref(a[0]), "Option::xor"), _need_concrete(deref(a[1]), "Option::xor")
    if (v.variant == "Some") != (w.variant == "Some"):
        return v if v.variant == "Some" else w
    return NONE


@reg("std::option::Option::<std::option::Option<T>>::flatten")
def _opt_flatten(m, a, c):
    v = _need_concrete(deref(a[0]), "Option::flatten")
    return deref(v.fields["0"]) if v.variant == "Some" else NONE


@reg("std::result::Result::<T, E>::map_or")
def _res_map_or(m, a, c):
    v = _need_concrete(deref(a[0]), "Result::map_or")
    return m.call_value(a[2], [v.fields["0"]]) if v.variant == "Ok" else a[1]


@reg("std::result::Result::<T, E>::map_or_else")
def _res_map_or_else(m, a, c):
    v = _need_concrete(deref(a[0]), "Result::map_or_else")
    return m.call_value(a[2], [v.fields["0"]]) if v.variant == "Ok" else m.call_value(a[1], [v.fields["0"]])


@reg("std::result::Result::<T, E>::or_else")
def _res_or_else(m, a, c):
    v = _need_concrete(deref(a[0]), "Result::or_else")
    return v if v.variant == "Ok" else m.call_value(a[1], [v.fields["0"]])


@reg("std::result::Result::<T, E>::unwrap_or_else")
def _res_unwrap_or_else(m, a, c):
    v = _need_concrete(deref(a[0]), "Result::unwrap_or_else")
    return v.fields["0"] if v.variant == "Ok" else m.call_value(a[1], [v.fields["0"]])


@reg("std::result::Result::<T, E>::is_ok_and")
def _res_is_ok_and(m, a, c):
    v = _need_concrete(deref(a[0]), "Result::is_ok_and")
    return v.variant == "Ok" and _truth(m, m.call_value(a[1], [v.fields["0"]]))


@reg("std::result::Result::<T, E>::is_err_and")
def _res_is_err_and(m, a, c):
    v = _need_concrete(deref(a[0]), "Result::is_err_and")
    return v.variant == "Err" and _truth(m, m.call_value(a[1], [v.fields["0"]]))


@reg("std::result::Result::<T, E>::and")
def _res_and(m, a, c):
    v = _need_concrete(deref(a[0]), "Result::and")
    return a[1] if v.variant == "Ok" else v


@reg("std::result::Result::<T, E>::or")
def _res_or(m, a, c):
    v = _need_concrete(deref(a[0]), "Result::or")
    return v if v.variant == "Ok" else a[1]


@reg("std::result::Result::<T, E>::unwrap_err", "std::result::Result::<T, E>::expect_err")
def _res_unwrap_err(m, a, c):
    v = _need_concrete(deref(a[0]), "Result::unwrap_err")
    if v.variant == "Err":
        return v.fields["0"]
    raise Panic("unwrap_err on Ok")


@reg("std::result::Result::<T, E>::as_ref", "std::result::Result::<T, E>::as_mut", "std::result::Result::<&T, E>::copied",
     "std::result::Result::<&T, E>::cloned")
def _res_as_ref(m, a, c):
    return deref(a[0])


def _cmp_by(m, f):
    import functools

    def cmpf(x, y):
        r = deref(m.call_value(f, [x, y]))
        if isinstance(r, Term):
            raise Unsupported("symbolic ordering")
        return {"Less": -1, "Equal": 0, "Greater": 1}[r.variant]
    return functools.cmp_to_key(cmpf)


@reg("core::slice::<impl [T]>::sort_by", "std::slice::<impl [T]>::sort_by", "core::slice::<impl [T]>::sort_unstable_by")
def _sort_by(m, a, c):
    v = _need_concrete(deref(a[0]), "sort_by")
    v.items.sort(key=_cmp_by(m, a[1]))
    return ()


def _bsearch(m, v, probe):
    """the standard library's binary search; probe(item) -> Ordering of the item relative to the target"""
    size = len(v.items)
    if size == 0:
        return err(0)
    base = 0
    while size > 1:
        half = size // 2
        mid = base + half
        o = probe(v.items[mid])
        if o != "Greater":
            base = mid
        size -= half
    o = probe(v.items[base])
    if o == "Equal":
        return ok(base)
    return err(base + (1 if o == "Less" else 0))


def _ord_name(r):
    r = deref(r)
    if isinstance(r, Term):
        raise Unsupported("symbolic ordering in binary search")
    return r.variant


@reg("core::slice::<impl [T]>::binary_search_by", "std::slice::<impl [T]>::binary_search_by")
def _slice_binary_search_by(m, a, c):
    v = _need_concrete(deref(a[0]), "binary_search_by")
    return _bsearch(m, v, lambda it: _ord_name(m.call_value(a[1], [it])))


@reg("core::slice::<impl [T]>::binary_search_by_key", "std::slice::<impl [T]>::binary_search_by_key")
def _slice_binary_search_by_key(m, a, c):
    v = _need_concrete(deref(a[0]), "binary_search_by_key")
    return _bsearch(m, v, lambda it: _ord_name(_cmp_vals(m.call_value(a[2], [it]), a[1], m)))


@reg("core::slice::<impl [T]>::starts_with", "std::slice::<impl [T]>::starts_with")
def _slice_starts_with(m, a, c):
    v, w = items_of(a[0]), items_of(a[1])
    return len(w) <= len(v) and all(_keys_equal(x, y, m) for x, y in zip(v, w))


@reg("core::slice::<impl [T]>::ends_with", "std::slice::<impl [T]>::ends_with")
def _slice_ends_with(m, a, c):
    v, w = items_of(a[0]), items_of(a[1])
    return len(w) <= len(v) and all(_keys_equal(x, y, m) for x, y in zip(v[len(v) - len(w):], w))


@reg("core::slice::<impl [T]>::split_at", "std::slice::<impl [T]>::split_at")
def _slice_split_at(m, a, c):
    v = _need_concrete(deref(a[0]), "split_at")
    k = _need_concrete(deref(a[1]), "split_at")
    if k > len(v.items):
        raise Panic("split_at: mid %d > len %d" % (k, len(v.items)))
    return (PyVec(v.items[:k]), PyVec(v.items[k:]))


@reg("core::slice::<impl [T]>::split_first", "std::slice::<impl [T]>::split_first")
def _slice_split_first(m, a, c):
    v = _need_concrete(deref(a[0]), "split_first")
    return some((v.items[0], PyVec(v.items[1:]))) if v.items else NONE


@reg("core::slice::<impl [T]>::split_last", "std::slice::<impl [T]>::split_last")
def _slice_split_last(m, a, c):
    v = _need_concrete(deref(a[0]), "split_last")
    return some((v.items[-1], PyVec(v.items[:-1]))) if v.items else NONE


@reg("core::slice::<impl [T]>::chunks", "std::slice::<impl [T]>::chunks")
def _slice_chunks(m, a, c):
    v = _need_concrete(deref(a[0]), "chunks")
    k = _need_concrete(deref(a[1]), "chunks")
    if k == 0:
        raise Panic("chunk size must be non-zero")
    return PyIter([PyVec(v.items[i:i + k]) for i in range(0, len(v.items), k)])


@reg("core::slice::<impl [T]>::swap", "std::slice::<impl [T]>::swap")
def _slice_swap(m, a, c):
    v = _need_concrete(deref(a[0]), "swap")
    i, j = deref(a[1]), deref(a[2])
    if not (0 <= i < len(v.items) and 0 <= j < len(v.items)):
        raise Panic("index out of bounds in swap")
    v.items[i], v.items[j] = v.items[j], v.items[i]
    return ()


@reg("core::slice::<impl [T]>::is_sorted", "std::slice::<impl [T]>::is_sorted")
def _slice_is_sorted(m, a, c):
    v = items_of(a[0])
    for x, y in zip(v, v[1:]):
        o = _cmp_vals(x, y, m)
        if isinstance(o, Term):
            raise Unsupported("symbolic ordering in is_sorted")
        if o.variant == "Greater":
            return False
    return True


@reg("std::vec::Vec::<T, A>::retain")
def _vec_retain(m, a, c):
    v = _need_concrete(deref(a[0]), "retain")
    v.items[:] = [x for x in v.items if _truth(m, m.call_value(a[1], [x]))]
    return ()


@reg("std::vec::Vec::<T, A>::remove")
def _vec_remove(m, a, c):
    v = _need_concrete(deref(a[0]), "remove")
    i = deref(a[1])
    if not 0 <= i < len(v.items):
        raise Panic("removal index (is %d) should be < len (is %d)" % (i, len(v.items)))
    return v.items.pop(i)


@reg("std::vec::Vec::<T, A>::swap_remove")
def _vec_swap_remove(m, a, c):
    v = _need_concrete(deref(a[0]), "swap_remove")
    i = deref(a[1])
    if not 0 <= i < len(v.items):
        raise Panic("swap_remove index (is %d) should be < len (is %d)" % (i, len(v.items)))
    v.items[i], v.items[-1] = v.items[-1], v.items[i]
    return v.items.pop()


@reg("std::vec::Vec::<T, A>::clear")
def _vec_clear(m, a, c):
    v = _need_concrete(deref(a[0]), "clear")
    del v.items[:]
    return ()


@reg("std::vec::Vec::<T, A>::append")
def _vec_append(m, a, c):
    v, w = _need_concrete(deref(a[0]), "append"), _need_concrete(deref(a[1]), "append")
    v.items.extend(w.items)
    del w.items[:]
    return ()


@reg("std::vec::Vec::<T, A>::extend_from_slice")
def _vec_extend_from_slice(m, a, c):
    v = _need_concrete(deref(a[0]), "extend_from_slice")
    v.items.extend(dcopy(x) for x in items_of(a[1]))
    return ()


@reg("std::vec::Vec::<T, A>::dedup_by_key")
def _vec_dedup_by_key(m, a, c):
    v = _need_concrete(deref(a[0]), "dedup_by_key")
    out = []
    last = None
    for x in v.items:
        k = m.call_value(a[1], [x])
        if out and _keys_equal(k, last, m):
            continue
        out.append(x)
        last = k
    v.items[:] = out
    return ()
