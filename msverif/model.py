"""Symbolic model of the Miniscript AST used by the per-variant extractions."""

from .interp import Adt, Term, PyVec, PyIter

TERMINAL = "miniscript::decode::Terminal"
MS = "miniscript::private::Miniscript"
THRESH = "primitives::threshold::Threshold"
ITEM = "iter::tree::PostOrderIterItem"


def child(i):
    """opaque child fragment i"""
    return Adt(MS, "Miniscript", {"node": Term("node", i), "ty": Term("ty", i), "ext": Term("ext", i),
                                  "phantom": ()})


def key(i):
    return Term("pk", i)


def threshold(k, items):
    return Adt(THRESH, "Threshold", {"k": k, "inner": PyVec(items)})


def terminal(F, variant, n=3, k=2, sym_k=False):
    """Terminal::<variant> with opaque children / keys / payloads.
    n-ary variants get n items and threshold k (or a symbolic k)."""
    adt = F.adts[TERMINAL]
    v = [x for x in adt["variants"] if x["name"] == variant][0]
    fields = {}
    ci = 0
    kk = Term("k") if sym_k else k
    for fd in v["fields"]:
        ty = fd["ty"]
        if ty.startswith("std::sync::Arc<miniscript::private::Miniscript"):
            fields[fd["name"]] = child(ci)
            ci += 1
        elif ty.startswith("primitives::threshold::Threshold<std::sync::Arc"):
            fields[fd["name"]] = threshold(kk, [child(i) for i in range(n)])
        elif ty.startswith("primitives::threshold::Threshold<Pk"):
            fields[fd["name"]] = threshold(kk, [key(i) for i in range(n)])
        elif ty == "Pk":
            fields[fd["name"]] = key(0)
        elif "Hash" in ty or "Sha256" in ty or "Ripemd160" in ty or "hash160" in ty:
            fields[fd["name"]] = Term("hash")
        elif "LockTime" in ty:
            fields[fd["name"]] = Term("locktime")
        else:
            fields[fd["name"]] = Term("payload", fd["name"])
    return Adt(TERMINAL, variant, fields)


def arity(F, variant, n=3):
    adt = F.adts[TERMINAL]
    v = [x for x in adt["variants"] if x["name"] == variant][0]
    a = 0
    for fd in v["fields"]:
        ty = fd["ty"]
        if ty.startswith("std::sync::Arc<miniscript::private::Miniscript"):
            a += 1
        elif ty.startswith("primitives::threshold::Threshold<std::sync::Arc"):
            a += n
    return a


def key_carrying(F):
    """variants whose payload mentions Pk directly"""
    out = []
    for v in F.adts[TERMINAL]["variants"]:
        for fd in v["fields"]:
            if fd["ty"] == "Pk" or fd["ty"].startswith("primitives::threshold::Threshold<Pk"):
                out.append(v["name"])
    return out


def miniscript(node, tag="root"):
    return Adt(MS, "Miniscript", {"node": node, "ty": Term("ty", tag), "ext": Term("ext", tag), "phantom": ()})


def iter_item(ms, index=0):
    return Adt(ITEM, "PostOrderIterItem", {"node": ms, "index": index, "child_indices": PyVec([])})


def variants(F):
    return [v["name"] for v in F.adts[TERMINAL]["variants"]]
