"""Decision trees built from explored symbolic paths, and monotonicity checks over them."""

from .interp import Term


class Node(object):
    __slots__ = ("atom", "t", "f", "leaf")

    def __init__(self, atom=None, t=None, f=None, leaf=None):
        self.atom, self.t, self.f, self.leaf = atom, t, f, leaf

    def is_leaf(self):
        return self.atom is None


MISSING = Node(leaf=("missing",))


def build(paths, classify):
    """paths: [(conds, result)] from interp.explore; classify(result) -> hashable leaf label"""
    root = [None]

    def insert(slot, conds, label):
        if not conds:
            if slot[0] is None:
                slot[0] = Node(leaf=label)
            return
        (atom, d), rest = conds[0], conds[1:]
        if slot[0] is None:
            slot[0] = Node(atom=atom)
        n = slot[0]
        if n.is_leaf():
            return
        if n.atom != atom:
            raise ValueError("paths do not form a decision tree: %r vs %r" % (n.atom, atom))
        child = [n.t if d else n.f]
        insert(child, rest, label)
        if d:
            n.t = child[0]
        else:
            n.f = child[0]
    for conds, res in paths:
        insert(root, list(conds), classify(res))

    def fill(n):
        if n is None:
            return MISSING
        if not n.is_leaf():
            n.t, n.f = fill(n.t), fill(n.f)
        return n
    return fill(root[0])


def restrict(n, atom, val):
    if n.is_leaf():
        return n
    if n.atom == atom:
        return restrict(n.t if val else n.f, atom, val)
    return Node(atom=n.atom, t=restrict(n.t, atom, val), f=restrict(n.f, atom, val))


def atoms(n, out=None):
    out = out if out is not None else []
    if not n.is_leaf():
        if n.atom not in out:
            out.append(n.atom)
        atoms(n.t, out)
        atoms(n.f, out)
    return out


def leaves(n, out=None):
    out = out if out is not None else set()
    if n.is_leaf():
        out.add(n.leaf)
    else:
        leaves(n.t, out)
        leaves(n.f, out)
    return out


def implies_err(a, b, is_err, depth=0):
    """for every assignment: is_err(a) => is_err(b). returns None or a counterexample list of (atom, val)"""
    if a.is_leaf() and b.is_leaf():
        if is_err(a.leaf) and not is_err(b.leaf):
            return []
        return None
    atom = a.atom if not a.is_leaf() else b.atom
    for val in (True, False):
        cx = implies_err(restrict(a, atom, val), restrict(b, atom, val), is_err, depth + 1)
        if cx is not None:
            return [(atom, val)] + cx
    return None


def monotone(tree, atom, is_err, err_when):
    """the Err set may only grow when `atom` goes to `err_when`:
       Err(tree|atom=not err_when) => Err(tree|atom=err_when)"""
    return implies_err(restrict(tree, atom, not err_when), restrict(tree, atom, err_when), is_err)


def mentions(term, pred):
    if pred(term):
        return True
    if isinstance(term, Term):
        return any(mentions(a, pred) for a in term.args)
    if isinstance(term, tuple):
        return any(mentions(a, pred) for a in term)
    return False


def simplify(t, env):
    """partial evaluation of a boolean term under {term: bool}"""
    if isinstance(t, bool):
        return t
    for k, v in env.items():
        if t == k:
            return v
    if isinstance(t, Term):
        if t.op == "not":
            x = simplify(t.args[0], env)
            return (not x) if isinstance(x, bool) else Term("not", x)
        if t.op == "and":
            a, b = simplify(t.args[0], env), simplify(t.args[1], env)
            if a is False or b is False:
                return False
            if a is True:
                return b
            if b is True:
                return a
            return Term("and", a, b)
        if t.op == "or":
            a, b = simplify(t.args[0], env), simplify(t.args[1], env)
            if a is True or b is True:
                return True
            if a is False:
                return b
            if b is False:
                return a
            return Term("or", a, b)
    return t


def assign(n, env):
    """the tree under a partial assignment of (sub)terms of its atoms"""
    if n.is_leaf():
        return n
    a = simplify(n.atom, env)
    if a is True:
        return assign(n.t, env)
    if a is False:
        return assign(n.f, env)
    return Node(atom=a, t=assign(n.t, env), f=assign(n.f, env))
