"""Fact generation (runs the factgen rustc driver over /repo's current working
tree) and indexed access to the generated facts."""

import fcntl
import glob
import hashlib
import json
import os
import shutil
import subprocess
import sys
import time

VERIF = os.path.dirname(os.path.dirname(os.path.abspath(__file__)))
REPO = os.environ.get("VERIF_REPO", "/repo")
CACHE = os.path.join(VERIF, ".cache")
DRIVER = os.path.join(VERIF, "factgen", "target", "release", "factgen")

CONFIGS = {
    # name -> cargo feature arguments
    "default": ["--features", "compiler"],
    "nostd": ["--no-default-features", "--features", "compiler"],
    "all": ["--all-features"],
}


def _nightly_sysroot():
    return subprocess.check_output(["rustc", "+nightly", "--print", "sysroot"], text=True).strip()


def source_hash(repo=REPO):
    h = hashlib.sha256()
    files = sorted(glob.glob(os.path.join(repo, "src", "**", "*.rs"), recursive=True))
    files += [os.path.join(repo, "Cargo.toml"), os.path.join(repo, "Cargo.lock")]
    for f in files:
        if not os.path.exists(f):
            continue
        h.update(os.path.relpath(f, repo).encode())
        h.update(b"\0")
        with open(f, "rb") as fh:
            h.update(fh.read())
        h.update(b"\0")
    with open(DRIVER, "rb") as fh:
        h.update(hashlib.sha256(fh.read()).digest())
    return h.hexdigest()[:24]


def build_driver():
    if os.path.exists(DRIVER):
        srcs = glob.glob(os.path.join(VERIF, "factgen", "src", "*.rs"))
        if all(os.path.getmtime(s) <= os.path.getmtime(DRIVER) for s in srcs):
            return
    env = dict(os.environ, CARGO_NET_OFFLINE="true")
    subprocess.check_call(
        ["cargo", "+nightly", "build", "--offline", "--release"],
        cwd=os.path.join(VERIF, "factgen"), env=env,
        stdout=subprocess.DEVNULL, stderr=subprocess.DEVNULL)


def generate(config="default", repo=REPO, quiet=True):
    """Run the driver over `repo` and return the path of the fact file.
    Cached by the hash of the sources; the cache entry is written only by a
    driver invocation of this function (the file is removed first and must
    exist afterwards)."""
    os.makedirs(CACHE, exist_ok=True)
    build_driver()
    lock = open(os.path.join(CACHE, "lock"), "w")
    fcntl.flock(lock, fcntl.LOCK_EX)
    try:
        sh = source_hash(repo)
        out = os.path.join(CACHE, "facts-%s-%s.json" % (config, sh))
        if os.path.exists(out) and os.path.getsize(out) > 1000:
            return out
        tmp = out + ".tmp"
        if os.path.exists(tmp):
            os.remove(tmp)
        target = os.path.join(CACHE, "target-" + config)
        # cargo's freshness cache would skip the wrapper: drop the member's
        # fingerprints so the crate is always re-checked.
        for fp in glob.glob(os.path.join(target, "debug", ".fingerprint", "miniscript-*")):
            shutil.rmtree(fp, ignore_errors=True)
        env = dict(os.environ)
        env.update({
            "CARGO_NET_OFFLINE": "true",
            "LD_LIBRARY_PATH": os.path.join(_nightly_sysroot(), "lib"),
            "RUSTFLAGS": "-Awarnings",
            "RUSTC_WORKSPACE_WRAPPER": DRIVER,
            "FACTGEN_OUT": tmp,
            "FACTGEN_CRATE": "miniscript",
            "CARGO_TARGET_DIR": target,
        })
        env.pop("RUSTC_WRAPPER", None)
        cmd = ["cargo", "+nightly", "check", "--offline", "--lib"] + CONFIGS[config]
        t0 = time.time()
        p = subprocess.run(cmd, cwd=repo, env=env, stdout=subprocess.PIPE,
                           stderr=subprocess.STDOUT, text=True)
        if p.returncode != 0 or not os.path.exists(tmp):
            sys.stderr.write(p.stdout[-6000:])
            raise RuntimeError("fact generation failed (config=%s, rc=%s); the tree does not "
                               "build or the driver did not run" % (config, p.returncode))
        os.replace(tmp, out)
        if not quiet:
            sys.stderr.write("facts[%s] generated in %.1fs\n" % (config, time.time() - t0))
        # keep the cache small
        olds = sorted(glob.glob(os.path.join(CACHE, "facts-%s-*.json" % config)), key=os.path.getmtime)
        for o in olds[:-int(os.environ.get("MSVERIF_CACHE_KEEP", "4")):]:
            os.remove(o)
        return out
    finally:
        fcntl.flock(lock, fcntl.LOCK_UN)
        lock.close()


class Facts:
    def __init__(self, path):
        with open(path) as fh:
            d = json.load(fh)
        self.path = path
        self.raw = d
        self.types = d["types"]
        self.adts = {a["path"]: a for a in d["adts"]}
        self.impls = d["impls"]
        self.traits = {t["path"]: t for t in d["traits"]}
        self.fns = {f["path"]: f for f in d["fns"]}
        self.consts = {c["path"]: c for c in d["consts"]}
        self.bodies = {}
        for b in d["bodies"]:
            # closures of the same parent get distinct {closure#n} paths
            self.bodies[b["path"]] = b

    def ty(self, ix):
        return self.types[ix] if isinstance(ix, int) else ix

    def body(self, path):
        b = self.bodies.get(path)
        if b is None:
            raise KeyError("no body for %s" % path)
        return b

    def has(self, path):
        return path in self.bodies

    def thir(self, path):
        return self.body(path)["thir"]

    def mir(self, path):
        return self.body(path)["mir"]

    def adt(self, path):
        return self.adts[path]

    def variants(self, adt_path):
        return [v["name"] for v in self.adts[adt_path]["variants"]]

    def fn(self, name, file=None, container=None, allow_many=False):
        """Resolve a function by (method name, source file suffix, substring of its impl/trait
        container). Exactly one match is required unless allow_many."""
        out = []
        for p, f in self.fns.items():
            if f.get("name") != name or f.get("kind") == "Closure":
                continue
            if file is not None and not f["span"].split(":")[0].endswith(file):
                continue
            if container is not None:
                c = f.get("container") or ""
                if isinstance(container, (list, tuple)):
                    if not all(x in c for x in container):
                        continue
                elif container not in c:
                    continue
            out.append(p)
        if allow_many:
            return sorted(out)
        if len(out) == 1:
            self._record_anchor(name, file, container, out[0])
        if not out:
            r = self._renamed(name, file, container)
            if r is not None:
                return r
        if len(out) != 1:
            raise KeyError("function %s (file=%s, container=%s): %d matches %s"
                           % (name, file, container, len(out), out[:4]))
        return out[0]

    # ---- private anchors that were renamed ------------------------------------------------------------------------
    # anchors.json (committed; written by tools/mkanchors.py from a run on the confirmed tree) records, for every
    # anchor resolved by name, its file, container, visibility and signature.  When a *private* anchor's name is gone
    # the function of the same file / container / signature that is not itself a recorded name takes its place,
    # provided it is unique; anything else stays a missing anchor (fail closed).

    def sig(self, f):
        return [[self.ty(i) for i in f.get("inputs", [])], self.ty(f.get("output")), f.get("generics", []),
                f.get("container") or ""]

    def _record_anchor(self, name, file, container, path):
        if os.environ.get("MSVERIF_RECORD_ANCHORS"):
            f = self.fns[path]
            key = json.dumps([name, file, container])
            RECORDED[key] = {"vis": f.get("vis"), "sig": self.sig(f), "file": f["span"].split(":")[0]}

    def _renamed(self, name, file, container):
        tab = anchor_table()
        ent = tab.get(json.dumps([name, file, container]))
        if ent is None or ent["vis"] == "pub":
            return None
        known = set(json.loads(k)[0] for k in tab)
        cands = []
        for p, f in self.fns.items():
            if f.get("kind") == "Closure" or f["span"].split(":")[0] != ent["file"] or f.get("name") in known:
                continue
            if self.sig(f) == ent["sig"]:
                cands.append(p)
        if len(cands) == 1:
            self.renamed_anchors[name] = cands[0]
            return cands[0]
        return None

    renamed_anchors = {}

    def closures_of(self, path):
        return sorted(p for p in self.bodies if p.startswith(path + "::{closure"))

    def find_fns(self, pred):
        return [p for p in self.fns if pred(p)]

    def impls_of(self, trait=None, self_adt=None):
        out = []
        for i in self.impls:
            if trait is not None and i["trait"] != trait:
                continue
            if self_adt is not None and i["self_adt"] != self_adt:
                continue
            out.append(i)
        return out


_loaded = {}
RECORDED = {}
_ANCHORS = [None]


def anchor_table():
    if _ANCHORS[0] is None:
        try:
            with open(os.path.join(VERIF, "anchors.json")) as fh:
                _ANCHORS[0] = json.load(fh)
        except (OSError, ValueError):
            _ANCHORS[0] = {}
    return _ANCHORS[0]


def save_recorded():
    if not RECORDED:
        return
    path = os.path.join(VERIF, "anchors.json")
    lock = open(os.path.join(CACHE, "anchors.lock"), "w")
    fcntl.flock(lock, fcntl.LOCK_EX)
    try:
        try:
            with open(path) as fh:
                cur = json.load(fh)
        except (OSError, ValueError):
            cur = {}
        cur.update(RECORDED)
        with open(path, "w") as fh:
            json.dump(cur, fh, indent=0, sort_keys=True)
    finally:
        fcntl.flock(lock, fcntl.LOCK_UN)
        lock.close()


import atexit
atexit.register(save_recorded)


def load(config="default", repo=REPO):
    key = (config, repo)
    if key not in _loaded:
        _loaded[key] = Facts(generate(config, repo))
    return _loaded[key]
