"""Helpers for symbolic extraction: tree walkers over THIR JSON and Term utilities."""

import re

from .interp import Term, Adt, PyVec, PyIter, pat_str


def walk(node, f):
    """pre-order walk over THIR JSON; f(node) for every dict node"""
    if isinstance(node, dict):
        f(node)
        for v in node.values():
            walk(v, f)
    elif isinstance(node, list):
        for v in node:
            walk(v, f)


def find_nodes(node, pred):
    out = []

    def f(n):
        try:
            if pred(n):
                out.append(n)
        except (KeyError, TypeError):
            pass
    walk(node, f)
    return out


def calls_in(node):
    """all resolved callees in a THIR tree: list of (path, node)"""
    out = []

    def f(n):
        if n.get("k") == "call" and "callee" in n:
            c = n["callee"]
            out.append((c.get("resolved") or c.get("def"), n))
    walk(node, f)
    return out


def subterms(v):
    """all Terms (and values) nested in a value, pre-order"""
    out = []

    def go(x):
        out.append(x)
        if isinstance(x, Term):
            for a in x.args:
                go(a)
        elif isinstance(x, Adt):
            for a in x.fields.values():
                go(a)
        elif isinstance(x, (tuple, list)):
            for a in x:
                go(a)
        elif isinstance(x, PyVec):
            for a in x.items:
                go(a)
        elif isinstance(x, PyIter):
            for a in x.items:
                go(a)
    go(v)
    return out


def match_arms(match_node):
    """[(pattern, guard, body, span)]"""
    return [(a["pat"], a["guard"], a["body"], a.get("sp", "")) for a in match_node["arms"]]


def pat_variants(pat, adt=None):
    """set of variant names a pattern can match at its top (None = wildcard/binding)"""
    k = pat["k"]
    if k in ("wild", "missing"):
        return None
    if k == "bind":
        if "sub" in pat:
            return pat_variants(pat["sub"], adt)
        return None
    if k in ("deref", "deref_pattern"):
        return pat_variants(pat["sub"], adt)
    if k == "variant":
        if adt is None or pat["adt"] == adt:
            return {pat["variant"]}
        return None
    if k == "or":
        out = set()
        for p in pat["pats"]:
            v = pat_variants(p, adt)
            if v is None:
                return None
            out |= v
        return out
    if k == "guard":
        return pat_variants(pat["sub"], adt)
    return None


def find_matches_on(body, adt, min_arms=2):
    """match expressions whose arms' top-level patterns are variants of `adt`"""
    out = []
    for n in find_nodes(body, lambda n: n.get("k") == "match"):
        cnt = 0
        for a in n["arms"]:
            v = pat_variants(a["pat"], adt)
            if v:
                top = strip_pat(a["pat"])
                if top["k"] == "variant" and top["adt"] == adt or top["k"] == "or":
                    cnt += 1
        if cnt >= min_arms:
            out.append(n)
    return out


def strip_pat(p):
    while p["k"] in ("deref", "deref_pattern") or (p["k"] == "bind" and "sub" in p):
        p = p["sub"]
    return p


def bindings(pat):
    """[(name, id, field path)] bound by a pattern"""
    out = []

    def go(p, path):
        k = p["k"]
        if k == "bind":
            out.append((p["name"], p["id"], tuple(path)))
            if "sub" in p:
                go(p["sub"], path)
        elif k in ("deref", "deref_pattern", "guard"):
            go(p["sub"], path)
        elif k in ("variant", "leaf"):
            for s in p["subs"]:
                go(s["pat"], path + [s["name"]])
        elif k == "or":
            for q in p["pats"]:
                go(q, path)
        elif k == "slice":
            for q in p["prefix"] + p["suffix"]:
                go(q, path + ["[]"])
            if p["slice"]:
                go(p["slice"], path + ["[..]"])
    go(pat, [])
    return out


def callsites(F, path):
    """call sites of a function body (closures of the function included):
    [{callee, name, container, args, sp, node}]"""
    out = []
    bodies = [path] + F.closures_of(path)
    for bp in bodies:
        th = F.bodies[bp]["thir"]
        if th is None:
            continue
        for n in find_nodes(th["body"], lambda n: n.get("k") == "call" and "callee" in n):
            c = n["callee"]
            out.append({"callee": c.get("resolved") or c.get("def"), "def": c.get("def"),
                        "name": c.get("name"), "container": c.get("container"), "trait": c.get("trait"),
                        "args": n["args"], "sp": n.get("sp", ""), "node": n, "in": bp})
    return out


def param_names(F, path):
    th = F.bodies[path]["thir"]
    out = []
    for p in th["params"]:
        pat = p["pat"]
        while pat is not None and pat["k"] in ("deref",):
            pat = pat["sub"]
        out.append(pat["name"] if pat is not None and pat["k"] == "bind" else None)
    return out


def strip_expr(e):
    """peel borrows / derefs / coercions / blocks with a single tail expression"""
    while True:
        k = e.get("k")
        if k in ("borrow", "deref", "coerce", "never_to_any", "raw_borrow", "cast"):
            e = e["e"]
        elif k == "block" and not e["b"]["stmts"] and e["b"]["expr"] is not None:
            e = e["b"]["expr"]
        else:
            return e

