def check_limits(chk, F):
    pass
