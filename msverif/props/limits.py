"""R09.2 / R09.3 / R09.5: which figure is compared with which limit, per-context limit tables, placeholder sizes."""

import os
import re
import sys

from .. import model, symx, dtree, linform
from ..interp import Machine, Adt, Term, PyVec, PyIter, Panic, explore, RESULT
from ..report import Unsupported

sys.path.insert(0, os.path.join(os.path.dirname(__file__), "..", ".."))
from spec import limits as spec  # noqa: E402

FIGURES = {
    # limit parameter -> names that must occur in the compared figure
    "max_recursive_depth": ["tree_height"],
    "max_script_size": ["script_size"],
    "max_witness_items": ["max_satisfaction_witness_elements"],
    "max_opcode_count": ["sat_op_count"],
    "max_exec_stack_size": ["max_witness_stack_count", "max_exec_stack_count"],
}

# per context: (function, figure names, limit, error)
CONTEXT_LIMITS = {
    "Legacy": [("check_global_consensus_validity", ["pk_cost"], spec.MAX_SCRIPT_ELEMENT_SIZE, "MaxRedeemScriptSizeExceeded"),
               ("check_local_consensus_validity", ["sat_op_count"], spec.MAX_OPS_PER_SCRIPT, "MaxOpCountExceeded"),
               # the scriptSig of a P2SH spend is the satisfaction *and* the push of the redeem script: Bitcoin Core's
               # 1650-byte standardness limit is on the whole of it
               ("check_local_policy_validity", ["max_satisfaction_size", "script_size", "push_opcode_size"], spec.MAX_SCRIPTSIG_SIZE,
                "MaxScriptSigSizeExceeded")],
    "Segwitv0": [("check_global_consensus_validity", ["pk_cost"], spec.MAX_SCRIPT_SIZE, "MaxWitnessScriptSizeExceeded"),
                 ("check_global_policy_validity", ["pk_cost"], spec.MAX_STANDARD_P2WSH_SCRIPT_SIZE, "MaxWitnessScriptSizeExceeded"),
                 ("check_local_consensus_validity", ["sat_op_count"], spec.MAX_OPS_PER_SCRIPT, "MaxOpCountExceeded"),
                 ("check_local_policy_validity", ["max_satisfaction_witness_elements"], spec.MAX_STANDARD_P2WSH_STACK_ITEMS,
                  "MaxWitnessItemsExceeded")],
    "Tap": [("check_global_consensus_validity", ["pk_cost"], spec.MAX_BLOCK_WEIGHT, "MaxWitnessScriptSizeExceeded"),
            ("check_local_consensus_validity", ["max_witness_stack_count", "max_exec_stack_count"], spec.MAX_STACK_SIZE,
             "StackSizeLimitExceeded")],
    "BareCtx": [("check_global_consensus_validity", ["pk_cost"], spec.MAX_SCRIPT_SIZE, "MaxBareScriptSizeExceeded"),
                ("check_local_consensus_validity", ["sat_op_count"], spec.MAX_OPS_PER_SCRIPT, "MaxOpCountExceeded")],
}


def ms_value():
    sat = Adt("miniscript::types::extra_props::SatData", "SatData",
              {f: Term(f) for f in ("max_witness_stack_size", "max_witness_stack_count", "max_script_sig_size",
                                    "max_exec_stack_count", "max_exec_op_count")})
    ext = Adt("miniscript::types::extra_props::ExtData", "ExtData", {
        "pk_cost": Term("pk_cost"), "has_free_verify": Term("hfv"), "static_ops": Term("static_ops"),
        "sat_data": Adt("std::option::Option", "Some", {"0": sat}), "dissat_data": Term("dissat_data"),
        "timelock_info": Term("tl"), "tree_height": Term("tree_height")})
    return Adt(model.MS, "Miniscript", {"node": Adt(model.TERMINAL, "False"), "ty": Term("ty"), "ext": ext, "phantom": ()})


def err_info(res):
    """(error variant, {payload field: term}) of an Err result"""
    e = None
    if isinstance(res, Adt) and res.path == RESULT and res.variant == "Err":
        e = res.fields["0"]
    if isinstance(e, Adt):
        return e.variant, dict(e.fields)
    return None, {}


def comparisons(conds):
    """[(figure term, limit, strict)] of the true `figure > limit` decisions on a path"""
    out = []
    for atom, d in conds:
        for t in (flatten_and(atom) if d else [atom]):
            dd = d
            while isinstance(t, Term) and t.op == "not" and len(t.args) == 1:
                t, dd = t.args[0], not dd
            if not (isinstance(t, Term) and len(t.args) == 2):
                continue
            # the decision as a strict `figure > limit`: a > b, b < a, not (a <= b), not (b >= a)
            if (t.op, dd) in (("gt", True), ("le", False)):
                fig, lim = t.args[0], t.args[1]
            elif (t.op, dd) in (("lt", True), ("ge", False)):
                fig, lim = t.args[1], t.args[0]
            else:
                continue
            if isinstance(fig, int):
                continue   # a gate such as `limit < usize::MAX`, not a figure
            out.append((fig, lim))
    return out


def flatten_and(t):
    if isinstance(t, Term) and t.op == "and":
        return flatten_and(t.args[0]) + flatten_and(t.args[1])
    return [t]


def names_in(t):
    return set(re.findall(r"[a-z_]{4,}", repr(t)))


def check_limits(chk, F):
    check_param_limits(chk, F)
    check_context_limits(chk, F)
    check_item_sizes(chk, F)


def check_param_limits(chk, F):
    rid = "R09.2"
    chk.rule(rid, "validate_non_top_level compares each limit with its own figure (script size <-> max_script_size, "
                  "witness elements <-> max_witness_items, executed ops <-> max_opcode_count, witness + exec stack <-> "
                  "max_exec_stack_size, tree height <-> max_recursive_depth) and reports the compared figure as `actual`")
    from . import c12
    try:
        vntl = F.fn("validate_non_top_level", file="miniscript/mod.rs", container="Miniscript")
        iterp = F.fn("iter", file="miniscript/iter.rs", container="Miniscript")
    except KeyError as e:
        chk.fail(rid, "anchors", "missing anchor %s" % e, kind="unanalysable")
        return
    chk.saw(vntl)
    where = F.fns[vntl]["span"]
    preds = ("has_repeated_keys", "has_mixed_timelocks", "script_size", "max_satisfaction_witness_elements",
             "sat_op_count")
    ms = ms_value()
    m = Machine(F, strict=False, hooks={iterp: lambda mm, a, c: PyIter([])},
                uninterpreted=lambda p, c: c.get("name") in preds)
    P = c12.sym_params()
    try:
        paths = explore(m, lambda: m.call_path(vntl, [ms, P]), max_paths=20000)
    except Unsupported as e:
        chk.fail(rid, "unanalysable", "unanalysable: %s" % e, where, kind="unanalysable")
        return
    seen = set()
    for conds, res in paths:
        ev, payload = err_info(res)
        if ev is None or ev not in spec.LIMIT_ERRORS.values():
            continue
        field = [f for f, e in spec.LIMIT_ERRORS.items() if e == ev][0]
        cmps = [(fig, lim) for fig, lim in comparisons(conds[-1:]) if c12.is_param(lim, field)]
        if not cmps:
            chk.fail(rid, "pair|" + field, "error %s is raised without comparing a figure with %s (last decision %r)"
                     % (ev, field, conds[-1:] and conds[-1][0]), where)
            continue
        fig, lim = cmps[0]
        seen.add(field)
        need = FIGURES[field]
        have = names_in(fig)
        chk.obligation(rid, all(n in have for n in need), "pair|" + field,
                       "limit %s is compared with %r; it must bound %s" % (field, fig, " + ".join(need)), where,
                       detail={"limit": field, "figure": repr(fig)})
        if "actual" in payload:
            chk.obligation(rid, strip_unwrap(payload["actual"]) == strip_unwrap(fig), "actual|" + field,
                           "%s reports actual = %r but the figure compared with the limit is %r"
                           % (ev, payload["actual"], fig), where,
                           detail={"error": ev, "actual": repr(payload["actual"]), "compared": repr(fig)})
        if "limit" in payload:
            chk.obligation(rid, payload["limit"] == lim, "limitpayload|" + field,
                           "%s reports limit = %r, compared with %r" % (ev, payload["limit"], lim), where)
    chk.obligation(rid, seen == set(spec.LIMIT_ERRORS), "coverage",
                   "limits with an enforcing comparison: %s (expected %s)" % (sorted(seen), sorted(spec.LIMIT_ERRORS)), where)
    chk.floor(rid, "limit comparisons", len(seen), 5)


def strip_unwrap(t):
    return t


def check_context_limits(chk, F):
    rid = "R09.3"
    chk.rule(rid, "per-context resource checks compare the right figure with Bitcoin's limit for that context "
                  "(520 / 201 / 1650 P2SH; 10000, 3600, 100, 201 P2WSH; 1000 stack, block weight Tapscript; 10000 / 201 bare)")
    for ctx, table in CONTEXT_LIMITS.items():
        fns = set(t[0] for t in table) | {"check_global_consensus_validity", "check_global_policy_validity",
                                          "check_local_consensus_validity", "check_local_policy_validity"}
        found = []
        for fname in sorted(fns):
            ps = [p for p in F.fn(fname, file="miniscript/context.rs", allow_many=True) if ("::%s as " % ctx) in p]
            if not ps:
                continue   # default implementation: no check
            p = ps[0]
            chk.saw(p)
            where = F.fns[p]["span"]
            m = Machine(F, strict=False,
                        uninterpreted=lambda pp, c: c.get("name") in ("max_satisfaction_size", "sat_op_count", "script_size",
                                                                       "push_opcode_size",
                                                                       "max_satisfaction_witness_elements", "to_wu"))
            try:
                paths = explore(m, lambda: m.call_path(p, [ms_value()]))
            except Unsupported as e:
                chk.fail(rid, "%s|%s|unanalysable" % (ctx, fname), "unanalysable: %s" % e, where, kind="unanalysable")
                continue
            for conds, res in paths:
                ev, payload = err_info(res)
                if ev is None or ev == "ImpossibleSatisfaction":
                    continue
                cmps = comparisons(conds[-1:])
                if not cmps:
                    chk.fail(rid, "%s|%s|%s" % (ctx, fname, ev), "%s::%s raises %s without a `figure > limit` comparison"
                             % (ctx, fname, ev), where)
                    continue
                fig, lim = cmps[0]
                limv = lim if isinstance(lim, int) else (spec.MAX_BLOCK_WEIGHT if "MAX_BLOCK" in repr(lim) or "to_wu" in repr(lim) else repr(lim))
                found.append((fname, fig, limv, ev, payload, where))
        for fname, need, limit, errname in table:
            hits = [x for x in found if x[0] == fname and x[3] == errname]
            key = "%s|%s|%s" % (ctx, fname, errname)
            if not hits:
                chk.fail(rid, key, "%s::%s no longer enforces %s <= %d (%s)" % (ctx, fname, "+".join(need), limit, errname),
                         kind="violation")
                continue
            _, fig, limv, ev, payload, where = hits[0]
            have = names_in(fig)
            chk.obligation(rid, all(n in have for n in need), key + "|figure",
                           "%s::%s compares %r with its limit; it must bound %s" % (ctx, fname, fig, " + ".join(need)), where,
                           detail={"context": ctx, "function": fname, "figure": repr(fig)})
            chk.obligation(rid, isinstance(limv, int) and limv <= limit, key + "|limit",
                           "%s::%s uses the limit %r; Bitcoin's limit is %d" % (ctx, fname, limv, limit), where)
            for k in ("actual", "got"):
                if k in payload:
                    chk.obligation(rid, names_in(payload[k]) >= set(need) or payload[k] == fig, key + "|actual",
                                   "%s reports %s = %r but compares %r" % (ev, k, payload[k], fig), where)
        extra = [x for x in found if not any(x[0] == t[0] and x[3] == t[3] for t in table)]
        chk.obligation(rid, not extra, ctx + "|extra",
                       "%s has limit checks the oracle does not know: %r" % (ctx, [(x[0], x[3]) for x in extra]))
    chk.sample({"context limit table": {k: [(t[0], "+".join(t[1]), t[2]) for t in v] for k, v in CONTEXT_LIMITS.items()}})
    check_context_limit_grids(chk, F, rid)
    # the P2SH scriptSig limit on numbers: satisfaction + push of the redeem script against 1650, across the boundary
    try:
        p = [q for q in F.fn("check_local_policy_validity", file="miniscript/context.rs", allow_many=True) if "::Legacy as " in q][0]
    except (KeyError, IndexError):
        chk.fail(rid, "Legacy|scriptsig-grid|anchor", "Legacy::check_local_policy_validity not found", kind="unanalysable")
        return
    from ..interp import ok as ok_
    cur = {}
    hooks = {}
    for q in F.fns:
        if q.endswith("::max_satisfaction_size") and "Miniscript" in q:
            hooks[q] = lambda m_, a, c: ok_(cur["sat"])
        if q.endswith("Miniscript<Pk, Ctx>>::script_size"):
            hooks[q] = lambda m_, a, c: cur["script"]
    m = Machine(F, strict=True, hooks=hooks)
    n = 0
    for sat, script in [(0, 0), (1498, 350), (1100, 513), (1127, 520), (1128, 520), (1650, 0), (1649, 0), (1573, 75), (1574, 75),
                        (1572, 76), (1571, 76), (1393, 254), (1394, 255), (1392, 256), (1391, 256), (2000, 10)]:
        cur.update(sat=sat, script=script)
        total = sat + script + (1 if script < 76 else 2 if script < 256 else 3)
        try:
            r = m.call_path(p, [ms_value()])
            n += 1
            chk.obligation(rid, (r.variant == "Err") == (total > spec.MAX_SCRIPTSIG_SIZE), "Legacy|scriptsig-grid|%d+%d" % (sat, script),
                           "a P2SH miniscript whose satisfaction takes %d bytes and whose redeem script is %d bytes long has a %d-byte "
                           "scriptSig (limit %d); Legacy::check_local_policy_validity answers %s"
                           % (sat, script, total, spec.MAX_SCRIPTSIG_SIZE, r.variant), F.fns[p]["span"])
        except Unsupported as e:
            chk.fail(rid, "Legacy|scriptsig-grid|unanalysable", "unanalysable: %s" % e, where=e.where, kind="unanalysable")
            break
        except Panic as e:
            chk.fail(rid, "Legacy|scriptsig-grid|%d+%d" % (sat, script), "panic: %s" % e, F.fns[p]["span"])
    chk.floor(rid, "scriptSig grid", n, 16)


# figure kind per (context, function): how the bounded quantity is fed to the check on numbers
NUMERIC_LIMITS = {
    "Legacy": [("check_global_consensus_validity", "pk_cost", spec.MAX_SCRIPT_ELEMENT_SIZE),
               ("check_local_consensus_validity", "ops", spec.MAX_OPS_PER_SCRIPT)],
    "Segwitv0": [("check_global_consensus_validity", "pk_cost", spec.MAX_SCRIPT_SIZE),
                 ("check_global_policy_validity", "pk_cost", spec.MAX_STANDARD_P2WSH_SCRIPT_SIZE),
                 ("check_local_consensus_validity", "ops", spec.MAX_OPS_PER_SCRIPT),
                 ("check_local_policy_validity", "witness_elements", spec.MAX_STANDARD_P2WSH_STACK_ITEMS)],
    "Tap": [("check_global_consensus_validity", "pk_cost", spec.MAX_BLOCK_WEIGHT),
            # BIP-342: the stack - what the witness brings plus what execution adds on top - holds at most 1000 elements
            ("check_local_consensus_validity", "stack_sum", spec.MAX_STACK_SIZE)],
    "BareCtx": [("check_global_consensus_validity", "pk_cost", spec.MAX_SCRIPT_SIZE),
                ("check_local_consensus_validity", "ops", spec.MAX_OPS_PER_SCRIPT)],
}


def check_context_limit_grids(chk, F, rid):
    """each per-context resource check on numbers across its limit (the figure rule above reads names only)"""
    from ..interp import ok as ok_, some as some_
    cur = {}
    hooks = {"bitcoin::Weight::to_wu": lambda m_, a, c: spec.MAX_BLOCK_WEIGHT}
    for q in F.fns:
        if q.endswith("ExtData::sat_op_count"):
            hooks[q] = lambda m_, a, c: some_(cur["ops"])
        if q.endswith("::max_satisfaction_witness_elements") and "Miniscript" in q:
            hooks[q] = lambda m_, a, c: ok_(cur["witness_elements"])
    m = Machine(F, strict=True, hooks=hooks)
    n = 0
    for ctx, table in NUMERIC_LIMITS.items():
        for fname, kind, limit in table:
            ps = [p for p in F.fn(fname, file="miniscript/context.rs", allow_many=True) if ("::%s as " % ctx) in p]
            if not ps:
                chk.fail(rid, "%s|%s|grid|anchor" % (ctx, fname), "%s::%s not found" % (ctx, fname), kind="unanalysable")
                continue
            if kind == "stack_sum":
                grid = [(limit - 2, 2), (limit - 1, 2), (limit, 0), (limit, 1), (0, limit), (0, limit + 1), (limit // 2, limit // 2),
                        (limit // 2, limit // 2 + 1), (limit - 100, 100), (limit - 100, 101), (3, 2)]
            else:
                grid = [(0, 0), (limit - 1, 0), (limit, 0), (limit + 1, 0), (2 * limit, 0)]
            for a, b in grid:
                cur.update(ops=0, witness_elements=0)
                sat = {"max_witness_stack_size": 0, "max_witness_stack_count": 0, "max_script_sig_size": 0, "max_exec_stack_count": 0,
                       "max_exec_op_count": 0}
                pk_cost = 0
                if kind == "pk_cost":
                    pk_cost = a
                elif kind == "stack_sum":
                    sat["max_witness_stack_count"], sat["max_exec_stack_count"] = a, b
                else:
                    cur[kind] = a
                v = ms_value()
                v.fields["ext"].fields["pk_cost"] = pk_cost
                v.fields["ext"].fields["sat_data"] = Adt("std::option::Option", "Some", {"0": Adt(
                    "miniscript::types::extra_props::SatData", "SatData", sat)})
                key = "%s|%s|grid|%d+%d" % (ctx, fname, a, b)
                try:
                    r = m.call_path(ps[0], [v])
                    n += 1
                    chk.obligation(rid, (r.variant == "Err") == (a + b > limit), key,
                                   "%s::%s with %s = %s (limit %d) answers %s" % (ctx, fname, kind, "%d + %d" % (a, b) if kind == "stack_sum" else a,
                                                                                 limit, r.variant), F.fns[ps[0]]["span"])
                except Unsupported as e:
                    chk.fail(rid, "%s|%s|grid|unanalysable" % (ctx, fname), "unanalysable: %s" % e, where=e.where, kind="unanalysable")
                    break
                except Panic as e:
                    chk.fail(rid, key, "panic: %s" % e, F.fns[ps[0]]["span"])
    chk.floor(rid, "limit grid points", n, 50)


def check_item_sizes(chk, F):
    rid = "R09.5"
    chk.rule(rid, "ItemSize of every Placeholder variant = serialized size of what it stands for: sig 73 / size+1, "
                  "hash preimage 33, `0` 1, `1` 2, key = recorded size, tap script / control block = len + varint(len)")
    PH = "miniscript::satisfy::Placeholder"
    try:
        sizep = [it["path"] for i in F.impls if i["trait"] == "util::ItemSize" and i["self_adt"] == PH
                 for it in i["items"] if it["name"] == "size"][0]
    except IndexError:
        chk.fail(rid, "anchor", "ItemSize for Placeholder not found", kind="unanalysable")
        return
    chk.saw(sizep)
    where = F.fns[sizep]["span"]
    want = {
        "Pubkey": {"size": 1}, "PubkeyHash": {"size": 1}, "EcdsaSigPk": {1: 73}, "EcdsaSigPkHash": {1: 73},
        "SchnorrSigPk": {"size": 1, 1: 1}, "SchnorrSigPkHash": {"size": 1, 1: 1},
        "Sha256Preimage": {1: 33}, "Hash256Preimage": {1: 33}, "Ripemd160Preimage": {1: 33}, "Hash160Preimage": {1: 33},
        "HashDissatisfaction": {1: 33}, "PushOne": {1: 2}, "PushZero": {1: 1},
        "TapScript": {"len": 1, "varint(len)": 1}, "TapControlBlock": {"len": 1, "varint(len)": 1},
    }
    variants = F.adts[PH]["variants"]
    chk.floor(rid, "Placeholder variants", len(variants), 15)
    for v in variants:
        name = v["name"]
        fields = {}
        for i, fd in enumerate(v["fields"]):
            fields[fd["name"]] = Term("size") if fd["ty"] == "usize" else Term("data", i)
        val = Adt(PH, name, fields)
        m = Machine(F, strict=False, uninterpreted=lambda p, c: c.get("name") in ("varint_len", "len", "serialize"))
        try:
            res = explore(m, lambda: m.call_path(sizep, [val]))
        except Unsupported as e:
            chk.fail(rid, name + "|unanalysable", "unanalysable: %s" % e, where, kind="unanalysable")
            continue
        if len(res) != 1:
            chk.fail(rid, name + "|paths", "ItemSize::size(%s): %d paths" % (name, len(res)), where, kind="unanalysable")
            continue

        def atom(t):
            if isinstance(t, Term) and t.op == "size":
                return "size"
            if isinstance(t, Term) and t.op == "call":
                nm = str(t.args[0])
                if nm.endswith("varint_len"):
                    return "varint(len)"
                if nm.endswith("::len"):
                    return "len"
            return None
        try:
            got = linform.lin(res[0][1], atom)
        except linform.NotLinear as e:
            chk.fail(rid, name + "|form", "size is not linear: %s" % e, where, kind="unanalysable")
            continue
        w = want.get(name)
        chk.obligation(rid, w is not None and got == w, name,
                       "ItemSize of Placeholder::%s is %s, the serialized element needs %s"
                       % (name, linform.show(got), linform.show(w) if w else "?"), where,
                       detail={"variant": name, "size": linform.show(got)})


# ---- which children's time-lock summaries a fragment combines, and how -------------------------------------------------------------

def check_timelock_composition(chk, F, rid="R12.11"):
    """ExtData::type_check's timelock_info per fragment kind, on concrete child summaries"""
    import itertools
    from ..interp import Adt, Term
    from ..report import Unsupported
    from .. import model
    from . import c09
    chk.rule(rid, "the time-lock summary ExtData keeps for every fragment (what has_mixed_timelocks, the mixed-time-lock switch and "
                  "lift_check read) is the summary of the fragment's spending paths: wrappers pass their child's on; and_v / and_b "
                  "join both children on one path; or_b / or_c / or_d / or_i keep them on separate paths; andor(X,Y,Z) joins X "
                  "with Y and keeps Z apart; thresh(k,..) joins any two children when k > 1 and none when k = 1; after / older "
                  "record their own unit; keys, hashes and multisigs record nothing (evaluated on all combinations of child "
                  "summaries over {none, csv height, csv time, cltv height, cltv time, both csv kinds on separate paths, "
                  "already mixed})")
    try:
        tcp = F.fn("type_check", file="types/extra_props.rs", container="ExtData")
    except KeyError as e:
        chk.fail(rid, "anchor", "missing anchor %s" % e, kind="unanalysable")
        return
    chk.saw(tcp)
    TLI = [a for a in F.adts if a.endswith("extra_props::TimelockInfo")][0]
    FLD = ("csv_with_height", "csv_with_time", "cltv_with_height", "cltv_with_time", "contains_combination")
    base = {"none": (0, 0, 0, 0, 0), "csv-h": (1, 0, 0, 0, 0), "csv-t": (0, 1, 0, 0, 0), "cltv-h": (0, 0, 1, 0, 0), "cltv-t": (0, 0, 0, 1, 0),
            "csv-h|csv-t": (1, 1, 0, 0, 0), "mixed": (0, 0, 1, 1, 1)}

    def tli(v):
        return Adt(TLI, "TimelockInfo", {f: bool(x) for f, x in zip(FLD, v)})

    def join(a, b, same_path):
        mix = a[4] or b[4]
        if same_path:
            mix = mix or (a[0] and b[1]) or (a[1] and b[0]) or (a[2] and b[3]) or (a[3] and b[2])
        return (a[0] or b[0], a[1] or b[1], a[2] or b[2], a[3] or b[3], int(bool(mix)))

    def fold(items, same_path):
        acc = (0, 0, 0, 0, 0)
        for x in items:
            acc = join(acc, x, same_path)
        return acc
    AND = lambda xs: fold(xs, True)      # noqa: E731
    OR = lambda xs: fold(xs, False)      # noqa: E731
    STRUCT = {"AndV": lambda c, k: AND(c), "AndB": lambda c, k: AND(c), "OrB": lambda c, k: OR(c), "OrC": lambda c, k: OR(c),
              "OrD": lambda c, k: OR(c), "OrI": lambda c, k: OR(c), "AndOr": lambda c, k: OR([AND(c[:2]), c[2]]),
              "Thresh": lambda c, k: AND(c) if k > 1 else OR(c)}
    n = 0
    for v in model.variants(F):
        probe = model.terminal(F, v)
        kids = [x for x in probe.fields.values() if isinstance(x, Adt) and x.path == model.MS]
        nary = v == "Thresh"
        arity = 3 if nary else len(kids)
        if arity == 0:
            continue            # leaves are covered below
        names = list(base) if arity <= 2 else ["none", "csv-h", "csv-t", "cltv-t", "mixed"]
        bad = []
        try:
            for combo in itertools.product(names, repeat=arity):
                for k in ((1, 2, 3) if nary else (None,)):
                    frag = model.terminal(F, v, n=3, k=k or 2)
                    # (thresh sorts its children by their satisfaction cost: concrete figures there)
                    frag = c09.concrete_sat_ext(frag) if nary else c09.with_ext(frag)
                    i = 0
                    for name, val in frag.fields.items():
                        if isinstance(val, Adt) and val.path == model.MS:
                            val.fields["ext"].fields["timelock_info"] = tli(base[combo[i]])
                            i += 1
                        elif isinstance(val, Adt) and val.path == model.THRESH:
                            for c_ in val.fields["inner"].items:
                                c_.fields["ext"].fields["timelock_info"] = tli(base[combo[i]])
                                i += 1
                    res, _m = c09.run_type_check(F, tcp, frag, unc=False)
                    n += 1
                    kid_vals = [base[x] for x in combo]
                    want = STRUCT[v](kid_vals, k) if v in STRUCT else kid_vals[0]
                    for _conds, r in res:
                        if not (isinstance(r, Adt) and "timelock_info" in r.fields):
                            raise Unsupported("ExtData::type_check(%s) gives %r" % (v, r))
                        t = r.fields["timelock_info"]
                        got = tuple(int(bool(t.fields[f])) if isinstance(t, Adt) and isinstance(t.fields[f], bool) else repr(t.fields[f] if isinstance(t, Adt) else t)
                                    for f in FLD)
                        if got != tuple(int(bool(x)) for x in want):
                            bad.append("children %s%s: %s, expected %s" % (list(combo), " k=%d" % k if k else "",
                                                                           dict(zip(FLD, got)), dict(zip(FLD, want))))
                            break
            chk.obligation(rid, not bad, v, "%d combination(s); first: %s" % (len(bad), bad[0] if bad else ""),
                           where="src/miniscript/types/extra_props.rs", detail=bad[:6])
        except Unsupported as e:
            chk.fail(rid, "unanalysable:" + v, "unanalysable: %s" % e, where=getattr(e, "where", ""), kind="unanalysable")
    chk.floor(rid, "fragment x child-summary combinations", n, 800)
