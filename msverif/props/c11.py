"""C11 -- no input can crash or hang the library.

What is decided (DESIGN.md C11, revised in the build round): a *bounded* search for reachable panics by evaluating
the untrusted-input entry points from their typed syntax trees on adversarial input families, plus two structural
rules.  The evaluator panics exactly where the compiled code would (unwrap / expect on None / Err, slice and string
indexing out of range or off a char boundary, integer overflow / underflow in checked arithmetic, explicit panic!,
unreachable!, assert!, division by zero).

R11.1  text parsers: Descriptor / Miniscript (segwit v0 and tap) / concrete policy / semantic policy / expression tree
       on a family of malformed texts (every single-character deletion, insertion of a structural character, and
       truncation of valid texts; empty and degenerate arities; huge / zero / signed numbers; non-ASCII; stray
       separators and checksums; nesting at and above the depth limit)
R11.2  interpreter: every stack of length <= 2 over a small alphabet and every prefix / suffix of every canonical
       satisfaction, for every script of C13's family
R11.3  PSBT satisfier preimage look-ups with preimages of length 0, 31, 32, 33
R11.4  the parser's pre-check bounds nesting: depth 402 accepted, 403 refused, before any tree is built
R11.7  spent-output look-ups of the finalizer / sighash_msg over utxo presence x previous-transaction size x vout
R11.8  DescriptorPublicKey::from_str on near-valid key expressions
R11.9  ExtData.tree_height (the only bound on parenthesis-free wrapper chains) equals the fragment's depth
R11.6  script decoder: every single-instruction mutation of every family script and all tiny scripts (props/decoder.py)
R11.5  recursion reachable from the text / script / PSBT entry points is confined to the audited functions whose depth
       is bounded by the pre-check (call-graph SCCs over MIR)"""

import itertools
import os
import sys

from .. import mirq, textmodel as tm
from ..interp import Machine, Adt, Term, PyVec, Panic, ok, err, some, NONE, dcopy
from ..report import Unsupported
from . import c13, c14

LEVEL = "other"
ONLY = os.environ.get("C11_ONLY", "")
STRING = "std::string::String"
SEG = "miniscript::context::Segwitv0"
TAP = "miniscript::context::Tap"

VALID = ["wsh(and_v(v:pk(A),older(7)))", "sh(wsh(or_d(pk(A),pkh(B))))", "tr(K,{pk(A),{pk(B),multi_a(1,C,D)}})",
         "wsh(thresh(2,pk(A),s:pk(B),sln:after(5)))", "sh(sortedmulti(1,A,B))", "wpkh(K)", "pkh(K)",
         "wsh(andor(pk(A),sha256(H),t:or_c(pk(B),v:hash160(G))))#xxxxxxxx"]
POLICIES = ["and(pk(A),or(3@pk(B),1@older(5)))", "thresh(2,pk(A),pk(B),after(9))", "or(pk(A),and(sha256(H),TRIVIAL))"]
MS = ["and_v(v:pk(A),older(7))", "or_d(pk(A),pkh(B))", "thresh(2,pk(A),s:pk(B),sln:after(5))", "tv:multi(1,A,B)"]
SPECIAL = ["", " ", "(", ")", "()", ",", ":", "a:", ":a", "a:b:c", "#", "a#", "#abcdefgh", "a#abcdefgh", "thresh", "thresh()",
           "thresh(,)", "thresh(0)", "thresh(1)", "thresh(2,pk(A))", "thresh(0,pk(A))", "thresh(pk(A),pk(B))",
           "thresh(18446744073709551616,pk(A))", "multi(0,A)", "multi(1)", "multi(4294967296,A)", "multi(2,A)",
           "multi_a(1000,A)", "older(0)", "older(4294967296)", "older(-1)", "older(+1)", "older(01)", "older()", "older(1,2)",
           "after(0)", "after(99999999999)", "after(2147483648)", "pk()", "pk(A,B)", "pk(A)(B)", "pk((A))", "and_v(pk(A))",
           "and_v(pk(A),pk(B),pk(C))", "andor(pk(A))", "pk(é)", "é", "pk(A)é", "tr()", "tr(K,{})",
           "tr(K,{pk(A)})", "tr(K,{pk(A),pk(B),pk(C)})", "tr(K,pk(A),pk(B))", "tr(K,{pk(A),pk(B)},x)", "tr({pk(A),pk(B)})",
           "wsh()", "wsh(pk(A),pk(B))", "sh(sh(pk(A)))", "wsh(wsh(pk(A)))", "sh(wsh())", "sh(wpkh())", "wpkh()", "pkh()",
           "wsh{pk(A)}", "wsh(pk{A})", "{", "}", "{}", "{,}", "wsh(a:)", "wsh(:pk(A))", "wsh(zz:pk(A))", "wsh(t:)",
           "or(pk(A))", "or(1@pk(A),0@pk(B))", "or(@pk(A),1@pk(B))", "or(1@2@pk(A),pk(B))", "or(99999999999@pk(A),pk(B))",
           "and()", "and(pk(A))", "thresh(1,TRIVIAL)", "UNSATISFIABLE(x)", "TRIVIAL()", "sortedmulti(1)", "sortedmulti(0,A)",
           "expr_raw_pkh()", "expr_raw_pkh(zz)", "c:expr_raw_pkh(H)", "l:", "u:0", "t:1", "0", "1", "1()", "0(1)"]


def mutations(s):
    out = set()
    for i in range(len(s)):
        out.add(s[:i] + s[i + 1:])
        out.add(s[:i])
        for ch in "(),:{}@#":
            out.add(s[:i] + ch + s[i:])
    return sorted(out)


def boundary_chars(s):
    """characters at the edges of the accepted range (just below ' ', DEL, the first non-ASCII ones, NUL, TAB) at the
    start, in the middle and at the end of a text, with and without a checksum-shaped suffix: a character the
    character check lets through reaches the tables indexed by it"""
    body = s.split("#")[0]
    out = set()
    for ch in ("\x00", "\t", "\x1f", "\x7f", "\x80", "\xff", "~", " "):
        for i in (0, len(body) // 2, len(body)):
            t = body[:i] + ch + body[i:]
            out.update([t, t + "#", t + "#abcdefgh", t + "#qqqqqqqq", t + "#abcdefg", "#" + t])
    return sorted(out)


def nested(n, name="a", leaf="b"):
    return (name + "(") * n + leaf + ")" * n


class Runner(object):
    def __init__(self, F):
        self.F = F
        m = Machine(F, strict=True, max_depth=80)
        m.text_keys = True
        m.max_steps = 3_000_000
        tm.install_bech32(F, m)
        c14.lock_hooks(m)
        self.m = m

        def fs(adt):
            ps = [it["path"] for i in F.impls if i["trait"] == "std::str::FromStr" and i["self_adt"] == adt
                  for it in i["items"] if it["name"] == "from_str"]
            if len(ps) != 1:
                raise KeyError("FromStr for " + adt)
            return ps[0]
        self.entries = {
            "descriptor": (fs("descriptor::Descriptor"), [STRING]),
            "miniscript-segwit": (fs("miniscript::private::Miniscript"), [STRING, SEG]),
            "miniscript-tap": (fs("miniscript::private::Miniscript"), [STRING, TAP]),
            "concrete": (fs("policy::concrete::Policy"), [STRING]),
            "semantic": (fs("policy::semantic::Policy"), [STRING]),
        }
        self.tree = F.fn("from_str", file="expression/mod.rs")

    def parse(self, entry, s):
        p, targs = self.entries[entry]
        return self.m.call_callee({"def": p, "resolved": p, "name": "from_str", "targs": targs}, [s])


_R = {}


def runner(F):
    if "r" not in _R:
        _R["r"] = Runner(F)
    return _R["r"]


def _parse_work(args):
    from .. import facts
    F = facts.load()
    R = runner(F)
    entry, texts = args
    out = []
    n = 0
    unsupported = {}
    for s in texts:
        try:
            n += 1
            if entry == "tree":
                R.m.call_path(R.tree, [s])
            else:
                R.parse(entry, s)
        except Panic as e:
            out.append((entry, s, str(e)))
        except Unsupported as e:
            unsupported.setdefault(str(e)[:160], s)
        except RecursionError:
            out.append((entry, s, "evaluator recursion limit (unbounded recursion?)"))
    return entry, n, out, unsupported


def check_parsers(chk, F):
    import multiprocessing as mp
    R = "R11.1"
    chk.rule(R, "no text of the malformed family makes a parser panic (Descriptor, Miniscript in segwit v0 and tap, "
                "concrete / semantic policy, expression tree)")
    fam = {}
    base = set(SPECIAL)
    for s in VALID:
        base.update(mutations(s))
        base.update(boundary_chars(s))
    base.update([nested(5), nested(100), "wsh(" + nested(50, "and_v", "pk(A)") + ")"])
    fam["descriptor"] = sorted(base)
    msf = set(SPECIAL)
    for s in MS:
        msf.update(mutations(s))
        msf.update(boundary_chars(s))
    fam["miniscript-segwit"] = sorted(msf)
    fam["miniscript-tap"] = sorted(set(SPECIAL) | set(mutations("and_v(v:multi_a(2,A,B,C),pk(D))")))
    pf = set(SPECIAL)
    for s in POLICIES:
        pf.update(mutations(s))
        pf.update(boundary_chars(s))
    fam["concrete"] = sorted(pf)
    fam["semantic"] = sorted(pf)
    fam["tree"] = sorted(base | pf)
    jobs = []
    for e, texts in fam.items():
        k = 4 if len(texts) > 400 else 1
        for i in range(k):
            jobs.append((e, texts[i::k]))
    with mp.Pool(min(16, len(jobs))) as pool:
        results = pool.map(_parse_work, jobs, chunksize=1)
    total = 0
    per = {}
    for entry, n, out, unsupported in results:
        total += n
        per.setdefault(entry, [[], {}])
        per[entry][0] += out
        per[entry][1].update(unsupported)
    for entry, (out, unsupported) in sorted(per.items()):
        if out:
            e, s, msg = out[0]
            chk.fail(R, entry, "%d text(s) panic; first: %r: %s" % (len(out), s, msg), where="src/expression/mod.rs",
                     detail=out[:20])
        else:
            chk.ok(R)
        for msg, s in sorted(unsupported.items()):
            chk.fail(R, "unanalysable:%s:%s" % (entry, msg[:60]), "unanalysable on %r: %s" % (s, msg), kind="unanalysable")
    chk.extra["R11.1_texts"] = total
    chk.floor(R, "texts evaluated", total, 5000)


# ---- R11.2 interpreter ------------------------------------------------------------------------------------------

def _interp_work(args):
    from .. import facts
    F = facts.load()
    text, ctx = args
    X = c13.X
    ast = X.parse(text)
    tx = c13.default_tx(ast)
    alpha = c13.alphabet(ast, ctx)[:8]
    sats, dis = X.witnesses(ast, ctx)
    stacks = []
    for ln in range(0, 3):
        stacks += [list(w) for w in itertools.product(alpha, repeat=ln)]
    for w in sats + dis:
        for i in range(len(w) + 1):
            stacks.append(list(w[:i]))
            stacks.append(list(w[i:]))
    out = []
    n = 0
    for w in stacks:
        try:
            n += 1
            c13.eval_case(F, text, ctx, w, tx)
        except Panic as e:
            out.append((text, repr(w), str(e)))
        except Unsupported as e:
            return text, n, out, str(e)
    return text, n, out, None


def check_interpreter(chk, F):
    import multiprocessing as mp
    R = "R11.2"
    chk.rule(R, "the interpreter's state machine does not panic on short, empty or truncated stacks (all stacks of "
                "length <= 2 over a token alphabet, all prefixes and suffixes of canonical witnesses) for every script of "
                "the C13 family")
    with mp.Pool(min(16, os.cpu_count() or 4)) as pool:
        results = pool.map(_interp_work, c13.SCRIPTS, chunksize=1)
    total = 0
    for text, n, out, unsup in results:
        total += n
        if unsup:
            chk.fail(R, "unanalysable:" + text, "unanalysable: %s" % unsup, kind="unanalysable")
        elif out:
            chk.fail(R, text, "%d stack(s) panic; first: %s: %s" % (len(out), out[0][1], out[0][2]),
                     where="src/interpreter/mod.rs", detail=out[:10])
        else:
            chk.ok(R)
    chk.extra["R11.2_stacks"] = total
    chk.floor(R, "stacks evaluated", total, 3000)


# ---- R11.3 satisfier look-ups -----------------------------------------------------------------------------------

class PyMap(object):
    """BTreeMap model for look-ups"""
    def __init__(self, d):
        self.d = d


def check_lookups(chk, F):
    R = "R11.3"
    chk.rule(R, "PsbtInputSatisfier preimage look-ups return Some exactly for 32-byte preimages and never panic "
                "(lengths 0, 31, 32, 33, 64)")
    impl = [i for i in F.impls if i["self_adt"] == c14.SATF and (i["trait"] or "").endswith("Satisfier")][0]
    items = {it["name"]: it["path"] for it in impl["items"]}
    m = Machine(F, strict=True)
    from ..builtins import deref
    m.hooks["std::collections::BTreeMap::<K, V, A>::get"] = lambda m_, a, c: deref(a[0]).d.get("k", NONE)
    for nm in ("to_sha256", "to_hash256", "to_ripemd160", "to_hash160"):
        m.hooks["ToPublicKey::" + nm] = lambda m_, a, c: Term("hashkey")
    m.hooks["bitcoin::hashes::sha256d::Hash::from_byte_array"] = lambda m_, a, c: Term("hashkey")
    m.hooks["bitcoin::hashes::Hash::from_byte_array"] = lambda m_, a, c: Term("hashkey")
    m.hooks["bitcoin::hashes::Hash::to_byte_array"] = lambda m_, a, c: Term("hashbytes")
    m.hooks["bitcoin::bitcoin_hashes::Hash::from_byte_array"] = lambda m_, a, c: Term("hashkey")
    m.hooks["bitcoin::bitcoin_hashes::Hash::to_byte_array"] = lambda m_, a, c: Term("hashbytes")
    for look, field in (("lookup_sha256", "sha256_preimages"), ("lookup_hash256", "hash256_preimages"),
                        ("lookup_ripemd160", "ripemd160_preimages"), ("lookup_hash160", "hash160_preimages")):
        chk.saw(items[look])
        for ln in (0, 31, 32, 33, 64):
            inp = c14.mk_input("x")
            inp.fields[field] = PyMap({"k": some(PyVec(list(range(ln))))})
            ps = c14.mk_psbt(2, 0, [0], [inp])
            sat = Adt(c14.SATF, "PsbtInputSatisfier", {"psbt": ps, "index": 0})
            key = "%s|len=%d" % (look, ln)
            try:
                r = m.call_callee({"def": items[look], "resolved": items[look], "name": look,
                                   "targs": ["bitcoin::PublicKey"]}, [sat, Term("h")])
                chk.obligation(R, (r.variant == "Some") == (ln == 32), key, "look-up with a %d-byte preimage gives %r" % (ln, r),
                               where="src/psbt/mod.rs")
            except Panic as e:
                chk.fail(R, key, "look-up with a %d-byte preimage panics: %s" % (ln, e), where="src/psbt/mod.rs")
            except Unsupported as e:
                chk.fail(R, "unanalysable:" + key, "unanalysable: %s" % e, where=e.where, kind="unanalysable")


# ---- R11.7 spent-output look-ups --------------------------------------------------------------------------------

def check_utxo_lookups(chk, F):
    R = "R11.7"
    chk.rule(R, "the finalizer's spent-output look-ups (get_utxo, get_scriptpubkey, prevouts) return an error value, never "
                "panic, for every combination of witness_utxo / non_witness_utxo presence, number of outputs of the "
                "previous transaction (0..2) and previous_output.vout (0, 1, 2, u32::MAX), for every in-range input index")
    from ..builtins import deref
    fns = {n: F.fn(n, file="psbt/finalizer.rs") for n in ("get_utxo", "get_scriptpubkey", "prevouts")}
    for v in fns.values():
        chk.saw(v)
    m = Machine(F, strict=True, max_depth=40)

    def txout(tag):
        return Adt("bitcoin::TxOut", "TxOut", {"script_pubkey": Term("spk", tag), "value": Term("value", tag)})

    def prev_tx(n):
        return Adt(c14.TX, "Transaction", {"version": Term("v"), "lock_time": Term("lt"), "input": PyVec([]),
                                           "output": PyVec([txout("prev%d" % i) for i in range(n)])})
    utxo_shapes = [("none", NONE, NONE), ("witness", some(txout("w")), NONE)]
    for n in (0, 1, 2):
        utxo_shapes.append(("prev-tx/%d" % n, NONE, some(prev_tx(n))))
        utxo_shapes.append(("both/%d" % n, some(txout("w")), some(prev_tx(n))))
    n_cases = 0
    for (name, wu, nwu), vout, n_inputs in itertools.product(utxo_shapes, (0, 1, 2, 0xFFFFFFFF), (1, 2)):
        inputs = []
        for i in range(n_inputs):
            inp = c14.mk_input("x%d" % i)
            inp.fields["witness_utxo"] = wu
            inp.fields["non_witness_utxo"] = nwu
            inputs.append(inp)
        ps = c14.mk_psbt(2, 0, [0] * n_inputs, inputs)
        for txin in ps.fields["unsigned_tx"].fields["input"].items:
            txin.fields["previous_output"] = Adt("bitcoin::OutPoint", "OutPoint", {"txid": Term("txid"), "vout": vout})
        for fname, path in sorted(fns.items()):
            for idx in (range(n_inputs) if fname != "prevouts" else (None,)):
                key = "%s|%s|vout=%d" % (fname, name, vout)
                n_cases += 1
                try:
                    r = m.call_path(path, [ps] + ([idx] if idx is not None else []))
                except Panic as e:
                    chk.fail(R, key, "%s panics on a PSBT whose input has %s and previous_output.vout = %d: %s"
                             % (fname, name, vout, e), where="src/psbt/finalizer.rs")
                    continue
                except Unsupported as e:
                    chk.fail(R, "unanalysable:" + key, "unanalysable: %s" % e, where=e.where, kind="unanalysable")
                    continue
                want_ok = name.startswith(("witness", "both")) or \
                    (name.startswith("prev-tx") and vout < int(name.split("/")[1]))
                chk.obligation(R, (r.variant == "Ok") == want_ok, key, "%s gives %s; a spent output %s" %
                               (fname, r.variant, "exists" if want_ok else "does not exist"), where="src/psbt/finalizer.rs")
    chk.floor(R, "cases", n_cases, 150)


# ---- R11.8 key expressions ------------------------------------------------------------------------------------------

def key_mutations(texts, XPUB):
    """near-valid key expressions: every single-character deletion / structural insertion outside the long key body
    (two positions inside it), truncations, and degenerate forms"""
    out = []
    seen = set()
    STRUCT = "[]/<>;*'h#,()@ "
    for t in texts:
        body = t.find(XPUB)
        skip = range(body + 6, body + len(XPUB) - 3) if body >= 0 else range(0)
        pos = [i for i in range(len(t) + 1) if i not in skip]
        for i in pos:
            if i < len(t):
                out.append(t[:i] + t[i + 1:])
                out.append(t[:i])
            for ch in STRUCT:
                out.append(t[:i] + ch + t[i:])
        for a, b in (("/", "//"), ("<", "<<"), (">", ">>"), (";", ";;"), ("]", "]]"), ("[", "[["), ("'", "''"), ("0", "-0"),
                     ("0", "4294967296"), ("0", "2147483648"), ("1", "18446744073709551616"), ("deadbeef", "deadbee"),
                     ("deadbeef", "deadbeef0"), ("deadbeef", "zzzzzzzz"), ("deadbeef", ""), ("*", "**"), ("*", "*/1"),
                     ("<0;1>", "<>"), ("<0;1>", "<0>"), ("<0;1>", "<;>"), ("<0;1>", "<0;>"), ("<0;1>", "<0;1"), ("<0;1>", "0;1>"),
                     ("<0;1>", "<0;1>/<2;3>"), ("<0;1>", "<0;1;" + ";".join(map(str, range(2, 40))) + ">")):
            if a in t:
                out.append(t.replace(a, b, 1))
                out.append(t.replace(a, b))
    out += ["", "[", "]", "[]", "[/]", "[deadbeef", "[deadbeef]", "[deadbeef/]", "[deadbeef]/", "/", "//", "/*", "*", "<", ">", "<>",
            "<0;1>", "/<0;1>", "é", "[dé]", "\x7f", "\x00", "[deadbeef]é", "02", "0" * 66, "0" * 130, "x" * 111, "xpub", "tpub" + "1" * 107,
            "[" * 50, "/" * 300, "<" * 20 + ">" * 20, "[deadbeef" + "/0" * 300 + "]" + XPUB, XPUB + "/0" * 300, XPUB + "/<" + ";".join(["1"] * 300) + ">"]
    res = []
    for x in out:
        if x not in seen:
            seen.add(x)
            res.append(x)
    return res


def check_key_parsers(chk, F):
    from . import c10
    R = "R11.8"
    chk.rule(R, "DescriptorPublicKey::from_str and DescriptorSecretKey::from_str (parse_key_origin, parse_xkey_deriv) return an error value, never panic, on "
                "near-valid key expressions: every single-character deletion, truncation and structural insertion around "
                "origin, path, multipath step and wildcard of ~20 valid expressions, degenerate / huge numbers, unbalanced "
                "brackets, non-ASCII, very long paths and multipath tuples")
    fs = [it["path"] for i in F.impls if i["trait"] == "std::str::FromStr" and i["self_adt"] == c10.DPK
          for it in i["items"] if it["name"] == "from_str"]
    if len(fs) != 1:
        chk.fail(R, "anchor", "FromStr for DescriptorPublicKey not found", kind="unanalysable")
        return
    chk.saw(fs[0], F.fn("parse_xkey_deriv", file="descriptor/key.rs"), F.fn("parse_key_origin", file="descriptor/key.rs"))
    DSK = "descriptor::key::DescriptorSecretKey"
    fsec = [it["path"] for i in F.impls if i["trait"] == "std::str::FromStr" and i["self_adt"] == DSK
            for it in i["items"] if it["name"] == "from_str"]
    if len(fsec) != 1:
        chk.fail(R, "anchor", "FromStr for DescriptorSecretKey not found", kind="unanalysable")
        return
    chk.saw(fsec[0])
    m = c10.key_machine(F)
    from ..builtins import deref
    m.hooks["<bitcoin::PrivateKey as std::str::FromStr>::from_str"] = lambda m_, a, c: ok(("wif", deref(a[0]))) \
        if len(deref(a[0])) in (51, 52) and deref(a[0]).isalnum() else err(Term("WifError"))
    base = [t for t in c10.key_texts() if t.startswith("[deadbeef/0'") or t.startswith(c10.XPUB)][:26] + c10.key_noncanonical()
    texts = key_mutations(base, c10.XPUB)
    if chk.tier != "thorough":
        texts = texts[::3] + texts[-40:]
    XPRV = "xprv" + c10.XPUB[4:]
    WIF = "K" + "w1" * 25 + "z"
    jobs = [(fs[0], t) for t in texts] + [(fsec[0], t.replace(c10.XPUB, XPRV)) for t in texts]
    jobs += [(fsec[0], t) for t in key_mutations([WIF, "[deadbeef/1']" + WIF], XPRV)]
    panics = []
    n = 0
    for fn_, t in jobs:
        n += 1
        try:
            r = m.call_path(fn_, [t])
            if not (isinstance(r, Adt) and r.variant in ("Ok", "Err")):
                panics.append((t, "returned %r" % (r,)))
        except Panic as e:
            panics.append((t, "panic: %s" % e))
        except Unsupported as e:
            chk.fail(R, "unanalysable", "unanalysable on %r: %s" % (t.replace(c10.XPUB, "XPUB")[:80], e), where=e.where, kind="unanalysable")
            return
    if panics:
        chk.fail(R, "key-parser", "%d text(s) panic; first: %r: %s" % (len(panics), panics[0][0].replace(c10.XPUB, "XPUB")[:120], panics[0][1]),
                 where="src/descriptor/key.rs", detail=[(a.replace(c10.XPUB, "XPUB")[:200], b) for a, b in panics[:12]])
    else:
        chk.ok(R)
    chk.extra["R11.8_texts"] = n
    chk.floor(R, "malformed key expressions", n, 4000)


# ---- R11.9 tree-height accounting (what bounds parenthesis-free nesting) ------------------------------------------------

def _height_work(args):
    from .. import facts, textmodel as tm
    from . import c06
    X = c13.X
    F = facts.load()
    ctx, texts = args
    T_ = c06.Typer(F)
    st = "miniscript::private::Miniscript<std::string::String, %s>" % c06.CTX[ctx]

    def height(n):
        return 0 if not n.kids else 1 + max(height(k) for k in n.kids)
    out, n_ok = [], 0
    for text in texts:
        try:
            tr = tm.parse_tree(F, T_.m, text)
            if tr.variant != "Ok":
                continue
            ri = T_.m.call_path(T_.root, [tr.fields["0"]])
            r = T_.m.call_callee({"def": "expression::FromTree::from_tree", "resolved": T_.ft, "name": "from_tree",
                                  "trait": "expression::FromTree",
                                  "resolved_container": "miniscript::<impl expression::FromTree for miniscript::private::Miniscript<Pk, Ctx>>",
                                  "self_ty": st, "targs": [st]}, [ri])
            if not (isinstance(r, Adt) and r.variant == "Ok"):
                continue
            got = r.fields["0"].fields["ext"].fields["tree_height"]
            want = height(X.parse(text))
            n_ok += 1
            if got != want:
                out.append((ctx, text, "tree_height %r, the fragment is %d levels deep" % (got, want)))
        except Unsupported as e:
            out.append((ctx, text, "unanalysable: %s" % e))
            break
        except Panic as e:
            out.append((ctx, text, "panic: %s" % e))
    return ctx, n_ok, out


def check_tree_height(chk, F):
    import multiprocessing as mp
    from . import c06
    R = "R11.9"
    chk.rule(R, "nesting that carries no parentheses (wrapper chains such as jjj..:X) is bounded only by the tree height the type "
                "checker records, which Miniscript::from_ast / validate compare with the depth limit: for ~1600 typed fragments "
                "(every wrapper over every leaf, chains, every combinator) ExtData.tree_height is exactly the depth of the "
                "fragment (leaf 0, every wrapper and combinator one more than its deepest child)")
    jobs = []
    for ctx in ("segwitv0", "tap"):
        cs = c06.candidates(ctx, "quick")
        extra = ["%s:pk(A)" % (w * k) for w in "jnvc" for k in (3, 6)] + ["%s:older(5)" % ("lu" * k) for k in (2, 4)] + \
                ["and_v(v:pk(A),%s:pk(B))" % ("n" * 5), "thresh(2,pk(A),s:pk(B),s%s:pk(C))" % ("n" * 4)]
        cs = cs + extra
        for i in range(8):
            jobs.append((ctx, cs[i::8]))
    with mp.Pool(min(16, os.cpu_count() or 4)) as pool:
        res = pool.map(_height_work, jobs, chunksize=1)
    total = 0
    bad = []
    for ctx, n_ok, out in res:
        total += n_ok
        bad += out
    un = [b for b in bad if b[2].startswith("unanalysable")]
    for b in un[:3]:
        chk.fail(R, "unanalysable:%s|%s" % (b[0], b[1]), b[2], kind="unanalysable")
    real = [b for b in bad if not b[2].startswith("unanalysable")]
    chk.obligation(R, not real, "tree_height", "%d fragment(s); first: [%s] %s: %s" % ((len(real),) + (real[0] if real else ("", "", ""))),
                   where="src/miniscript/types/extra_props.rs", detail=real[:10])
    chk.floor(R, "typed fragments measured", total, 1200)


# ---- R11.4 depth pre-check --------------------------------------------------------------------------------------

def check_depth(chk, F):
    R = "R11.4"
    chk.rule(R, "Tree::from_str accepts nesting depth 402 and refuses 403 (MaxRecursionDepthExceeded) in the pre-check, "
                "which every tree construction passes first")
    Rn = runner(F)
    pre = F.fn("parse_pre_check", file="expression/mod.rs")
    inner = F.fn("from_str_inner", file="expression/mod.rs")
    chk.saw(pre, inner)
    okp, missing = mirq.must_pass(F, inner, lambda c: c.get("name") == "parse_pre_check")
    chk.obligation(R, okp, "must-pass", "from_str_inner can build a tree without parse_pre_check: %s" % "; ".join(missing),
                   where="src/expression/mod.rs")
    for depth, want in ((1, "Ok"), (401, "Ok"), (402, "Ok"), (403, "Err"), (600, "Err")):
        s = nested(depth)
        try:
            r = Rn.m.call_path(pre, [s])
            chk.obligation(R, r.variant == want, "depth-%d" % depth, "nesting depth %d: pre-check returns %s" % (depth, r.variant),
                           where="src/expression/mod.rs")
        except Panic as e:
            chk.fail(R, "depth-%d" % depth, "pre-check panics at depth %d: %s" % (depth, e))
        except Unsupported as e:
            chk.fail(R, "unanalysable:depth-%d" % depth, "unanalysable: %s" % e, kind="unanalysable")


# ---- R11.5 recursion --------------------------------------------------------------------------------------------

AUDITED_RECURSION = {
    # function name (last path segment) : why its depth is bounded
    "normalized": "depth of a parsed policy <= 402 (pre-check)",
    "entails": "ENTAILMENT_MAX_TERMINALS bounds the number of case splits",
    "first_constraint": "depth of a normalized policy",
    "satisfy_constraint": "depth of a normalized policy",
    "lift": "Concrete::lift recursion over a parsed policy (depth <= 402)",
    "fmt": "Display / Debug of nested policies (depth <= 402)",
    "eq": "derived structural equality on Arc trees (depth <= 402)",
    "ne": "derived", "cmp": "derived / hand-written ordering on Arc trees", "partial_cmp": "derived",
    "hash": "derived", "clone": "derived", "drop": "drop glue",
    "translate_pk": "recursion over a parsed policy", "translate_unsatisfiable_pk": "recursion over a parsed policy",
    "for_each_key": "recursion over a parsed policy", "num_tap_leaves": "policy depth", "check_binary_ops": "policy depth",
    "is_safe_nonmalleable": "policy depth",
    "encode": "Terminal::encode <-> push_astelem over a Miniscript: tree_height <= MAX_RECURSION_DEPTH is enforced by "
              "Miniscript::from_ast for every node (constructor discipline: C12 R12.4)",
    "push_astelem": "see encode",
    "next": "PostOrderIter::next calls itself at most once per already-yielded node (bounded self-call)",
}


# traits whose methods walk input-shaped data: an unresolved (generic) call may reach any implementation.
# (Forwarding impls such as `impl Satisfier for &S` recurse over the finite structure of a type, not over data.)
DATA_TRAITS = {"Liftable", "FromTree", "TranslatePk", "ForEachKey", "TreeLike", "Display", "Debug", "ToNoChecks"}


def callgraph(F):
    g = {}
    impl_items = {}
    for imp in F.impls:
        if imp.get("trait"):
            for it in imp["items"]:
                if it["path"] in F.bodies:
                    impl_items.setdefault((imp["trait"], it["name"]), []).append(it["path"])
    for p, b in F.bodies.items():
        mir = b.get("mir")
        if not mir:
            continue
        outs = set()
        for blk in mir["blocks"]:
            t = blk["term"]
            if t["t"] in ("call", "tailcall") and t["func"].get("o") == "const" and "fn" in t["func"]:
                fn = t["func"]["fn"]
                for q in (fn.get("resolved"), fn.get("def")):
                    if q and q in F.bodies:
                        outs.add(q)
                if fn.get("trait") and not fn.get("resolved") and fn["trait"].split("::")[-1] in DATA_TRAITS:
                    # unresolved (generic) trait call: any implementation may be the callee
                    for q in impl_items.get((fn["trait"], fn.get("name")), ()):
                        if q != p:      # `impl Tr for W<T>` calling `T::f`: T cannot be W<T> itself
                            outs.add(q)
            for s in blk["stmts"]:
                if s.get("rv") == "agg" and s.get("closure"):
                    outs.add(s["closure"])
        g[p] = outs
    return g


def sccs(g):
    import sys as _s
    _s.setrecursionlimit(100000)
    index, low, on, st, out = {}, {}, set(), [], []
    cnt = [0]

    def strong(v):
        index[v] = low[v] = cnt[0]
        cnt[0] += 1
        st.append(v)
        on.add(v)
        for w in g.get(v, ()):
            if w not in index:
                strong(w)
                low[v] = min(low[v], low[w])
            elif w in on:
                low[v] = min(low[v], index[w])
        if low[v] == index[v]:
            comp = []
            while True:
                w = st.pop()
                on.discard(w)
                comp.append(w)
                if w == v:
                    break
            if len(comp) > 1 or v in g.get(v, ()):
                out.append(comp)
    for v in list(g):
        if v not in index:
            strong(v)
    return out


def check_recursion(chk, F):
    R = "R11.5"
    chk.rule(R, "every recursive cycle in the crate's call graph (MIR, resolved callees) that is reachable from a parser, "
                "the script decoder, the interpreter, the PSBT finalizer or the planner passes through an audited function "
                "whose depth is bounded by the parser's pre-check (no new recursion over input-shaped data)")
    g = callgraph(F)
    entries = [p for p in g if any(k in p for k in ("from_str", "from_tree", "decode", "from_txdata", "iter_next",
                                                    "finalize_input", "update_input_with_descriptor", "into_plan",
                                                    "parse_pre_check"))]
    reach = set()
    work = list(entries)
    while work:
        v = work.pop()
        if v in reach:
            continue
        reach.add(v)
        work.extend(g.get(v, ()))
    comps = [c for c in sccs(g) if any(v in reach for v in c)]
    chk.extra["R11.5_functions"] = len(g)
    chk.extra["R11.5_reachable"] = len(reach)
    chk.extra["R11.5_recursive_cycles"] = [sorted(c) for c in comps]
    def short(v):
        base = v.split("::{closure")[0]
        name = base.split("::")[-1]
        return name.split("{")[0].rstrip(":") or base.split("::")[-2]
    for comp in comps:
        # every cycle must pass through an audited function (whose depth is bounded): a helper that merely sits on an
        # audited cycle (extracted block, forwarding wrapper) adds no recursion of its own.  So: remove the audited
        # functions and look for a cycle among the rest.
        rest = set(v for v in comp if short(v) not in AUDITED_RECURSION)
        sub = {v: [w for w in g.get(v, ()) if w in rest] for v in rest}
        cyc = sccs(sub)
        for v in comp:
            on_unaudited_cycle = any(v in c for c in cyc)
            chk.obligation(R, not on_unaudited_cycle, v, "recursive function %s lies on a cycle (of %d functions) reachable from "
                           "untrusted input that passes through no audited function" % (v, len(comp)))
    chk.floor(R, "call-graph size", len(g), 1500)


# ---- R11.14 translations whose context error is turned into a panic ------------------------------------------------------

def _translation_sites(F):
    """[(function, translate fn, targs, [panicking consumer])] over the MIR of non-test code"""
    def calls(par):
        out = []
        for q, b in F.bodies.items():
            if q == par or q.startswith(par + "::{closure"):
                mir = b.get("mir")
                for blk in (mir or {}).get("blocks", []):
                    t = blk.get("term") or {}
                    fn = (t.get("func") or {}).get("fn") if t.get("t") == "call" else None
                    if fn:
                        out.append((fn["def"], fn.get("targs") or [], t.get("sp")))
        return out
    sites = {}
    for q, b in F.bodies.items():
        if "::tests::" in q or "::test::" in q:
            continue
        mir = b.get("mir")
        for blk in (mir or {}).get("blocks", []):
            t = blk.get("term") or {}
            fn = (t.get("func") or {}).get("fn") if t.get("t") == "call" else None
            if fn and (fn["def"].endswith("::translate_pk") or fn["def"].endswith("::translate_pk_ctx")):
                sites[(q.split("::{closure")[0], fn["def"], tuple(fn.get("targs") or []))] = t.get("sp")
    out = []
    for (par, d, targs), sp in sorted(sites.items()):
        pan = [(cd, sp2) for cd, ta, sp2 in calls(par)
               if cd.endswith("::expect_translator_err") or
               (cd in ("std::result::Result::<T, E>::expect", "std::result::Result::<T, E>::unwrap") and ta and
                any(x in ta[0] for x in ("Descriptor<", "Miniscript<", "Policy<", "TapTree<")))]
        out.append((par, d, targs, pan, sp))
    return out


def check_translator_expects(chk, F, rid="R11.14"):
    from ..builtins import deref, PyMap
    from . import c10, c16
    chk.rule(rid, "a key translation re-runs the context checks on the translated keys and returns their failure as "
                  "TranslateErr::OuterError; wherever the library turns that failure into a panic (expect_translator_err, "
                  "expect / unwrap on the translation's result) the translator cannot cause one: either the target context is "
                  "NoChecks, or - decided by evaluating the translator's `pk` on compressed, uncompressed, x-only and extended "
                  "keys - the key it returns is never uncompressed or x-only unless the key it was given is (the only key "
                  "attributes the context checks read); every such site in the MIR is enumerated and must be decided")
    DPK, DDK = c10.DPK, "descriptor::key::DefiniteDescriptorKey"
    KE = "descriptor::wallet_policy::key_expression::KeyExpression"
    sites = _translation_sites(F)
    pans = [x for x in sites if x[3]]
    chk.floor(rid, "translation call sites", len(sites), 20)
    chk.floor(rid, "sites that panic on a context error", len(pans), 6)
    m = c10.key_machine(F)
    c16.derivation_hooks(m)
    c10.string_key_hooks(m)
    h = m.hooks
    h["bitcoin::secp256k1::Secp256k1::<C>::verification_only"] = lambda m_, a, c: Term("secp")
    for nm in ("descriptor::key::DescriptorPublicKey::master_fingerprint", "descriptor::key::DefiniteDescriptorKey::master_fingerprint"):
        h[nm] = lambda m_, a, c: Term("fingerprint")
    for nm in ("<bitcoin::XOnlyPublicKey as ToPublicKey>::to_public_key", "<bitcoin::secp256k1::XOnlyPublicKey as ToPublicKey>::to_public_key"):
        h[nm] = lambda m_, a, c: ("pk", "02" + deref(a[0])[1])
    # bitcoin::PublicKey in the text model of c10.key_machine: ("pk", hex) - 65 bytes of hex is the uncompressed form
    h["<bitcoin::PublicKey as MiniscriptKey>::is_uncompressed"] = \
        lambda m_, a, c: (len(deref(a[0])[1]) == 130) if isinstance(deref(a[0]), tuple) else (not deref(deref(a[0]).fields["compressed"]))
    fs = [it["path"] for i in F.impls if i["trait"] == "std::str::FromStr" and i["self_adt"] == DPK
          for it in i["items"] if it["name"] == "from_str"]
    if len(fs) != 1:
        chk.fail(rid, "anchor", "FromStr for DescriptorPublicKey not found", kind="unanalysable")
        return

    def dpk(t):
        r = m.call_path(fs[0], [t])
        if r.variant != "Ok":
            raise Unsupported("key text %s" % t)
        return r.fields["0"]

    def attrs(v):
        """(is_uncompressed, is_x_only_key) of a key value, through the MiniscriptKey impl of its type"""
        v = deref(v)
        if isinstance(v, str):
            return (False, False)
        if isinstance(v, tuple) and v and v[0] == "pk":
            return (len(v[1]) == 130, False)
        if isinstance(v, tuple) and v and v[0] == "xonly":
            return (False, True)
        if isinstance(v, Adt) and v.path == "bitcoin::PublicKey":
            return (not deref(v.fields["compressed"]), False)
        if isinstance(v, Adt):
            out = []
            for nm in ("is_uncompressed", "is_x_only_key"):
                ps = [it["path"] for i in F.impls if (i["trait"] or "").endswith("MiniscriptKey") and i["self_adt"] == v.path
                      for it in i["items"] if it["name"] == nm and it["path"] in F.bodies]
                if ps:
                    out.append(bool(m.call_path(ps[0], [v])))
                else:
                    out.append(False)      # the trait's default
            return tuple(out)
        raise Unsupported("key value %r" % (v,))
    SINGLE = [c10.PK33, c10.PK65, c10.XONLY]

    def plan(S, T):
        """-> [(translator value, input key)] for the translator type T over source keys S"""
        tname = T.split("::")[-1].split("<")[0]
        if S == DPK and tname == "ToDefinite":
            return [((), dpk(t)) for t in SINGLE + [c10.XPUB + "/0"]]
        if S == DPK and tname == "AtIndex":
            return [(Adt(T, "AtIndex", {"0": 5}), dpk(t)) for t in SINGLE + [c10.XPUB + "/0/*"]]
        if S == DPK and tname == "IndexChoser":
            return [(Adt(T, "IndexChoser", {"0": 0, "1": 2}), dpk(t)) for t in SINGLE + [c10.XPUB + "/<0;1>/*"]]
        if S == DPK and tname == "KeyMapLookUp":
            km = Adt("descriptor::key_map::KeyMap", "KeyMap", {"map": PyMap([])})
            return [(Adt(T, "KeyMapLookUp", {"0": km}), dpk(t)) for t in SINGLE + [c10.XPUB + "/0/*"]]
        if S == DPK and tname == "WalletPolicyTranslator":
            ks = [dpk(t) for t in SINGLE + [c10.XPUB + "/<0;1>/*"]]
            return [(Adt(T, "WalletPolicyTranslator", {"key_info": PyVec([dcopy(k)])}), k) for k in ks]
        if S == KE and tname == "WalletPolicyTranslator":
            ke = dpk_to_ke(dpk(c10.XPUB + "/<0;1>/*"))
            return [(Adt(T, "WalletPolicyTranslator", {"key_info": PyVec([dpk(t)])}), dcopy(ke)) for t in SINGLE + [c10.XPUB + "/<0;1>/*"]]
        if S == DDK and tname == "KeySourceLookUp":
            return [(Adt(T, "KeySourceLookUp", {"0": PyMap([]), "1": Term("secp")}), Adt(DDK, "DefiniteDescriptorKey", {"0": dpk(t)}))
                    for t in SINGLE + [c10.XPUB + "/0"]]
        return None

    def dpk_to_ke(k):
        imp = [i for i in F.impls if (i["trait"] or "") == "Translator" and "WalletPolicyTranslator" in (i.get("self_ty") or "")
               and "Translator<" + DPK + ">" in i["path"]]
        pkf = [it["path"] for it in imp[0]["items"] if it["name"] == "pk"][0]
        r = m.call_path(pkf, [Adt("descriptor::wallet_policy::WalletPolicyTranslator", "WalletPolicyTranslator", {"key_info": PyVec([dcopy(k)])}), k])
        return r.fields["0"]
    from .. import builtins as B_
    orig_fmt = B_.fmt_value
    B_.fmt_value = c10._key_fmt_value(orig_fmt)
    try:
        _decide_translation_sites(chk, F, rid, m, pans, plan, attrs)
    finally:
        B_.fmt_value = orig_fmt


def _decide_translation_sites(chk, F, rid, m, pans, plan, attrs):
    for par, d, targs, pan, sp in pans:
        S, T = (targs[0], targs[-1])
        inst = "%s|%s" % (par.split("::")[-1], T.split("::")[-1].split("<")[0])
        if d.endswith("translate_pk_ctx") and any(x.endswith("::NoChecks") for x in targs[:-1]):
            chk.ok(rid)       # the target context checks nothing
            continue
        if d.endswith("translate_pk_ctx"):
            S = None
        # the source key type: the translator's Translator<S> impl
        imps = [i for i in F.impls if (i["trait"] or "") == "Translator" and (i.get("self_ty") or "") == T]
        if S is not None:
            imps = [i for i in imps if ("Translator<%s>" % S) in i["path"]]
        if len(imps) != 1:
            chk.fail(rid, inst + "|impl", "%s turns a context error of the translation at %s into a panic (%s); the Translator impl "
                     "of %s could not be identified" % (par, sp, pan[0][0].split("::")[-1], T), kind="unanalysable")
            continue
        pkf = [it["path"] for it in imps[0]["items"] if it["name"] == "pk"][0]
        chk.saw(pkf)
        try:
            S = imps[0]["path"].split("Translator<", 1)[1].rsplit(">>", 1)[0]
            cases = plan(S, T)
            if cases is None:
                chk.fail(rid, inst + "|unclassified", "%s turns a context error of the translation at %s into a panic (%s) and the "
                         "translator %s is not one whose key attributes this rule can compute" % (par, sp, pan[0][0].split("::")[-1], T),
                         where=pan[0][1], kind="unanalysable")
                continue
            bad = []
            done = 0
            for tv, key in cases:
                r = m.call_path(pkf, [tv, dcopy(key)])
                if r.variant != "Ok":
                    continue
                done += 1
                ia, oa = attrs(key), attrs(r.fields["0"])
                if (oa[0] and not ia[0]) or (oa[1] and not ia[1]):
                    bad.append("given a key with (uncompressed, x-only) = %r it returns one with %r" % (ia, oa))
            if not done:
                chk.fail(rid, inst + "|no-case", "no input makes %s::pk succeed" % T, kind="unanalysable")
                continue
            chk.obligation(rid, not bad, inst, "%s panics (%s at %s) if the translation fails a context check, and the translator %s "
                           "can make it fail: %s" % (par, pan[0][0].split("::")[-1], pan[0][1], T.split("::")[-1], "; ".join(bad[:2])),
                           where=pan[0][1])
        except Unsupported as e:
            chk.fail(rid, inst + "|unanalysable", "unanalysable: %s" % e, where=e.where, kind="unanalysable")
        except Panic as e:
            chk.fail(rid, inst, "panic while evaluating %s::pk: %s" % (T, e), where=pan[0][1])


# ---- R11.15 a policy whose Huffman tree is deeper than a control block allows ----------------------------------------------

def check_huffman_depth(chk, F, rid="R11.15"):
    from ..builtins import deref
    from fractions import Fraction
    chk.rule(rid, "the taproot compilers' Huffman tree builder (with_huffman_tree, fed by compile_tr / compile_tr_native / "
                  "compile_tr_private_experimental with the odds the policy text gives) does not panic when the odds make the tree "
                  "deeper than the 128 levels a control block can prove - a plain chain of 131 nested `or`s does: it returns a tree "
                  "whose leaves are all at depth <= 128 and whose depths are those of a full binary tree, or an error")
    try:
        hf = F.fn("with_huffman_tree", file="policy/concrete.rs")
    except KeyError as e:
        chk.fail(rid, "anchor", "missing anchor %s" % e, kind="unanalysable")
        return
    chk.saw(hf)
    callers = [q for q, b in F.bodies.items() if b.get("mir") and any(
        ((blk.get("term") or {}).get("func") or {}).get("fn", {}).get("def", "").endswith("::with_huffman_tree")
        for blk in b["mir"]["blocks"])]
    chk.floor(rid, "callers of with_huffman_tree", len(callers), 3)
    OF = "policy::compiler::OrdF64"
    n = 0
    for k in (1, 2, 3, 64, 128, 129, 130, 131, 140):
        # the odds of a right-leaning chain of `or`s: 1/2, 1/4, ..., the last two equal
        ws = [2.0 ** -(i + 1) for i in range(k - 1)] + [2.0 ** -(k - 1)]
        leaves = PyVec([(Adt(OF, "OrdF64", {"0": w}), ("leaf", i)) for i, w in enumerate(ws)])
        m = Machine(F, strict=True)
        m.max_steps = 50_000_000
        n += 1
        try:
            r = m.call_callee({"def": hf, "resolved": hf, "name": "with_huffman_tree", "targs": ["PK"]}, [leaves])
        except Unsupported as e:
            chk.fail(rid, "unanalysable:%d" % k, "unanalysable: %s" % e, where=e.where, kind="unanalysable")
            continue
        except Panic as e:
            chk.fail(rid, "chain-%d" % k, "a chain of %d alternatives with halving odds makes with_huffman_tree panic: %s"
                     % (k, str(e)[:160]), F.fns[hf]["span"])
            continue
        r = deref(r)
        if isinstance(r, Adt) and r.path.endswith("Result"):
            if r.variant == "Err":
                chk.obligation(rid, k > 129, "chain-%d" % k, "a chain of %d alternatives (depth %d) is refused: %r" % (k, k - 1, r),
                               F.fns[hf]["span"])
                continue
            r = deref(r.fields["0"])
        depths = [deref(deref(x)[0]) for x in deref(r.fields["depths_leaves"]).items]
        kraft = sum(Fraction(1, 2 ** d) for d in depths)
        good = len(depths) == k and max(depths) <= 128 and kraft == 1
        chk.obligation(rid, good, "chain-%d" % k, "a chain of %d alternatives gives leaf depths with maximum %d, Kraft sum %s"
                       % (k, max(depths), kraft), F.fns[hf]["span"])
    chk.floor(rid, "chains", n, 9)


def run(chk):
    F = chk.facts()
    chk.explanation = __doc__
    chk.trusted = ["the evaluator's panic semantics (checked arithmetic, indexing, unwrap / expect, explicit panics)",
                   "std string / collection models; rust-bitcoin models of C13 / C14",
                   "bounded families: absence of a report is not a proof of panic freedom"]
    if not ONLY or "1" in ONLY:
        chk.guard("R11.1", "parsers", check_parsers, chk, F)
    if not ONLY or "2" in ONLY:
        chk.guard("R11.2", "interpreter", check_interpreter, chk, F)
    if not ONLY or "3" in ONLY:
        chk.guard("R11.3", "lookups", check_lookups, chk, F)
    if not ONLY or "4" in ONLY:
        chk.guard("R11.4", "depth", check_depth, chk, F)
    if not ONLY or "5" in ONLY:
        chk.guard("R11.5", "recursion", check_recursion, chk, F)
    if not ONLY or "6" in ONLY:
        from . import decoder
        chk.guard("R11.6", "decoder", decoder.check_decoder_panics, chk, F)
    if not ONLY or "7" in ONLY:
        chk.guard("R11.7", "utxo-lookups", check_utxo_lookups, chk, F)
    if not ONLY or "8" in ONLY:
        chk.guard("R11.8", "key-parsers", check_key_parsers, chk, F)
    if not ONLY or "9" in ONLY:
        chk.guard("R11.9", "tree-height", check_tree_height, chk, F)
    if not ONLY or "0" in ONLY:
        from . import entrypoints
        chk.guard("R11.10", "gated-constructors", entrypoints.check_fn_constructors, chk, F, "R11.10")
        # the PSBT entry points taking an input index refuse an index beyond the input list before anything indexes with
        # it (rule shared with C14)
        from ..report import RuleAlias
        chk.guard("R11.11", "psbt-index", c14.check_entry_points, RuleAlias(chk, {"R14.5": "R11.11"}, "an out-of-range "
                  "input index is an error, not a panic"), F)
        # a signature of the greatest legal length (73 bytes with its sighash byte) in a pre-segwit satisfaction is written
        # into the scriptSig, not refused by an assertion (rule shared with C17)
        from . import c17
        chk.guard("R11.12", "scriptsig-elements", c17.check_scriptsig_encoding, chk, F, "R11.12")
        # Satisfaction::satisfy's expect("the same satisfier should manage to complete the template") cannot fire (shared with C17)
        chk.guard("R11.13", "template-completable", c17.check_template_completable, chk, F, "R11.13")
        chk.guard("R11.14", "translator-expects", check_translator_expects, chk, F)
        chk.guard("R11.15", "huffman-depth", check_huffman_depth, chk, F)
