"""C14 -- PSBT finalization yields a valid spend, atomically and idempotently.

Structural / abstract-evaluation clauses decided here (DESIGN.md C14):

R14.1  PsbtInputSatisfier::check_older / check_after are BIP-68/112 and BIP-65 as decision tables over
       (tx version, input sequence, lock time) grids around the requested lock
R14.2  finalize_input: evaluated on model PSBTs for the four states of (final_script_sig, final_script_witness) and
       the two outcomes of the helper: an already-final input is returned unchanged; a failing helper leaves the input
       unchanged; on success the input keeps exactly its utxo fields and gets the checked scriptSig / witness
       (None when empty), every other field cleared
R14.3  finalize_input_helper (MIR): takes the PSBT by shared reference; every success exit is dominated by the success
       of interpreter_inp_check, and the returned (witness, scriptSig) are the very values that were checked
R14.4  interpreter_inp_check: an error from any yielded constraint, or from from_txdata, fails the check
R14.5  the eight PsbtExt finalize entry points pass the malleability switch their name announces and finalize every
       input (finalize_mut collects per-input errors and keeps going)
R14.7  the updater records, per descriptor type, exactly the BIP-174 redeem / witness script and nothing on a
       scriptPubKey mismatch
R14.6  get_descriptor infers a descriptor exactly when redeem / witness scripts and signing keys commit to the spent
       output (decision table against BIP-174 / 16 / 141 consistency)
R14.8  sighash_msg asks the sighash cache for the digest the spent output type prescribes (BIP-341 / BIP-143 / legacy),
       with the right script code, input index, amount and sighash type; error cases"""

import itertools
import os
import sys

from .. import mirq, symx
from ..interp import Machine, Adt, Term, PyVec, PyIter, Panic, ok, err, some, NONE, explore, dcopy
from ..report import Unsupported

LEVEL = "other"
ONLY = os.environ.get("C14_ONLY", "")

SATF = "psbt::PsbtInputSatisfier"
TX = "bitcoin::Transaction"
TXIN = "bitcoin::TxIn"
PSBT = "bitcoin::Psbt"
INPUT = "bitcoin::psbt::Input"
VERSION = "bitcoin::transaction::Version"


def lock_hooks(m):
    """rust-bitcoin lock-time types by their consensus u32 (BIP-65 / BIP-68 encodings)"""
    from ..builtins import deref
    h = m.hooks

    def rel_of(v):
        v = deref(v)
        return v[1] if isinstance(v, tuple) else v

    def rel_implied(m_, a, c):
        n, lt = rel_of(a[0]), rel_of(a[1])
        if (n & (1 << 22)) != (lt & (1 << 22)):
            return False
        return (n & 0xffff) <= (lt & 0xffff)
    h["bitcoin::relative::LockTime::is_implied_by"] = rel_implied
    h["bitcoin::relative::LockTime::to_consensus_u32"] = lambda m_, a, c: rel_of(a[0])
    h["bitcoin::relative::LockTime::to_sequence"] = lambda m_, a, c: rel_of(a[0])
    h["bitcoin::Sequence::to_relative_lock_time"] = \
        lambda m_, a, c: some(("rel", deref(a[0]))) if (deref(a[0]) & (1 << 31)) == 0 else NONE
    h["bitcoin::Sequence::enables_absolute_lock_time"] = lambda m_, a, c: deref(a[0]) != 0xffffffff
    h["bitcoin::TxIn::enables_lock_time"] = lambda m_, a, c: deref(a[0]).fields["sequence"] != 0xffffffff
    # transaction-wide: nLockTime is in force when some input is not final (not what one input's OP_CLTV looks at)
    h["bitcoin::Transaction::is_lock_time_enabled"] = \
        lambda m_, a, c: any(deref(i).fields["sequence"] != 0xffffffff for i in deref(deref(a[0]).fields["input"]).items)

    # `<dyn Satisfier<Pk>>::check_older(&seq, n)`: dynamic dispatch on the (modelled) receiver type
    F = m.facts

    def dyn(name, table):
        d = "miniscript::satisfy::Satisfier::" + name

        def hook(m_, a, c):
            recv = deref(a[0])
            for pred, ty in table:
                if pred(recv):
                    p = "<%s as miniscript::satisfy::Satisfier<Pk>>::%s" % (ty, name)
                    if p not in F.bodies:
                        raise Unsupported("no Satisfier::%s impl for %s" % (name, ty))
                    return m_.call_path(p, a)
            return m_.call_path(d, a)       # the trait's default body
        h[d] = hook
    dyn("check_older", [(lambda v: isinstance(v, int) and not isinstance(v, bool), "bitcoin::Sequence"),
                        (lambda v: isinstance(v, tuple) and v and v[0] == "rel", "bitcoin::relative::LockTime")])
    dyn("check_after", [(lambda v: isinstance(v, int) and not isinstance(v, bool), "bitcoin::absolute::LockTime")])

    def abs_implied(m_, a, c):
        n, lt = deref(a[0]), deref(a[1])
        if (n < 500000000) != (lt < 500000000):
            return False
        return n <= lt
    h["bitcoin::absolute::LockTime::is_implied_by"] = abs_implied


def mk_psbt(version, lock_time, sequences, inputs=None):
    tx = Adt(TX, "Transaction", {
        "version": Adt(VERSION, "Version", {"0": version}), "lock_time": lock_time,
        "input": PyVec([Adt(TXIN, "TxIn", {"sequence": s, "previous_output": Term("outpoint", i),
                                           "script_sig": Term("ssig"), "witness": Term("wit")})
                        for i, s in enumerate(sequences)]),
        "output": PyVec([])})
    return Adt(PSBT, "Psbt", {"unsigned_tx": tx, "inputs": PyVec(inputs if inputs is not None else
                                                                  [Term("input", i) for i in range(len(sequences))]),
                              "outputs": PyVec([]), "version": 0, "xpub": Term("xpub"),
                              "proprietary": Term("prop"), "unknown": Term("unk")})


def check_locks(chk, F):
    R = "R14.1"
    chk.rule(R, "PsbtInputSatisfier::check_older(n) holds exactly when tx version >= 2, the input's sequence is a relative "
                "lock of the same unit with value >= n (BIP-68/112); check_after(n) exactly when the input's sequence is "
                "not final and the tx lock time is of the same unit and >= n (BIP-65); grids around n, both units, "
                "the disable flag and the final sequence")
    impl = [i for i in F.impls if i["self_adt"] == SATF and (i["trait"] or "").endswith("Satisfier")]
    if len(impl) != 1:
        raise KeyError("Satisfier impl for PsbtInputSatisfier")
    items = {it["name"]: it["path"] for it in impl[0]["items"]}
    chk.saw(items["check_older"], items["check_after"])
    m = Machine(F, strict=True)
    lock_hooks(m)
    TYPE = 1 << 22
    DIS = 1 << 31
    n_cases = 0
    bad = []
    for n in (5, 5 | TYPE, 65535, 1):
        seqs = sorted({max((n & 0xffff) + d, 0) | (n & TYPE) for d in (-1, 0, 1)} |
                      {(n & 0xffff) | ((n & TYPE) ^ TYPE), ((n & 0xffff) + 1) | ((n & TYPE) ^ TYPE),
                       n | DIS, 0xffffffff, 0xfffffffe, 0, (n & TYPE) | 0xffff, n | (1 << 16), n | (1 << 23)})
        for version in (0, 1, 2, 3):
            for seq in seqs:
                for idx in (0, 1):
                    sequences = [0xffffffff, 0xffffffff]
                    sequences[idx] = seq
                    ps = mk_psbt(version, 0, sequences)
                    sat = Adt(SATF, "PsbtInputSatisfier", {"psbt": ps, "index": idx})
                    got = m.call_callee({"def": items["check_older"], "resolved": items["check_older"],
                                         "name": "check_older", "targs": ["bitcoin::PublicKey"]}, [sat, ("rel", n)])
                    want = version >= 2 and (seq & DIS) == 0 and (seq & TYPE) == (n & TYPE) \
                        and (n & 0xffff) <= (seq & 0xffff)
                    n_cases += 1
                    if got is not want:
                        bad.append("check_older(n=%#x) with version=%d sequence=%#x input=%d: %r, BIP-68 says %r"
                                   % (n, version, seq, idx, got, want))
    chk.obligation(R, not bad, "check_older", "%d case(s); first: %s" % (len(bad), bad[0] if bad else ""),
                   where="src/psbt/mod.rs", detail=bad[:10])
    bad = []
    for n in (100, 500000100, 1, 499999999, 500000000):
        lts = sorted({max(n + d, 0) for d in (-1, 0, 1)} | {0, (n + 500000000) if n < 500000000 else n - 500000000,
                                                           499999999, 500000000, 0xffffffff})
        for lt in lts:
            for seq in (0, 5, 0xfffffffe, 0xffffffff):
                for other in (0, 0xffffffff):
                    for idx in (0, 1):
                        sequences = [other, other]
                        sequences[idx] = seq
                        ps = mk_psbt(2, lt, sequences)
                        sat = Adt(SATF, "PsbtInputSatisfier", {"psbt": ps, "index": idx})
                        got = m.call_callee({"def": items["check_after"], "resolved": items["check_after"],
                                             "name": "check_after", "targs": ["bitcoin::PublicKey"]}, [sat, n])
                        want = seq != 0xffffffff and (n < 500000000) == (lt < 500000000) and n <= lt
                        n_cases += 1
                        if got is not want:
                            bad.append("check_after(n=%d) with lock_time=%d sequence=%#x input=%d: %r, BIP-65 says %r"
                                       % (n, lt, seq, idx, got, want))
    chk.obligation(R, not bad, "check_after", "%d case(s); first: %s" % (len(bad), bad[0] if bad else ""),
                   where="src/psbt/mod.rs", detail=bad[:10])
    chk.floor(R, "grid points", n_cases, 900)


# ---- R14.2 finalize_input on model PSBTs ------------------------------------------------------------------------

INPUT_FIELDS = ["non_witness_utxo", "witness_utxo", "partial_sigs", "sighash_type", "redeem_script", "witness_script",
                "bip32_derivation", "final_script_sig", "final_script_witness", "ripemd160_preimages",
                "sha256_preimages", "hash160_preimages", "hash256_preimages", "tap_key_sig", "tap_script_sigs",
                "tap_scripts", "tap_key_origins", "tap_internal_key", "tap_merkle_root", "proprietary", "unknown"]


def mk_input(tag, fsig=NONE, fwit=NONE):
    f = {n: Term("orig", tag, n) for n in INPUT_FIELDS}
    f["final_script_sig"] = fsig
    f["final_script_witness"] = fwit
    return Adt(INPUT, "Input", f)


def default_input():
    return Adt(INPUT, "Input", {n: (NONE if n in ("final_script_sig", "final_script_witness") else Term("default", n))
                                for n in INPUT_FIELDS})


class Bytes(object):
    """an opaque script / witness value with a known emptiness"""
    __slots__ = ("name", "empty")

    def __init__(self, name, empty):
        self.name, self.empty = name, empty

    def __eq__(self, o):
        return isinstance(o, Bytes) and (self.name, self.empty) == (o.name, o.empty)

    def __hash__(self):
        return hash((self.name, self.empty))

    def __repr__(self):
        return "%s%s" % (self.name, "(empty)" if self.empty else "")


def check_finalize_input(chk, F):
    R = "R14.2"
    chk.rule(R, "finalize_input on model PSBTs (2 inputs, both indices): already-final inputs (either final field set) "
                "are returned Ok and unchanged without consulting the helper; a failing helper returns its error and "
                "leaves every input unchanged; a succeeding helper's (witness, scriptSig) are stored (None when empty), "
                "utxo fields and the unknown / proprietary fields kept (BIP-174: the finalizer clears everything but the UTXO "
                "and unknown fields), every other field of that input reset, other inputs untouched")
    fi = F.fn("finalize_input", file="psbt/finalizer.rs")
    helper = F.fn("finalize_input_helper", file="psbt/finalizer.rs")
    chk.saw(fi, helper)
    calls = []
    outcome = {}

    def helper_hook(m_, a, c):
        calls.append(a[1])
        return outcome["v"]
    m = Machine(F, strict=True, hooks={helper: helper_hook})
    from ..builtins import deref
    m.hooks["bitcoin::ScriptBuf::is_empty"] = lambda m_, a, c: deref(a[0]).empty
    m.hooks["bitcoin::Witness::is_empty"] = lambda m_, a, c: deref(a[0]).empty
    m.hooks["bitcoin::Script::is_empty"] = lambda m_, a, c: deref(a[0]).empty
    m.hooks["std::mem::take"] = _mem_take
    states = {"none": (NONE, NONE), "sig": (some(Bytes("old_sig", False)), NONE),
              "wit": (NONE, some(Bytes("old_wit", False))), "both": (some(Bytes("old_sig", False)), some(Bytes("old_wit", False)))}
    outcomes = {"err": err(Term("helper_error")),
                "ok-both": ok((Bytes("W", False), Bytes("S", False))),
                "ok-wit-only": ok((Bytes("W", False), Bytes("S", True))),
                "ok-sig-only": ok((Bytes("W", True), Bytes("S", False)))}
    for idx in (0, 1):
        for sname, (fs, fw) in states.items():
            for oname, oval in outcomes.items():
                key = "%s|%s|input%d" % (sname, oname, idx)
                inputs = [mk_input("a"), mk_input("b")]
                inputs[idx] = mk_input("x", dcopy(fs), dcopy(fw))
                before = [dcopy(i) for i in inputs]
                ps = mk_psbt(2, 0, [0, 0], inputs)
                outcome["v"] = dcopy(oval)
                del calls[:]
                try:
                    r = m.call_path(fi, [ps, idx, Term("secp"), False])
                except Unsupported as e:
                    chk.fail(R, "unanalysable:" + key, "unanalysable: %s" % e, where=e.where, kind="unanalysable")
                    continue
                except Panic as e:
                    chk.fail(R, key, "panic: %s" % e, where="src/psbt/finalizer.rs")
                    continue
                after = ps.fields["inputs"].items
                other = 1 - idx
                if repr(after[other]) != repr(before[other]):
                    chk.fail(R, key, "finalizing input %d changed input %d" % (idx, other), where="src/psbt/finalizer.rs")
                    continue
                if sname != "none":
                    good = r.variant == "Ok" and repr(after[idx]) == repr(before[idx]) and not calls
                    chk.obligation(R, good, key, "an input whose %s is already set is not preserved: result %r, helper "
                                   "consulted %d time(s), input %s" % (sname, r, len(calls),
                                                                       "unchanged" if repr(after[idx]) == repr(before[idx]) else "CHANGED"),
                                   where="src/psbt/finalizer.rs")
                    continue
                if oname == "err":
                    good = r.variant == "Err" and repr(after[idx]) == repr(before[idx]) and calls == [idx]
                    chk.obligation(R, good, key, "a failing finalization does not leave the input untouched / does not "
                                   "report the error: %r" % (r,), where="src/psbt/finalizer.rs")
                    continue
                w, s = oval.fields["0"]
                want = default_input()
                want.fields["non_witness_utxo"] = before[idx].fields["non_witness_utxo"]
                want.fields["witness_utxo"] = before[idx].fields["witness_utxo"]
                # BIP-174, Input Finalizer: "All other data except the UTXO and unknown fields in the input key-value map
                # should be cleared": fields this library has no name for (unknown, proprietary) belong to someone else
                want.fields["unknown"] = before[idx].fields["unknown"]
                want.fields["proprietary"] = before[idx].fields["proprietary"]
                want.fields["final_script_sig"] = NONE if s.empty else some(s)
                want.fields["final_script_witness"] = NONE if w.empty else some(w)
                diffs = [n for n in INPUT_FIELDS if repr(after[idx].fields.get(n)) != repr(want.fields[n])]
                chk.obligation(R, r.variant == "Ok" and not diffs and calls == [idx], key,
                               "after a successful finalization the input differs from the BIP-174 finalizer result in "
                               "fields %r (result %r)" % (diffs, r), where="src/psbt/finalizer.rs")


def _mem_take(m_, a, c):
    from ..interp import MutRef
    x = a[0]
    if isinstance(x, MutRef):
        old = x.get()
        if isinstance(old, Adt) and old.path == INPUT:
            old = Adt(old.path, old.variant, dict(old.fields))     # the place may be updated in place
            x.set(default_input())
            return old
    raise Unsupported("mem::take of %r" % (x,))


# ---- R14.3 MIR: helper checks what it returns -------------------------------------------------------------------

def local_sources(g, local, depth=0, seen=None):
    """locals that flow (by move / copy / ref / deref-copy) into `local`"""
    seen = seen if seen is not None else set()
    if local in seen or depth > 12:
        return seen
    seen.add(local)
    for blk in g.blocks:
        if blk["cleanup"]:
            continue
        for s in blk["stmts"]:
            if s["dst"]["l"] == local and not s["dst"]["p"]:
                if s["rv"] in ("use", "cast") and s.get("ops"):
                    pl = s["ops"][0].get("place")
                    if pl:
                        local_sources(g, pl["l"], depth + 1, seen)
                elif s["rv"] == "ref":
                    local_sources(g, s["place"]["l"], depth + 1, seen)
        t = blk["term"]
        if t["t"] == "call" and t["dst"]["l"] == local and not t["dst"]["p"]:
            fn = t["func"].get("fn") if t["func"].get("o") == "const" else None
            if fn is not None and fn.get("name") in ("deref", "as_ref", "borrow", "clone", "as_script", "as_slice"):
                for a in t["args"]:
                    if a.get("place"):
                        local_sources(g, a["place"]["l"], depth + 1, seen)
    return seen


def check_helper_mir(chk, F):
    R = "R14.3"
    chk.rule(R, "finalize_input_helper borrows the PSBT immutably (cannot mutate it); each of its success exits is "
                "reachable only through the success edge of interpreter_inp_check; the witness and scriptSig passed to that "
                "check are the locals moved into the returned pair")
    helper = F.fn("finalize_input_helper", file="psbt/finalizer.rs")
    f = F.fns[helper]
    ins = [F.ty(t) for t in f["inputs"]]
    chk.obligation(R, ins and ins[0].startswith("&") and not ins[0].startswith("&mut") and "Psbt" in ins[0], "signature",
                   "finalize_input_helper takes %r, expected a shared reference to the PSBT" % (ins[:1],))
    okp, missing = mirq.must_pass(F, helper, lambda c: c.get("name") == "interpreter_inp_check")
    chk.obligation(R, okp, "must-pass", "a success exit of finalize_input_helper does not pass the interpreter check: %s"
                   % "; ".join(missing), where="src/psbt/finalizer.rs")
    g = mirq.CFG(F, helper)
    chk_args = None
    for (cb, callee, t) in g.calls():
        if callee.get("name") == "interpreter_inp_check":
            chk_args = [a.get("place", {}).get("l") for a in t["args"]]
    if chk_args is None or len(chk_args) < 6:
        chk.fail(R, "anchor", "interpreter_inp_check call not found in finalize_input_helper", kind="unanalysable")
        return
    wit_src = local_sources(g, chk_args[4])
    ssig_src = local_sources(g, chk_args[5])
    # the Ok((witness, script_sig)) aggregate
    found = False
    for blk in g.blocks:
        if blk["cleanup"]:
            continue
        for s in blk["stmts"]:
            if s["rv"] == "agg" and s.get("adt") == "(tuple)" and len(s.get("ops", [])) == 2:
                a, b = [o.get("place", {}).get("l") for o in s["ops"]]
                if a is None or b is None:
                    continue
                # the locals that own the values (not the temporaries / references)
                wa = local_sources(g, a) & wit_src
                sb = local_sources(g, b) & ssig_src
                if wa and sb:
                    found = True
    chk.obligation(R, found, "returned-values", "the pair returned by finalize_input_helper is not built from the "
                   "witness / scriptSig locals that were passed to interpreter_inp_check (witness sources %r, scriptSig "
                   "sources %r)" % (sorted(wit_src), sorted(ssig_src)), where="src/psbt/finalizer.rs")


# ---- R14.4 interpreter_inp_check --------------------------------------------------------------------------------

def check_interp_check(chk, F):
    R = "R14.4"
    chk.rule(R, "interpreter_inp_check fails when from_txdata fails and when any item yielded by the interpreter's "
                "iterator is an error (at any position), and succeeds otherwise; it is given the PSBT's own lock time, "
                "the input's sequence and the spent scriptPubKey")
    fn = F.fn("interpreter_inp_check", file="psbt/finalizer.rs")
    gs = F.fn("get_scriptpubkey", file="psbt/finalizer.rs")
    chk.saw(fn)
    seen = {}
    cfg = {}

    def from_txdata(m_, a, c):
        seen["args"] = a
        return cfg["txdata"]

    def iter_hook(m_, a, c):
        from ..interp import PyIter
        seen["iter_args"] = a
        return PyIter(list(cfg["items"]))
    ftx = [p for p in F.fns if p.endswith("Interpreter::<'txin>::from_txdata")]
    it = [p for p in F.fns if p.endswith("Interpreter::<'txin>::iter")]
    if len(ftx) != 1 or len(it) != 1:
        raise KeyError("Interpreter::from_txdata / iter")
    m = Machine(F, strict=True, hooks={ftx[0]: from_txdata, it[0]: iter_hook, gs: lambda m_, a, c: ok(Term("spk", a[1]))})
    C = lambda i: ok(Term("constraint", i))
    E = lambda i: err(Term("interp_error", i))
    cases = {
        "all-ok": (ok(Term("interp")), [C(0), C(1), C(2)], True), "empty": (ok(Term("interp")), [], True),
        "err-first": (ok(Term("interp")), [E(0), C(1)], False), "err-middle": (ok(Term("interp")), [C(0), E(1), C(2)], False),
        "err-last": (ok(Term("interp")), [C(0), C(1), E(2)], False), "txdata-err": (err(Term("txdata_error")), [C(0)], False),
    }
    for name, (txd, items, want) in cases.items():
        cfg["txdata"], cfg["items"] = txd, items
        ps = mk_psbt(2, Term("LOCKTIME"), [Term("SEQ0"), Term("SEQ1")])
        try:
            r = m.call_path(fn, [ps, Term("secp"), 1, Term("utxos"), Term("witness"), Term("script_sig")])
        except Unsupported as e:
            chk.fail(R, "unanalysable:" + name, "unanalysable: %s" % e, where=e.where, kind="unanalysable")
            continue
        chk.obligation(R, (r.variant == "Ok") == want, name, "interpreter_inp_check returned %r" % (r,),
                       where="src/psbt/finalizer.rs")
        if name == "all-ok":
            a = seen.get("args") or []
            good = len(a) >= 5 and repr(a[0]) == repr(Term("spk", 1)) and repr(a[1]) == repr(Term("script_sig")) \
                and repr(a[2]) == repr(Term("witness")) and repr(a[3]) == repr(Term("SEQ1")) \
                and repr(a[4]) == repr(Term("LOCKTIME"))
            chk.obligation(R, good, "txdata-args", "from_txdata is called with %r" % (a,), where="src/psbt/finalizer.rs")
            ia = seen.get("iter_args") or []
            good = len(ia) >= 5 and repr(ia[3]) == "1" and repr(ia[4]) == repr(Term("utxos"))
            chk.obligation(R, good, "iter-args", "the interpreter iterator is created with %r" % (ia[1:],),
                           where="src/psbt/finalizer.rs")


# ---- R14.5 entry points -----------------------------------------------------------------------------------------

def check_entry_points(chk, F):
    R = "R14.5"
    chk.rule(R, "PsbtExt finalize entry points: `mall` in the name <=> allow_mall = true reaches finalize_input; the "
                "whole-PSBT entry points visit every input index; *_inp_* entry points refuse an out-of-range index "
                "with an error")
    impl = [i for i in F.impls if (i["trait"] or "").endswith("PsbtExt") and i["self_adt"] == PSBT]
    if len(impl) != 1:
        raise KeyError("impl PsbtExt for Psbt")
    items = {it["name"]: it["path"] for it in impl[0]["items"]}
    fi = F.fn("finalize_input", file="psbt/finalizer.rs")
    san = F.fn("sanity_check", file="psbt/mod.rs")
    names = ["finalize_mut", "finalize", "finalize_mall_mut", "finalize_mall", "finalize_inp_mut", "finalize_inp",
             "finalize_inp_mall_mut", "finalize_inp_mall"]
    calls = []
    cfg = {"fail": set()}

    def fi_hook(m_, a, c):
        calls.append((a[1], a[3]))
        if a[1] in cfg["fail"]:
            return err(Term("finalize_error", a[1]))
        return ok(())
    m = Machine(F, strict=True, hooks={fi: fi_hook, san: lambda m_, a, c: ok(())})
    for nm in names:
        if nm not in items:
            chk.fail(R, "missing:" + nm, "entry point %s not found" % nm, kind="unanalysable")
            continue
        chk.saw(items[nm])
        want_mall = "mall" in nm
        single = "_inp" in nm
        for fail in (set(), {1}):
            cfg["fail"] = fail
            del calls[:]
            ps = mk_psbt(2, 0, [0, 0, 0], [mk_input("a"), mk_input("b"), mk_input("c")])
            args = [ps, Term("secp")] if not single else [ps, Term("secp"), 1]
            try:
                r = m.call_callee({"def": items[nm], "resolved": items[nm], "name": nm, "targs": ["C"]}, args)
            except Unsupported as e:
                chk.fail(R, "unanalysable:" + nm, "unanalysable: %s" % e, where=e.where, kind="unanalysable")
                break
            key = "%s|fail=%s" % (nm, sorted(fail))
            malls = {c_[1] for c_ in calls}
            idxs = [c_[0] for c_ in calls]
            good = malls == {want_mall}
            if single:
                good = good and idxs == [1]
            else:
                good = good and idxs == [0, 1, 2]
            res_ok = isinstance(r, Adt) and r.variant == ("Err" if fail else "Ok")
            chk.obligation(R, good and res_ok, key, "%s called finalize_input with (index, allow_mall) %r and returned %s"
                           % (nm, calls, r.variant if isinstance(r, Adt) else r), where="src/psbt/mod.rs")
        if single:
            del calls[:]
            ps = mk_psbt(2, 0, [0, 0], [mk_input("a"), mk_input("b")])
            try:
                r = m.call_callee({"def": items[nm], "resolved": items[nm], "name": nm, "targs": ["C"]},
                                  [ps, Term("secp"), 2])
                chk.obligation(R, isinstance(r, Adt) and r.variant == "Err" and not calls, nm + "|out-of-range",
                               "index 2 of 2 inputs: %r, finalize_input calls %r" % (r, calls), where="src/psbt/mod.rs")
            except Panic as e:
                chk.fail(R, nm + "|out-of-range", "out-of-range index panics: %s" % e, where="src/psbt/mod.rs")
            except Unsupported as e:
                chk.fail(R, "unanalysable:" + nm, "unanalysable: %s" % e, where=e.where, kind="unanalysable")


# ---- R14.7 updater: which scripts are recorded ------------------------------------------------------------------

def check_updater(chk, F):
    from . import assembly
    from ..interp import explore
    spec = assembly.spec
    R = "R14.7"
    chk.rule(R, "update_item_with_descriptor_helper records, per descriptor type, exactly the redeem / witness script of "
                "BIP-174 (and the derivation map), and records nothing when the target scriptPubKey does not match")
    fn = F.fn("update_item_with_descriptor_helper", file="psbt/mod.rs")
    chk.saw(fn)
    vals = assembly.values()
    hooks = dict(assembly.script_hooks())
    from ..builtins import deref, PySet

    class PyMap(PyVec):
        pass
    hooks["std::collections::BTreeMap::<K, V>::new"] = lambda m_, a, c: PyMap()

    def append(m_, a, c):
        x, y = deref(a[0]), deref(a[1])
        if isinstance(x, Term):
            raise Unsupported("append to opaque map")
        x.items.extend(y.items)
        y.items[:] = []
        return ()
    hooks["std::collections::BTreeMap::<K, V, A>::append"] = append
    hooks["bitcoin::secp256k1::Secp256k1::<bitcoin::secp256k1::VerifyOnly>::verification_only"] = lambda m_, a, c: Term("secp")
    hooks["bitcoin::secp256k1::context::alloc_only::<impl bitcoin::secp256k1::Secp256k1<bitcoin::secp256k1::VerifyOnly>>::verification_only"] = lambda m_, a, c: Term("secp")
    DESC = "descriptor::Descriptor"
    for name, v in vals.items():
        dv = Adt(DESC, {"Bare": "Bare", "Pkh": "Pkh", "Wpkh": "Wpkh", "Wsh": "Wsh"}.get(name, "Sh"), {"0": v})
        for match in (True, False):
            key = "%s|%s" % (name, "match" if match else "mismatch")

            def translate(m_, a, c, dv=dv):
                lk = deref(a[1])
                if isinstance(lk, Adt) and "0" in lk.fields and isinstance(lk.fields["0"], PyVec):
                    lk.fields["0"].items.append(("derived_key", "key_source"))
                return ok(dcopy(dv))
            hk = dict(hooks)
            for p in F.fns:
                if p.endswith("Descriptor::<Pk>::translate_pk"):
                    hk[p] = translate
            m = Machine(F, strict=False, hooks=hk, uninterpreted=assembly.unint)
            spk_fn = assembly.method(F, DESC, "script_pubkey")
            try:
                spk = m.call_path(spk_fn, [dcopy(dv)])
                item = mk_input("item")
                for n in ("redeem_script", "witness_script"):
                    item.fields[n] = NONE
                item.fields["bip32_derivation"] = PyMap()
                target = spk if match else Term("some_other_script")

                def assume(t, taken):
                    if t.op == "eq" or t.op == "ne":
                        return (t.op == "eq") == match if "some_other_script" in repr(t) else None
                    return None
                res = explore(m, lambda: m.call_callee({"def": fn, "resolved": fn, "name": "helper",
                                                        "targs": [INPUT]}, [item, dcopy(dv), some(target)]), assume)
            except Unsupported as e:
                chk.fail(R, "unanalysable:" + key, "unanalysable: %s" % e, where=e.where, kind="unanalysable")
                continue
            if len(res) != 1:
                chk.fail(R, key, "expected a single path, got %d" % len(res), kind="unanalysable")
                continue
            conds, r = res[0]
            flag = r.fields["0"][1] if isinstance(r, Adt) and r.variant == "Ok" else None
            red = assembly.nf(item.fields["redeem_script"].fields["0"]) if item.fields["redeem_script"].variant == "Some" else None
            wit = assembly.nf(item.fields["witness_script"].fields["0"]) if item.fields["witness_script"].variant == "Some" else None
            nmap = len(item.fields["bip32_derivation"].items)
            if match:
                want = spec.PSBT_SCRIPTS[name]
                chk.obligation(R, flag is True and (red, wit) == want and nmap == 1, key,
                               "recorded redeem_script=%r witness_script=%r derivations=%d flag=%r; BIP-174 expects %r"
                               % (red, wit, nmap, flag, want), where="src/psbt/mod.rs")
            else:
                chk.obligation(R, flag is False and red is None and wit is None and nmap == 0, key,
                               "scriptPubKey mismatch but fields were written: redeem=%r witness=%r derivations=%d flag=%r"
                               % (red, wit, nmap, flag), where="src/psbt/mod.rs")


# ---- R14.6 get_descriptor ---------------------------------------------------------------------------------------

def check_get_descriptor(chk, F):
    from . import c13
    from ..builtins import deref, PyMap
    X = c13.X
    PyScript, h160, sha = c13.PyScript, c13.h160, c13.sha
    R = "R14.6"
    chk.rule(R, "get_descriptor infers a descriptor exactly when the PSBT's scripts commit to the spent output (BIP-174 / "
                "BIP-16 / BIP-141): decision table over output type x redeem script x witness script x keys with partial "
                "signatures; the inferred descriptor is of the matching kind over the committed script / key")
    gd = F.fn("get_descriptor", file="psbt/finalizer.rs")
    chk.saw(gd)
    KA, KB, KU = c13.KA, c13.KB, c13.KU
    SA, SB = c13.ms_script("pk(A)", "any"), c13.ms_script("pk(B)", "any")

    def pk(tok):
        return Adt("bitcoin::PublicKey", "PublicKey", {"compressed": tok.extra == "ecdsa", "inner": tok})
    m = Machine(F, strict=True, max_depth=60)
    m.tok_index = c13._tok_index
    h = m.hooks
    for k in ("p2pk", "p2pkh", "p2wpkh", "p2wsh", "p2tr", "p2sh"):
        h["bitcoin::Script::is_" + k] = (lambda kind: lambda m_, a, c: deref(a[0]).kind == kind)(k)
    h["bitcoin::Script::len"] = lambda m_, a, c: deref(a[0]).bytes().length

    class KeyBytes(object):
        """the bytes of a script as an opaque token of known length"""
        def __init__(self, script):
            self.script = script
            self.length = script.bytes().length
    h["bitcoin::Script::to_bytes"] = lambda m_, a, c: KeyBytes(deref(a[0]))

    def kb_index(m_, a, c):
        v, r = deref(a[0]), deref(a[1])
        if isinstance(v, KeyBytes) and isinstance(r, Adt):
            n = v.script.bytes().length
            if v.script.kind == "p2pk" and r.fields.get("start") == 1 and r.fields.get("end") == n - 1:
                return v.script.data
            return X.Tok("junk", "slice", 5)
        from .. import builtins
        return builtins._index(m_, a, c)
    from .. import builtins as B
    saved_index = B.TRAIT_TABLE[("std::ops::Index", "index")]
    h["bitcoin::PublicKey::from_slice"] = lambda m_, a, c: ok(pk(deref(a[0]))) if isinstance(deref(a[0]), X.Tok) and \
        deref(a[0]).kind == "key" else err(Term("KeyError"))
    h["bitcoin::PublicKey::new"] = lambda m_, a, c: pk(deref(a[0])) if isinstance(deref(a[0]), X.Tok) else deref(a[0])
    h["bitcoin::PublicKey::pubkey_hash"] = lambda m_, a, c: h160(deref(a[0]).fields["inner"])
    h["bitcoin::PubkeyHash::to_raw_hash"] = lambda m_, a, c: deref(a[0])
    h["bitcoin::hashes::Hash::to_raw_hash"] = lambda m_, a, c: deref(a[0])
    h["bitcoin::Address::p2pkh"] = lambda m_, a, c: PyScript("p2pkh", h160(deref(a[0]).fields["inner"]))
    h["bitcoin::Address::p2wpkh"] = lambda m_, a, c: PyScript("p2wpkh", h160(deref(a[0]).fields["inner"]))
    h["bitcoin::Address::script_pubkey"] = lambda m_, a, c: deref(a[0])
    h["bitcoin::key::CompressedPublicKey::try_from"] = lambda m_, a, c: ok(deref(a[0])) if deref(a[0]).fields["compressed"] \
        else err(Term("Uncompressed"))
    h["<bitcoin::CompressedPublicKey as std::convert::TryFrom<bitcoin::PublicKey>>::try_from"] = \
        h["bitcoin::key::CompressedPublicKey::try_from"]
    h["bitcoin::Script::to_p2wsh"] = lambda m_, a, c: PyScript("p2wsh", sha(deref(a[0]).data))
    h["bitcoin::Script::to_p2sh"] = lambda m_, a, c: PyScript("p2sh", h160(_sbytes(deref(a[0]))))

    def _sbytes(s):
        return s.data if s.kind == "ms" else s.bytes()
    for p in F.fns:
        if p.endswith("::decode_consensus"):
            h[p] = lambda m_, a, c: ok(Adt(c13.MS, "Miniscript", {"node": Term("decoded", deref(a[0]).data.name), "ty": Term("ty"),
                                                                   "ext": Term("ext"), "phantom": (), "src": deref(a[0]).data})) \
                if isinstance(deref(a[0]), PyScript) and deref(a[0]).kind == "ms" else err(Term("DecodeError"))
        if p.endswith("::substitute_raw_pkh"):
            h[p] = lambda m_, a, c: deref(a[0])
    DESC = "descriptor::Descriptor"
    for nm, kind in (("new_pk", "Pk"), ("new_pkh", "Pkh"), ("new_wpkh", "Wpkh"), ("new_sh_wpkh", "ShWpkh"), ("new_wsh", "Wsh"),
                     ("new_sh_wsh", "ShWsh"), ("new_sh", "Sh"), ("new_bare", "Bare")):
        for p in F.fns:
            if p.endswith("Descriptor::<Pk>::" + nm):
                def mk(kind_, nm_):
                    def f(m_, a, c):
                        v = deref(a[0])
                        payload = v.fields["inner"] if isinstance(v, Adt) and "inner" in v.fields else \
                            (v.fields.get("src") if isinstance(v, Adt) else v)
                        r = ("desc", kind_, payload)
                        return r if nm_ == "new_pk" else ok(r)
                    return f
                h[p] = mk(kind, nm)

    def utxo(spk):
        return some(Adt("bitcoin::TxOut", "TxOut", {"script_pubkey": spk, "value": Term("value")}))

    def expected(spk, redeem, wscript, sigkeys):
        """BIP-174 consistency: -> ("desc", kind, payload) | None"""
        k = spk.kind
        if k == "p2pk":
            return ("desc", "Pk", spk.data)
        if k == "p2pkh":
            for t in sigkeys:
                if h160(t) == spk.data:
                    return ("desc", "Pkh", t)
            return None
        if k == "p2wpkh":
            for t in sigkeys:
                if t.extra == "ecdsa" and h160(t) == spk.data:
                    return ("desc", "Wpkh", t)
            return None
        if k == "p2wsh":
            if redeem is not None or wscript is None or wscript.kind != "ms" or sha(wscript.data) != spk.data:
                return None
            return ("desc", "Wsh", wscript.data)
        if k == "p2sh":
            if redeem is None or h160(_sbytes(redeem)) != spk.data:
                return None
            if redeem.kind == "p2wsh":
                if wscript is None or wscript.kind != "ms" or sha(wscript.data) != redeem.data:
                    return None
                return ("desc", "ShWsh", wscript.data)
            if redeem.kind == "p2wpkh":
                for t in sigkeys:
                    if t.extra == "ecdsa" and h160(t) == redeem.data:
                        return ("desc", "ShWpkh", t)
                return None
            if wscript is not None or redeem.kind != "ms":
                return None
            return ("desc", "Sh", redeem.data)
        if k == "ms":
            if redeem is not None or wscript is not None:
                return None
            return ("desc", "Bare", spk.data)
        return None
    WA = PyScript("ms", SA)
    WB = PyScript("ms", SB)
    RWPKH = PyScript("p2wpkh", h160(KA))
    RWSH = PyScript("p2wsh", sha(SA))
    spks = [("p2pk", PyScript("p2pk", KA)), ("p2pkh", PyScript("p2pkh", h160(KA))), ("p2pkh-u", PyScript("p2pkh", h160(KU))),
            ("p2wpkh", PyScript("p2wpkh", h160(KA))), ("p2wpkh-u", PyScript("p2wpkh", h160(KU))),
            ("p2wsh", PyScript("p2wsh", sha(SA))), ("p2sh-ms", PyScript("p2sh", h160(SA))),
            ("p2sh-wpkh", PyScript("p2sh", h160(RWPKH.bytes()))), ("p2sh-wsh", PyScript("p2sh", h160(RWSH.bytes()))),
            ("bare", PyScript("ms", SA))]
    redeems = [None, WA, WB, RWPKH, RWSH, PyScript("p2wpkh", h160(KB)), PyScript("p2wsh", sha(SB))]
    wscripts = [None, WA, WB]
    keysets = [[], [KA], [KB], [KU], [KB, KA], [KU, KA]]
    B.TRAIT_TABLE[("std::ops::Index", "index")] = kb_index
    n = 0
    bad = {}
    try:
        for (sname, spk), redeem, wscript, ks in itertools.product(spks, redeems, wscripts, keysets):
            inp = mk_input("x")
            inp.fields["witness_utxo"] = utxo(spk)
            inp.fields["non_witness_utxo"] = NONE
            inp.fields["redeem_script"] = some(redeem) if redeem is not None else NONE
            inp.fields["witness_script"] = some(wscript) if wscript is not None else NONE
            inp.fields["partial_sigs"] = PyMap([(pk(t), Term("sig", t.name)) for t in ks])
            inp.fields["bip32_derivation"] = PyMap([])
            ps = mk_psbt(2, 0, [0], [inp])
            n += 1
            try:
                r = m.call_path(gd, [ps, 0])
            except Unsupported as e:
                chk.fail(R, "unanalysable:" + sname, "unanalysable: %s" % e, where=e.where, kind="unanalysable")
                break
            except Panic as e:
                bad.setdefault(sname, []).append("panic: %s (redeem=%r witness=%r keys=%r)" % (e, redeem, wscript, ks))
                continue
            got = r.fields["0"] if r.variant == "Ok" else None
            if isinstance(got, tuple) and isinstance(got[2], Adt) and "inner" in got[2].fields:
                got = (got[0], got[1], got[2].fields["inner"])
            want = expected(spk, redeem, wscript, ks)
            if repr(got) != repr(want):
                bad.setdefault(sname, []).append("redeem=%r witness=%r sig keys=%r: inferred %r, consistent inference %r"
                                                 % (redeem, wscript, ks, got, want))
    finally:
        B.TRAIT_TABLE[("std::ops::Index", "index")] = saved_index
    for sname, _ in spks:
        if sname in bad:
            chk.fail(R, sname, "%d combination(s); first: %s" % (len(bad[sname]), bad[sname][0]), where="src/psbt/finalizer.rs",
                     detail=bad[sname][:10])
        else:
            chk.ok(R)
    chk.extra["R14.6_combinations"] = n
    chk.floor(R, "combinations", n, 1000)


# ---- R14.8 sighash_msg: which digest, over which script code, amount and input ------------------------------------

def check_sighash_msg(chk, F):
    from . import c13
    from ..builtins import deref
    X = c13.X
    PyScript, h160, sha = c13.PyScript, c13.h160, c13.sha
    R = "R14.8"
    chk.rule(R, "PsbtExt::sighash_msg asks the sighash cache for the digest that the spent output type prescribes "
                "(BIP-341 key / script spend for p2tr, BIP-143 with the p2wpkh or witness script for segwit v0 incl. "
                "p2sh-nested, legacy over the redeem script or the scriptPubKey otherwise), for input idx, with that "
                "input's amount, all prevouts and the PSBT's sighash type (default ALL / DEFAULT); errors for an index "
                "out of range, missing utxos, missing scripts and unusable sighash types")
    sm = "<bitcoin::Psbt as psbt::PsbtExt>::sighash_msg"
    if sm not in F.fns:
        chk.fail(R, "anchor", "PsbtExt::sighash_msg not found", kind="unanalysable")
        return
    chk.saw(sm)
    KA, KB = c13.KA, c13.KB
    SA = c13.ms_script("pk(A)", "any")
    m = Machine(F, strict=True, max_depth=60)
    h = m.hooks
    for k in ("p2pk", "p2pkh", "p2wpkh", "p2wsh", "p2tr", "p2sh"):
        h["bitcoin::Script::is_" + k] = (lambda kind: lambda m_, a, c: deref(a[0]).kind == kind)(k)

    def cache_fn(name):
        def f(m_, a, c):
            return ok(("digest", name) + tuple(deref(x) for x in a[1:]))
        return f
    for nm in ("taproot_script_spend_signature_hash", "taproot_key_spend_signature_hash", "p2wpkh_signature_hash",
               "p2wsh_signature_hash", "legacy_signature_hash"):
        for pre in ("bitcoin::sighash::SighashCache::<R>::", "bitcoin::sighash::SighashCache::<T>::",
                    "bitcoin::sighash::SighashCache::"):
            h[pre + nm] = cache_fn(nm)
    h["bitcoin::psbt::PsbtSighashType::taproot_hash_ty"] = lambda m_, a, c: deref(a[0])[1]
    h["bitcoin::psbt::PsbtSighashType::ecdsa_hash_ty"] = lambda m_, a, c: deref(a[0])[2]
    h["bitcoin::EcdsaSighashType::to_u32"] = lambda m_, a, c: ("u32", deref(a[0]))
    h["bitcoin::sighash::EcdsaSighashType::to_u32"] = h["bitcoin::EcdsaSighashType::to_u32"]

    def tap_ty(v):
        return Adt("bitcoin::TapSighashType", v, {})

    def ecdsa_ty(v):
        return Adt("bitcoin::EcdsaSighashType", v, {})
    # PSBT sighash types: (tag, taproot reading, ecdsa reading)
    SIGTYPES = [("unset", None), ("single", ("pst", ok(tap_ty("Single")), ok(ecdsa_ty("Single")))),
                ("taproot-only", ("pst", ok(tap_ty("Default")), err(Term("NonStandard")))),
                ("ecdsa-only", ("pst", err(Term("InvalidTap")), ok(ecdsa_ty("AllPlusAnyoneCanPay"))))]
    WA = PyScript("ms", SA)
    RWPKH = PyScript("p2wpkh", h160(KA))
    RWSH = PyScript("p2wsh", sha(SA))
    spks = [("p2tr", PyScript("p2tr", X.Tok("key", "OUT", 32))), ("p2wpkh", PyScript("p2wpkh", h160(KA))),
            ("p2wsh", PyScript("p2wsh", sha(SA))), ("p2sh", PyScript("p2sh", h160(SA))), ("p2pkh", PyScript("p2pkh", h160(KA))),
            ("p2pk", PyScript("p2pk", KA)), ("bare", PyScript("ms", SA))]
    redeems = [("-", None), ("ms", WA), ("wpkh", RWPKH), ("wsh", RWSH)]
    wscripts = [("-", None), ("ms", WA)]
    leafs = [("-", NONE), ("leaf", some(Term("leafhash")))]
    OTHER = Adt("bitcoin::TxOut", "TxOut", {"script_pubkey": PyScript("p2wpkh", h160(KB)), "value": Term("amount", "other")})

    def expected(spk, redeem, wscript, leaf, st, idx):
        """the BIP-174 signer's digest for this input, or an error tag"""
        if spk.kind == "p2tr":
            ty = tap_ty("Default") if st is None else st[1]
            if isinstance(ty, Adt) and ty.variant == "Err":
                return "Err:InvalidSighashType"
            ty = ty.fields["0"] if ty.variant == "Ok" else ty
            if leaf.variant == "Some":
                return ("digest", "taproot_script_spend_signature_hash", idx, "all-prevouts", leaf.fields["0"], ty)
            return ("digest", "taproot_key_spend_signature_hash", idx, "all-prevouts", ty)
        ty = ok(ecdsa_ty("All")) if st is None else st[2]
        if ty.variant == "Err":
            return "Err:InvalidSighashType"
        ty = ty.fields["0"]
        amt = Term("amount", "mine")
        nested = redeem if spk.kind == "p2sh" and redeem is not None else None
        if spk.kind == "p2wpkh":
            return ("digest", "p2wpkh_signature_hash", idx, spk, amt, ty)
        if nested is not None and nested.kind == "p2wpkh":
            return ("digest", "p2wpkh_signature_hash", idx, nested, amt, ty)
        if spk.kind == "p2wsh" or (nested is not None and nested.kind == "p2wsh"):
            if wscript is None:
                return "Err:MissingWitnessScript"
            return ("digest", "p2wsh_signature_hash", idx, wscript, amt, ty)
        if spk.kind == "p2sh":
            if redeem is None:
                return "Err:MissingRedeemScript"
            return ("digest", "legacy_signature_hash", idx, redeem, ("u32", ty))
        return ("digest", "legacy_signature_hash", idx, spk, ("u32", ty))

    def norm(v):
        if isinstance(v, tuple) and v and v[0] == "digest":
            out = []
            for x in v:
                if isinstance(x, Adt) and x.path.endswith("Prevouts"):
                    inner = x.fields.get("0")
                    n_prev = len(deref(inner).items) if hasattr(deref(inner), "items") else -1
                    out.append("all-prevouts" if x.variant == "All" and n_prev == 2 else "prevouts:%s/%d" % (x.variant, n_prev))
                else:
                    out.append(x)
            return tuple(out)
        return v
    n = 0
    bad = {}
    for (sname, spk), (rn, redeem), (wn, wscript), (ln, leaf), (tn, st), pos in itertools.product(
            spks, redeems, wscripts, leafs, SIGTYPES, (0, 1)):
        if sname not in ("p2sh",) and rn not in ("-", "ms"):
            continue
        mine = mk_input("mine")
        mine.fields["witness_utxo"] = some(Adt("bitcoin::TxOut", "TxOut", {"script_pubkey": spk, "value": Term("amount", "mine")}))
        mine.fields["non_witness_utxo"] = NONE
        mine.fields["redeem_script"] = some(redeem) if redeem is not None else NONE
        mine.fields["witness_script"] = some(wscript) if wscript is not None else NONE
        mine.fields["sighash_type"] = some(st) if st is not None else NONE
        other = mk_input("other")
        other.fields["witness_utxo"] = some(OTHER)
        other.fields["non_witness_utxo"] = NONE
        other.fields["redeem_script"] = some(PyScript("ms", Term("other-redeem")))
        other.fields["witness_script"] = some(PyScript("ms", Term("other-witness")))
        other.fields["sighash_type"] = some(("pst", ok(tap_ty("None")), ok(ecdsa_ty("None"))))
        inputs = [mine, other] if pos == 0 else [other, mine]
        ps = mk_psbt(2, 0, [0, 0], inputs)
        key = "%s|redeem=%s|witness=%s|%s|sighash=%s" % (sname, rn, wn, ln, tn)
        n += 1
        try:
            r = m.call_path(sm, [ps, pos, Term("cache"), leaf])
        except Unsupported as e:
            chk.fail(R, "unanalysable:" + sname, "unanalysable: %s" % e, where=e.where, kind="unanalysable")
            return
        except Panic as e:
            bad.setdefault(sname, []).append("%s (input %d): panic %s" % (key, pos, e))
            continue
        want = expected(spk, redeem, wscript, leaf, st, pos)
        if r.variant == "Ok":
            got = norm(r.fields["0"].fields["0"])
            kind = r.fields["0"].variant
            want_kind = {"taproot": "TapSighash", "p2w": "SegwitV0Sighash", "legacy": "LegacySighash"}[
                "taproot" if isinstance(want, tuple) and want[1].startswith("taproot") else
                "p2w" if isinstance(want, tuple) and want[1].startswith("p2w") else "legacy"]
            if repr(got) != repr(want) or kind != want_kind:
                bad.setdefault(sname, []).append("%s (input %d): asks for %s %r, the signer's digest is %s %r"
                                                 % (key, pos, kind, got, want_kind, want))
        else:
            e = r.fields["0"]
            got = "Err:" + (e.variant if isinstance(e, Adt) else repr(e))
            if got != want:
                bad.setdefault(sname, []).append("%s (input %d): %s, the signer's digest is %r" % (key, pos, got, want))
    for sname, _ in spks:
        if sname in bad:
            chk.fail(R, sname, "%d case(s); first: %s" % (len(bad[sname]), bad[sname][0]), where="src/psbt/mod.rs",
                     detail=bad[sname][:10])
        else:
            chk.ok(R)
    # error cases that do not depend on the output type
    base = mk_input("mine")
    base.fields["witness_utxo"] = some(OTHER)
    base.fields["non_witness_utxo"] = NONE
    base.fields["sighash_type"] = NONE
    missing = mk_input("missing")
    missing.fields["witness_utxo"] = NONE
    missing.fields["non_witness_utxo"] = NONE
    for key, inputs, idx, want in (("index-out-of-range", [base], 1, "IndexOutOfBounds"), ("index-far", [base, base], 7, "IndexOutOfBounds"),
                                   ("no-inputs", [], 0, "IndexOutOfBounds"),
                                   ("other-input-without-utxo", [base, missing], 0, "MissingSpendUtxos"),
                                   ("own-input-without-utxo", [missing, base], 0, "MissingSpendUtxos")):
        ps = mk_psbt(2, 0, [0] * len(inputs), inputs)
        n += 1
        try:
            r = m.call_path(sm, [ps, idx, Term("cache"), NONE])
            e = r.fields["0"]
            chk.obligation(R, r.variant == "Err" and isinstance(e, Adt) and e.variant == want, key,
                           "sighash_msg gives %r, expected the error %s" % (r, want), where="src/psbt/mod.rs")
        except Panic as e:
            chk.fail(R, key, "sighash_msg panics: %s" % e, where="src/psbt/mod.rs")
        except Unsupported as e:
            chk.fail(R, "unanalysable:" + key, "unanalysable: %s" % e, where=e.where, kind="unanalysable")
    chk.extra["R14.8_cases"] = n
    chk.floor(R, "cases", n, 300)


# ---- R14.9 updater: taproot fields ------------------------------------------------------------------------------------

def check_updater_taproot(chk, F):
    from . import c15
    from ..builtins import deref, PyMap
    R = "R14.9"
    chk.rule(R, "update_item_with_descriptor_helper on a tr() descriptor records exactly BIP-371's fields: tap_internal_key "
                "= the internal key, tap_merkle_root = the BIP-341 root of the tree, one tap_scripts entry per leaf (control "
                "block folding to that root -> (leaf script, tapscript version)), and tap_key_origins = for every key its "
                "key source with the sorted, duplicate-free leaf hashes of exactly the leaves that contain it (none for a key "
                "that is only the internal key); nothing else is written; evaluated over tree shapes and key placements with "
                "the hash functions as a free algebra")
    fn = F.fn("update_item_with_descriptor_helper", file="psbt/mod.rs")
    chk.saw(fn)
    m = c15.machine(F)
    h = m.hooks
    TR = c15.TR
    DESC = "descriptor::Descriptor"
    leafkeys = {}

    def ms_leaf(name):
        return Adt(c15.MS, "Miniscript", {"node": Term("leafnode", name), "ty": Term("ty"), "ext": Term("ext"), "phantom": (),
                                          "leafname": name})
    for q in F.fns:
        if q.endswith("::iter_pk") and "Miniscript" in q:
            h[q] = lambda m_, a, c: PyIter(list(leafkeys[deref(a[0]).fields["leafname"]]))
    h["ToPublicKey::to_x_only_pubkey"] = lambda m_, a, c: ("xonly", deref(a[0]))
    h["miniscript::ToPublicKey::to_x_only_pubkey"] = h["ToPublicKey::to_x_only_pubkey"]
    h["bitcoin::secp256k1::Secp256k1::<bitcoin::secp256k1::VerifyOnly>::verification_only"] = lambda m_, a, c: Term("secp")
    h["<bitcoin::ScriptBuf as std::convert::From<&bitcoin::Script>>::from"] = lambda m_, a, c: deref(a[0])
    h["bitcoin::ScriptBuf::from"] = lambda m_, a, c: deref(a[0])
    h["bitcoin::script::<impl std::convert::From<&'a bitcoin::Script> for bitcoin::ScriptBuf>::from"] = lambda m_, a, c: deref(a[0])
    from .. import builtins as B
    orig_tf = B.TRAIT_TABLE.get(("std::convert::TryFrom", "try_from"))

    def tf(m_, a, c):
        st = " ".join([c.get("self_ty") or ""] + (c.get("targs") or []))
        if "TaprootMerkleBranch" in st:
            r = c15._try_from_hook(m_, a, c)
            if r is not None:
                return r
        return orig_tf(m_, a, c) if orig_tf else B.NOT_HANDLED
    cases = [
        # (brace text of the tree or None, {leaf: keys}, internal key)
        (None, {}, "IK"),
        ("A", {"A": ["K0"]}, "IK"),
        ("{A,B}", {"A": ["K0", "K1"], "B": ["K1", "K2"]}, "IK"),
        ("{A,{B,C}}", {"A": ["K0"], "B": ["K0", "K1"], "C": ["IK"]}, "IK"),
        ("{{A,B},{C,D}}", {"A": ["K0"], "B": ["K1"], "C": ["K0", "K1"], "D": ["K2", "K0"]}, "IK"),
        ("{A,{B,{C,D}}}", {"A": ["K3"], "B": ["K3"], "C": ["K3"], "D": ["K3", "K3"]}, "K3"),
    ]
    B.TRAIT_TABLE[("std::convert::TryFrom", "try_from")] = tf
    n = 0
    try:
        for text, lk, ik in cases:
            key = "%s|%s" % (text, ",".join("%s:%s" % (k, "+".join(v)) for k, v in sorted(lk.items())))
            leafkeys.clear()
            leafkeys.update(lk)
            tree = NONE
            if text is not None:
                tree = some(c15.mk_tree(text))
            trv = Adt(TR, "Tr", {"internal_key": ik, "tree": tree, "spend_info": Term("cache")})
            dv = Adt(DESC, "Tr", {"0": trv})
            allkeys = sorted(set([ik] + [k for v in lk.values() for k in v]))

            def translate(m_, a, c, dv=dv, allkeys=allkeys):
                lkup = deref(a[1])
                mp = lkup.fields["0"]
                for k in allkeys:
                    B._map_insert(m_, [mp, k, ("keysource", k)], {})
                return ok(dcopy(dv))
            for q in F.fns:
                if q.endswith("Descriptor::<Pk>::translate_pk"):
                    h[q] = translate
            # Tr::spend_info: the value C15 decides; computed here by evaluating TrSpendInfo::from_tr
            from_tr = F.fn("from_tr", file="tr/spend_info.rs")
            si_fn = [q for q in F.fns if q.endswith("Tr::<Pk>::spend_info")]
            for q in si_fn:
                h[q] = lambda m_, a, c: m_.call_callee({"def": from_tr, "resolved": from_tr, "name": "from_tr", "targs": ["PK"]}, [deref(a[0])])
            item = mk_input("item")
            item.fields["tap_internal_key"] = NONE
            item.fields["tap_merkle_root"] = NONE
            item.fields["tap_key_origins"] = PyMap([])
            item.fields["tap_scripts"] = PyMap([])
            item.fields["bip32_derivation"] = PyMap([])
            item.fields["redeem_script"] = NONE
            item.fields["witness_script"] = NONE
            before = dict((k, repr(v)) for k, v in item.fields.items())
            n += 1
            try:
                r = m.call_callee({"def": fn, "resolved": fn, "name": "helper", "targs": [INPUT]}, [item, dv, NONE])
            except Unsupported as e:
                chk.fail(R, "unanalysable:" + key, "unanalysable: %s" % e, where=e.where, kind="unanalysable")
                break
            except Panic as e:
                chk.fail(R, key, "panic: %s" % e, where="src/psbt/mod.rs")
                continue
            bad = []
            if not (isinstance(r, Adt) and r.variant == "Ok" and r.fields["0"][1] is True):
                bad.append("result %r" % (r,))
            # specification
            if text is not None:
                root, leaves = c15.spec_tree(c15.parse_braces(text))      # [(name, depth, path)]
            else:
                root, leaves = None, []
            got_ik = item.fields["tap_internal_key"]
            if repr(got_ik) != repr(some(("xonly", ik))):
                bad.append("tap_internal_key = %r, expected the internal key %s" % (got_ik, ik))
            got_root = item.fields["tap_merkle_root"]
            if repr(got_root) != repr(some(root) if root is not None else NONE):
                bad.append("tap_merkle_root = %r, expected %r" % (got_root, root))
            ts = item.fields["tap_scripts"].pairs
            if len(ts) != len(leaves):
                bad.append("%d tap_scripts entries for %d leaves" % (len(ts), len(leaves)))
            seen_scripts = []
            for cb, val in ts:
                cb = deref(cb)
                script, ver = deref(val)
                seen_scripts.append(repr(script))
                nm = script[1] if isinstance(script, tuple) else None
                branch = cb.fields["merkle_branch"].items
                if root is not None and nm is not None and repr(c15.fold(c15.leaf_hash(nm), branch)) != repr(root):
                    bad.append("the control block stored for leaf %s does not fold to the root" % nm)
                if "TapScript" not in repr(ver):
                    bad.append("leaf %s stored with version %r" % (nm, ver))
            if sorted(seen_scripts) != sorted(repr(("script", nm)) for nm, _, _ in leaves):
                bad.append("tap_scripts holds the scripts %s, the tree has %s" % (sorted(seen_scripts), sorted(nm for nm, _, _ in leaves)))
            want_or = {}
            for k in allkeys:
                hs = sorted(set(repr(c15.leaf_hash(nm)) for nm, _, _ in leaves if k in lk.get(nm, [])))
                want_or[repr(("xonly", k))] = (hs, repr(("keysource", k)))
            got_or = {}
            for k, v in item.fields["tap_key_origins"].pairs:
                hashes, src = deref(v)
                hl = [repr(x) for x in deref(hashes).items]
                got_or[repr(deref(k))] = (hl, repr(deref(src)))
                if hl != sorted(set(hl), key=hl.index) or len(hl) != len(set(hl)):
                    bad.append("leaf hashes of %r are not duplicate-free: %s" % (k, hl))
            for k in want_or:
                g = got_or.get(k)
                if g is None or sorted(g[0]) != want_or[k][0] or g[1] != want_or[k][1]:
                    bad.append("tap_key_origins[%s] = %r, expected %r" % (k, g, want_or[k]))
            if set(got_or) - set(want_or):
                bad.append("tap_key_origins has extra keys %s" % sorted(set(got_or) - set(want_or)))
            for f_ in ("redeem_script", "witness_script", "bip32_derivation", "final_script_sig", "final_script_witness", "partial_sigs"):
                if repr(item.fields[f_]) != before[f_]:
                    bad.append("field %s was written: %r" % (f_, item.fields[f_]))
            chk.obligation(R, not bad, key, "; ".join(bad[:3])[:900], where="src/psbt/mod.rs")
    finally:
        B.TRAIT_TABLE[("std::convert::TryFrom", "try_from")] = orig_tf
    chk.floor(R, "tree / key placements", n, 6)


# ---- R14.10 updater: key sources ---------------------------------------------------------------------------------------

def check_key_sources(chk, F):
    from . import c10, c16
    from ..builtins import deref, PyMap
    R = "R14.10"
    chk.rule(R, "the updater's key translator (KeySourceLookUp::pk) returns the key derived along the definite key's own path "
                "and records for it (master fingerprint, origin path + derivation path) as BIP-174 key source; over single and "
                "extended keys with / without origin and path")
    ps = [it["path"] for i in F.impls if (i["self_adt"] or "").endswith("psbt::KeySourceLookUp") and (i["trait"] or "").endswith("Translator")
          for it in i["items"] if it["name"] == "pk"]
    fs = [it["path"] for i in F.impls if i["trait"] == "std::str::FromStr" and i["self_adt"] == c10.DPK
          for it in i["items"] if it["name"] == "from_str"]
    new = [q for q in F.fns if q.endswith("DefiniteDescriptorKey::new")]
    if len(ps) != 1 or len(fs) != 1 or len(new) != 1:
        chk.fail(R, "anchor", "KeySourceLookUp::pk / DescriptorPublicKey::from_str / DefiniteDescriptorKey::new not found", kind="unanalysable")
        return
    chk.saw(ps[0])
    m = c10.key_machine(F)
    c16.derivation_hooks(m)
    def to_pk(m_, a, c):
        v = deref(a[0])
        if isinstance(v, Adt):
            return v
        if isinstance(v, tuple) and v[0] == "pk":      # a bitcoin::PublicKey given by its text
            return Adt("bitcoin::PublicKey", "PublicKey", {"compressed": len(v[1]) == 66, "inner": v})
        return Adt("bitcoin::PublicKey", "PublicKey", {"compressed": True, "inner": ("even-y", v)})
    m.hooks["miniscript::ToPublicKey::to_public_key"] = to_pk
    m.hooks["ToPublicKey::to_public_key"] = m.hooks["miniscript::ToPublicKey::to_public_key"]
    texts = [t for t in c10.key_texts() if "*" not in t and "<" not in t and not any(st.endswith(("'", "h")) for st in t.split("]")[-1].split("/")[1:])]
    # (a single key without origin hashes its own serialization for the fingerprint: byte-level, not decided)
    texts = [t for t in texts if c10.XONLY not in t and (t.startswith("[") or c10.XPUB in t)]
    n = 0
    for t in texts:
        key = t.replace(c10.XPUB, "XPUB").replace(c10.PK33, "PK33").replace(c10.PK65, "PK65")
        sp = c16.spec_key(t)
        try:
            r = m.call_path(fs[0], [t])
            d = m.call_path(new[0], [r.fields["0"]])
            if d.variant != "Ok":
                continue
            lk = Adt("psbt::KeySourceLookUp", "KeySourceLookUp", {"0": PyMap([]), "1": Term("secp")})
            out = m.call_path(ps[0], [lk, d.fields["0"]])
            n += 1
            bad = []
            pairs = lk.fields["0"].pairs
            opath = sp["origin"][1] if sp["origin"] else []
            want_path = opath + sp["paths"][0]
            if len(pairs) != 1:
                bad.append("%d key sources recorded" % len(pairs))
            else:
                k, (fp, path) = pairs[0][0], deref(pairs[0][1])
                gotp = [(x.variant, x.fields["index"]) for x in deref(path).items]
                if gotp != want_path:
                    bad.append("recorded path %r, expected origin path + path %r" % (gotp, want_path))
                gfp = "".join("%02x" % b for b in deref(fp).items) if hasattr(deref(fp), "items") else repr(deref(fp))
                if sp["origin"] and gfp != sp["origin"][0]:
                    bad.append("recorded fingerprint %s, expected the origin's %s" % (gfp, sp["origin"][0]))
                if not sp["origin"] and sp["kind"] == "x" and "fingerprint-of" not in gfp:
                    bad.append("recorded fingerprint %s, expected the extended key's own" % gfp)
                res = deref(out.fields["0"]) if out.variant == "Ok" else None
                if res is None or repr(deref(k)) != repr(res.fields["inner"] if isinstance(res, Adt) else res):
                    bad.append("the recorded key %r is not the returned key %r" % (deref(k), res))
                if sp["kind"] == "x":
                    wantk = ("derived", ("xkey", sp["base"]), tuple(sp["paths"][0]))
                    if not isinstance(res, Adt) or repr(res.fields["inner"]) != repr(wantk):
                        bad.append("returns %r, expected the key derived along %r" % (res, sp["paths"][0]))
            chk.obligation(R, not bad, key, "; ".join(bad[:3]).replace(c10.XPUB, "XPUB")[:700], where="src/psbt/mod.rs")
        except Unsupported as e:
            chk.fail(R, "unanalysable:" + key, "unanalysable: %s" % e, where=e.where, kind="unanalysable")
            break
        except Panic as e:
            chk.fail(R, key, "panic: %s" % e, where="src/psbt/mod.rs")
    chk.floor(R, "definite keys", n, 12)


# ---- R14.11 Plan::update_psbt_input: scripts ------------------------------------------------------------------------------

def check_plan_updater(chk, F):
    from . import assembly
    from ..builtins import PyMap
    spec = assembly.spec
    R = "R14.11"
    chk.rule(R, "Plan::update_psbt_input records, per descriptor type, exactly the redeem / witness script of BIP-174 (sh(wsh): "
                "witness script and its P2WSH program as redeem script; sh(wpkh) / sh(ms): the inner script as redeem script; "
                "wsh: the witness script; nothing for bare / pkh / wpkh) -- the same table as the descriptor-driven updater")
    try:
        fn = [q for q in F.fns if q.startswith("plan::Plan") and q.endswith("::update_psbt_input")][0]
    except IndexError:
        chk.fail(R, "anchor", "Plan::update_psbt_input not found", kind="unanalysable")
        return
    chk.saw(fn)
    vals = assembly.values()
    hooks = dict(assembly.script_hooks())
    DESC = "descriptor::Descriptor"
    for name, v in vals.items():
        dv = Adt(DESC, {"Bare": "Bare", "Pkh": "Pkh", "Wpkh": "Wpkh", "Wsh": "Wsh"}.get(name, "Sh"), {"0": v})
        plan = Adt("plan::Plan", "Plan", {"template": PyVec([]), "absolute_timelock": NONE, "relative_timelock": NONE, "descriptor": dv})
        m = Machine(F, strict=False, hooks=hooks, uninterpreted=assembly.unint)
        item = mk_input("item")
        for n in ("redeem_script", "witness_script"):
            item.fields[n] = NONE
        item.fields["bip32_derivation"] = PyMap([])
        try:
            m.call_path(fn, [plan, item])
        except Unsupported as e:
            chk.fail(R, "unanalysable:" + name, "unanalysable: %s" % e, where=e.where, kind="unanalysable")
            continue
        red = assembly.nf(item.fields["redeem_script"].fields["0"]) if item.fields["redeem_script"].variant == "Some" else None
        wit = assembly.nf(item.fields["witness_script"].fields["0"]) if item.fields["witness_script"].variant == "Some" else None
        want = spec.PSBT_SCRIPTS[name]
        chk.obligation(R, (red, wit) == want, name, "recorded redeem_script=%r witness_script=%r; BIP-174 expects %r" % (red, wit, want),
                       where="src/plan.rs")


# ---- R14.17 Plan::update_psbt_input: taproot fields ----------------------------------------------------------------------------

def check_plan_updater_taproot(chk, F):
    from ..builtins import deref, PyMap
    R = "R14.17"
    chk.rule(R, "Plan::update_psbt_input for a tr() plan records the BIP-371 fields a signer needs: the merkle root; for a key-spend "
                "plan the internal key and its origin (no leaf hashes); for a script-spend plan the leaf script under its control "
                "block and, for every key that signs, its origin *with the hash of the leaf it signs in* - on a fresh input as "
                "well as on one that already lists the key for another leaf (the leaf is added once, the others kept)")
    try:
        fn = [q for q in F.fns if q.startswith("plan::Plan") and q.endswith("::update_psbt_input")][0]
    except IndexError:
        chk.fail(R, "anchor", "Plan::update_psbt_input not found", kind="unanalysable")
        return
    chk.saw(fn)
    PH = "miniscript::satisfy::Placeholder"
    SST = "miniscript::satisfy::SchnorrSigType"
    h = {}
    h["descriptor::tr::Tr::<Pk>::spend_info"] = lambda m_, a, c: Term("spend_info")
    h["descriptor::tr::spend_info::TrSpendInfo::<Pk>::merkle_root"] = lambda m_, a, c: some(Term("merkle_root"))
    h["ToPublicKey::to_x_only_pubkey"] = lambda m_, a, c: ("xonly", deref(a[0]))
    h["miniscript::ToPublicKey::to_x_only_pubkey"] = h["ToPublicKey::to_x_only_pubkey"]
    h["descriptor::key::DefiniteDescriptorKey::master_fingerprint"] = lambda m_, a, c: ("fp", deref(a[0]))
    h["descriptor::key::DefiniteDescriptorKey::full_derivation_paths"] = lambda m_, a, c: PyVec([("path", deref(a[0]))])
    L1, L2 = ("leafhash", 1), ("leafhash", 2)

    def sig(k, leaf):
        st = Adt(SST, "KeySpend", {"merkle_root": NONE}) if leaf is None else Adt(SST, "ScriptSpend", {"leaf_hash": leaf})
        return Adt(PH, "SchnorrSigPk", {"0": k, "1": st, "2": 64})
    script = [Adt(PH, "TapScript", {"0": Term("leafscript")}), Adt(PH, "TapControlBlock", {"0": Term("cb")})]
    src = lambda k: (("fp", k), ("path", k))
    cases = [
        # name, template, origins before, (origins after, internal key after, scripts after)
        ("key-spend", [sig("IK", None)], [], ([(("xonly", "IK"), ([], src("IK")))], some(("xonly", "IK")), [])),
        ("script-spend|fresh", [sig("A", L1)] + script, [], ([(("xonly", "A"), ([L1], src("A")))], None, [(Term("cb"), Term("leafscript"))])),
        ("script-spend|two-keys", [sig("A", L1), sig("B", L1)] + script, [],
         ([(("xonly", "A"), ([L1], src("A"))), (("xonly", "B"), ([L1], src("B")))], None, [(Term("cb"), Term("leafscript"))])),
        ("script-spend|key-listed-for-other-leaf", [sig("A", L1)] + script, [(("xonly", "A"), (PyVec([L2]), src("A")))],
         ([(("xonly", "A"), ([L2, L1], src("A")))], None, [(Term("cb"), Term("leafscript"))])),
        ("script-spend|leaf-already-listed", [sig("A", L1)] + script, [(("xonly", "A"), (PyVec([L1]), src("A")))],
         ([(("xonly", "A"), ([L1], src("A")))], None, [(Term("cb"), Term("leafscript"))])),
    ]
    n = 0
    for name, template, before, (want_o, want_ik, want_s) in cases:
        dv = Adt("descriptor::Descriptor", "Tr", {"0": Term("tr")})
        plan = Adt("plan::Plan", "Plan", {"template": PyVec(template), "absolute_timelock": NONE, "relative_timelock": NONE, "descriptor": dv})
        item = mk_input("item")
        item.fields["tap_key_origins"] = PyMap(list(before))
        item.fields["tap_scripts"] = PyMap([])
        item.fields["tap_internal_key"] = NONE
        item.fields["tap_merkle_root"] = NONE
        m = Machine(F, strict=True, hooks=h)
        n += 1
        try:
            m.call_path(fn, [plan, item])
        except Unsupported as e:
            chk.fail(R, "unanalysable:" + name, "unanalysable: %s" % e, where=e.where, kind="unanalysable")
            continue
        except Panic as e:
            chk.fail(R, name, "panic: %s" % e, where="src/plan.rs")
            continue
        got_o = []
        for k, v in deref(item.fields["tap_key_origins"]).pairs:
            v = deref(v)
            got_o.append((deref(k), ([deref(x) for x in deref(v[0]).items], deref(v[1]))))
        got_s = [(deref(k), deref(deref(v)[0])) for k, v in deref(item.fields["tap_scripts"]).pairs]
        ik = deref(item.fields["tap_internal_key"])
        bad = []
        if sorted(map(repr, got_o)) != sorted(map(repr, want_o)):
            bad.append("tap_key_origins = %r, expected %r" % (got_o, want_o))
        if repr(got_s) != repr(want_s):
            bad.append("tap_scripts = %r, expected %r" % (got_s, want_s))
        if (want_ik is None and ik.variant != "None") or (want_ik is not None and repr(ik) != repr(want_ik)):
            bad.append("tap_internal_key = %r" % (ik,))
        mr = deref(item.fields["tap_merkle_root"])
        if repr(mr) != repr(some(Term("merkle_root"))):
            bad.append("tap_merkle_root = %r" % (mr,))
        chk.obligation(R, not bad, name, "; ".join(bad)[:600], where="src/plan.rs")
    chk.floor(R, "plans", n, 5)


# ---- R14.12 what the finalizer's satisfier finds in a PSBT input ---------------------------------------------------------

def check_psbt_satisfier(chk, F):
    from ..builtins import deref, PyMap
    R = "R14.12"
    chk.rule(R, "PsbtInputSatisfier answers every signature / key look-up from the PSBT field that BIP-174 / BIP-371 assign to it "
                "and for exactly the asked key: ECDSA signatures from partial_sigs[key]; the key-spend signature only for the "
                "recorded internal key; script-spend signatures from tap_script_sigs[(x-only key, leaf)]; raw key-hash look-ups "
                "return the entry whose key hashes (HASH160 of its context serialization) to the asked hash - and the asked "
                "leaf; None otherwise; the control-block map is tap_scripts")
    imp = [i for i in F.impls if i["self_adt"] == SATF and (i["trait"] or "").endswith("Satisfier")]
    if not imp:
        chk.fail(R, "anchor", "impl Satisfier for PsbtInputSatisfier not found", kind="unanalysable")
        return
    items = {it["name"]: it["path"] for it in imp[0]["items"]}
    chk.saw(*[items[k] for k in items if k.startswith("lookup_")])
    m = Machine(F, strict=True)
    h = m.hooks
    h["ToPublicKey::to_x_only_pubkey"] = lambda m_, a, c: ("xonly", deref(a[0]))
    h["ToPublicKey::to_public_key"] = lambda m_, a, c: deref(a[0])

    def tph(m_, a, c):
        k = deref(a[0])
        kind = deref(a[1]).variant
        name = k[1] if isinstance(k, tuple) and k[0] == "xonly" else k
        return ("h160", kind, name)
    h["ToPublicKey::to_pubkeyhash"] = tph
    h["miniscript::ToPublicKey::to_pubkeyhash"] = tph
    h["bitcoin::PublicKey::new"] = lambda m_, a, c: ("pk", deref(a[0]))
    inp = mk_input("x")
    inp.fields["partial_sigs"] = PyMap([("K1", "s1"), ("K2", "s2")])
    inp.fields["bip32_derivation"] = PyMap([("K2", "src2"), ("K3", "src3")])
    inp.fields["tap_internal_key"] = some(("xonly", "IK"))
    inp.fields["tap_key_sig"] = some("ksig")
    inp.fields["tap_script_sigs"] = PyMap([((("xonly", "X1"), "L1"), "t11"), ((("xonly", "X1"), "L2"), "t12"), ((("xonly", "X2"), "L1"), "t21")])
    inp.fields["tap_scripts"] = PyMap([("cb1", ("script1", "ver"))])
    inp.fields["tap_key_origins"] = PyMap([(("xonly", "X3"), (PyVec([]), "src"))])
    ps = mk_psbt(2, 0, [0], [inp])
    sat = Adt(SATF, "PsbtInputSatisfier", {"psbt": ps, "index": 0})
    ECD = lambda k: ("h160", "Ecdsa", k)
    SCH = lambda k: ("h160", "Schnorr", k)
    table = [
        ("lookup_ecdsa_sig", ["K1"], some("s1")), ("lookup_ecdsa_sig", ["K2"], some("s2")), ("lookup_ecdsa_sig", ["K3"], NONE),
        ("lookup_tap_key_spend_sig", ["IK"], some("ksig")), ("lookup_tap_key_spend_sig", ["X1"], NONE),
        ("lookup_tap_leaf_script_sig", ["X1", "L1"], some("t11")), ("lookup_tap_leaf_script_sig", ["X1", "L2"], some("t12")),
        ("lookup_tap_leaf_script_sig", ["X2", "L1"], some("t21")), ("lookup_tap_leaf_script_sig", ["X2", "L2"], NONE),
        ("lookup_tap_leaf_script_sig", ["IK", "L1"], NONE),
        ("lookup_raw_pkh_pk", [ECD("K3")], some(("pk", "K3"))), ("lookup_raw_pkh_pk", [ECD("K2")], some(("pk", "K2"))),
        ("lookup_raw_pkh_pk", [ECD("K9")], NONE), ("lookup_raw_pkh_pk", [SCH("K3")], NONE),
        ("lookup_raw_pkh_ecdsa_sig", [ECD("K1")], some(("K1", "s1"))), ("lookup_raw_pkh_ecdsa_sig", [ECD("K2")], some(("K2", "s2"))),
        ("lookup_raw_pkh_ecdsa_sig", [ECD("K3")], NONE), ("lookup_raw_pkh_ecdsa_sig", [SCH("K1")], NONE),
        ("lookup_raw_pkh_tap_leaf_script_sig", [(SCH("X1"), "L2")], some((("xonly", "X1"), "t12"))),
        ("lookup_raw_pkh_tap_leaf_script_sig", [(SCH("X2"), "L1")], some((("xonly", "X2"), "t21"))),
        ("lookup_raw_pkh_tap_leaf_script_sig", [(SCH("X2"), "L2")], NONE),
        ("lookup_raw_pkh_tap_leaf_script_sig", [(ECD("X1"), "L1")], NONE),
        # the x-only key behind a hash (the key push of a raw-pkh tapscript leaf): from the taproot key origins or the
        # script-spend signatures
        ("lookup_raw_pkh_x_only_pk", [SCH("X1")], some(("xonly", "X1"))), ("lookup_raw_pkh_x_only_pk", [SCH("X3")], some(("xonly", "X3"))),
        ("lookup_raw_pkh_x_only_pk", [SCH("X9")], NONE), ("lookup_raw_pkh_x_only_pk", [ECD("X1")], NONE),
        ("lookup_raw_pkh_x_only_pk", [SCH("K2")], NONE),
    ]
    n = 0
    for name, args, want in table:
        key = "%s|%s" % (name, ",".join(repr(x) for x in args))
        if name not in items:
            chk.fail(R, "anchor|" + name, "PsbtInputSatisfier has no %s" % name, kind="unanalysable")
            continue
        n += 1
        try:
            r = m.call_callee({"def": items[name], "resolved": items[name], "name": name, "targs": ["PK"]}, [sat] + list(args))
            chk.obligation(R, repr(deref(r)) == repr(want), key, "%s gives %r, expected %r" % (key, r, want), where="src/psbt/mod.rs")
        except Unsupported as e:
            chk.fail(R, "unanalysable:" + key, "unanalysable: %s" % e, where=e.where, kind="unanalysable")
        except Panic as e:
            chk.fail(R, key, "panic: %s" % e, where="src/psbt/mod.rs")
    # without an internal key recorded no key-spend signature is offered
    inp2 = dcopy(inp)
    inp2.fields["tap_internal_key"] = NONE
    sat2 = Adt(SATF, "PsbtInputSatisfier", {"psbt": mk_psbt(2, 0, [0], [inp2]), "index": 0})
    try:
        r = m.call_callee({"def": items["lookup_tap_key_spend_sig"], "resolved": items["lookup_tap_key_spend_sig"],
                           "name": "lookup_tap_key_spend_sig", "targs": ["PK"]}, [sat2, "IK"])
        n += 1
        chk.obligation(R, r.variant == "None", "lookup_tap_key_spend_sig|no-internal-key", "a key-spend signature is offered although "
                       "the input records no internal key: %r" % (r,), where="src/psbt/mod.rs")
        r = m.call_callee({"def": items["lookup_tap_control_block_map"], "resolved": items["lookup_tap_control_block_map"],
                           "name": "lookup_tap_control_block_map", "targs": ["PK"]}, [sat])
        n += 1
        good = r.variant == "Some" and repr(deref(r.fields["0"]).pairs) == repr(inp.fields["tap_scripts"].pairs)
        chk.obligation(R, good, "lookup_tap_control_block_map", "the control-block map is %r, expected the input's tap_scripts" % (r,),
                       where="src/psbt/mod.rs")
    except (Unsupported, Panic, KeyError) as e:
        chk.fail(R, "unanalysable:extra", "unanalysable: %s" % e, kind="unanalysable")
    chk.floor(R, "look-up cases", n, 22)


# ---- R14.13 update_input_with_descriptor: which spent output the descriptor is checked against ----------------------------

def check_update_input(chk, F):
    from ..builtins import deref
    R = "R14.13"
    chk.rule(R, "PsbtExt::update_input_with_descriptor checks the descriptor against the output the input really spends: the "
                "scriptPubKey handed to the updater is that of non_witness_utxo.output[vout] (its txid must be the spent one, vout "
                "in range, and equal to witness_utxo when both are present) or of witness_utxo alone for a segwit descriptor only; "
                "every other combination, an index out of range and a refusing updater are errors and leave the decision to no "
                "one else (decision table)")
    fn = "<bitcoin::Psbt as psbt::PsbtExt>::update_input_with_descriptor"
    if fn not in F.fns:
        chk.fail(R, "anchor", "PsbtExt::update_input_with_descriptor not found", kind="unanalysable")
        return
    helper = F.fn("update_item_with_descriptor_helper", file="psbt/mod.rs")
    chk.saw(fn)

    def txout(tag):
        return Adt("bitcoin::TxOut", "TxOut", {"script_pubkey": ("spk", tag), "value": ("value", tag)})

    def prev_tx(n, txid):
        return Adt(TX, "Transaction", {"version": Term("v"), "lock_time": Term("lt"), "input": PyVec([]),
                                       "output": PyVec([txout("prev%d" % i) for i in range(n)]), "_txid": txid})
    seen = []

    def helper_hook(outcome):
        def f(m_, a, c):
            seen.append(deref(a[2]))
            if outcome == "err":
                return err(Term("derivation-error"))
            return ok((Term("derived"), outcome == "match"))
        return f
    n = 0
    for segwit in (True, False):
        for wu_kind, nwu_kind, vout, outcome in itertools.product(("none", "w", "w=prev1"), ("none", "ok3", "ok1", "wrong-txid"), (1, 5),
                                                                 ("match", "mismatch", "err")):
            m = Machine(F, strict=True)
            seen[:] = []
            m.hooks[helper] = helper_hook(outcome)
            m.hooks["bitcoin::Transaction::compute_txid"] = lambda m_, a, c: deref(a[0]).fields["_txid"]
            for q in F.fns:
                if q.endswith("Descriptor::<Pk>::desc_type"):
                    m.hooks[q] = lambda m_, a, c: Term("desctype")
            for q in F.fns:
                if q.endswith("DescriptorType::segwit_version"):
                    m.hooks[q] = lambda m_, a, c, segwit=segwit: some(Term("v0")) if segwit else NONE
            inp = mk_input("x")
            wu = NONE if wu_kind == "none" else some(txout("w") if wu_kind == "w" else txout("prev1"))
            nwu = NONE
            if nwu_kind != "none":
                nwu = some(prev_tx(3 if nwu_kind == "ok3" else (1 if nwu_kind == "ok1" else 3), "TXID" if nwu_kind != "wrong-txid" else "OTHER"))
            inp.fields["witness_utxo"] = wu
            inp.fields["non_witness_utxo"] = nwu
            ps = mk_psbt(2, 0, [0], [inp])
            ps.fields["unsigned_tx"].fields["input"].items[0].fields["previous_output"] = Adt("bitcoin::OutPoint", "OutPoint", {"txid": "TXID", "vout": vout})
            key = "%s|witness_utxo=%s|non_witness_utxo=%s|vout=%d|updater=%s" % ("segwit" if segwit else "legacy", wu_kind, nwu_kind, vout, outcome)
            n += 1
            # specification
            n_out = {"none": 0, "ok3": 3, "ok1": 1, "wrong-txid": 3}[nwu_kind]
            if nwu_kind == "wrong-txid":
                want = "Err:UtxoCheck"
            elif wu_kind == "none" and nwu_kind == "none":
                want = "Err:UtxoCheck"
            elif nwu_kind == "none":
                want = ("spk", "w" if wu_kind == "w" else "prev1") if segwit else "Err:UtxoCheck"
            elif vout >= n_out:
                want = "Err:UtxoCheck"
            elif wu_kind == "none":
                want = ("spk", "prev%d" % vout)
            else:
                same = (wu_kind == "w=prev1" and vout == 1)
                want = ("spk", "prev1") if same else "Err:UtxoCheck"
            if isinstance(want, tuple):
                final = {"match": "Ok", "mismatch": "Err:MismatchedScriptPubkey", "err": "Err:DerivationError"}[outcome]
            else:
                final = want
            try:
                r = m.call_path(fn, [ps, 0, Term("descriptor")])
                got = "Ok" if r.variant == "Ok" else "Err:" + getattr(deref(r.fields["0"]), "variant", repr(r.fields["0"]))
                bad = []
                if got != final:
                    bad.append("result %s, expected %s" % (got, final))
                if isinstance(want, tuple):
                    if len(seen) != 1 or not (isinstance(seen[0], Adt) and seen[0].variant == "Some" and deref(seen[0].fields["0"]) == want):
                        bad.append("the updater is given %r to check against, the spent output's script is %r" % (seen, want))
                elif seen:
                    bad.append("the updater runs although the utxo fields are inconsistent")
                chk.obligation(R, not bad, key, "; ".join(bad), where="src/psbt/mod.rs")
            except Unsupported as e:
                chk.fail(R, "unanalysable:" + key, "unanalysable: %s" % e, where=e.where, kind="unanalysable")
                return
            except Panic as e:
                chk.fail(R, key, "panic: %s" % e, where="src/psbt/mod.rs")
    # index out of range
    m = Machine(F, strict=True)
    m.hooks[helper] = helper_hook("match")
    ps = mk_psbt(2, 0, [0], [mk_input("x")])
    try:
        r = m.call_path(fn, [ps, 1, Term("descriptor")])
        n += 1
        chk.obligation(R, r.variant == "Err" and deref(r.fields["0"]).variant == "IndexOutOfBounds", "index-out-of-range",
                       "update_input_with_descriptor(1) on a one-input PSBT gives %r" % (r,), where="src/psbt/mod.rs")
    except (Unsupported, Panic) as e:
        chk.fail(R, "index-out-of-range", "%s" % e, kind="unanalysable" if isinstance(e, Unsupported) else "violation")
    chk.floor(R, "cases", n, 140)


# ---- R14.14 extract / interpreter_check ------------------------------------------------------------------------------------------

def check_extract(chk, F):
    import itertools
    from ..builtins import deref
    R = "R14.14"
    chk.rule(R, "PsbtExt::extract on model PSBTs (2 inputs): fails when the PSBT is not well formed (sanity_check), when some "
                "input has neither final field, and when interpreter_check refuses; otherwise returns the unsigned transaction "
                "in which every input carries its own final scriptSig / witness (the other kept as it was) and nothing else is "
                "changed; interpreter_check runs interpreter_inp_check for every input, in order, on that input's own final "
                "scriptSig / witness (an empty one for a missing field) and the PSBT's prevouts, and passes any refusal on")
    try:
        ext = [it["path"] for i in F.impls if (i["trait"] or "").endswith("PsbtExt") and (i.get("self_ty") or "").endswith("Psbt")
               for it in i["items"] if it["name"] == "extract"]
        if len(ext) != 1:
            raise KeyError("PsbtExt::extract")
        ext = ext[0]
        sanity = F.fn("sanity_check", file="psbt/mod.rs")
        ichk = F.fn("interpreter_check", file="psbt/finalizer.rs")
        inp = F.fn("interpreter_inp_check", file="psbt/finalizer.rs")
        prev = F.fn("prevouts", file="psbt/finalizer.rs")
    except KeyError as e:
        chk.fail(R, "anchor", "missing anchor: %s" % e, kind="unanalysable")
        return
    chk.saw(ext, sanity, ichk)
    n = 0
    opts = [(NONE, NONE), (some("SIG"), NONE), (NONE, some("WIT")), (some("SIG"), some("WIT"))]
    try:
        for (a0, a1), sane, interp in itertools.product(itertools.product(range(4), repeat=2), (True, False), (True, False)):
            ins = []
            for i, o in enumerate((a0, a1)):
                fs, fw = opts[o]
                ins.append(mk_input(i, some("sig%d" % i) if fs.variant == "Some" else NONE, some("wit%d" % i) if fw.variant == "Some" else NONE))
            ps = mk_psbt(2, 0, [1, 2], ins)
            seen = []
            hooks = {sanity: lambda m_, a, c, sane=sane: ok(()) if sane else err(Term("NOT-SANE")),
                     ichk: lambda m_, a, c, interp=interp: (seen.append(deref(a[0])), ok(()) if interp else err(Term("REFUSED")))[1]}
            m = Machine(F, strict=True, hooks=hooks)
            r = m.call_callee({"def": ext, "resolved": ext, "name": "extract", "targs": ["C"]}, [ps, Term("secp")])
            n += 1
            key = "extract|finals=%d,%d|sane=%s|interpreter=%s" % (a0, a1, sane, interp)
            missing = [i for i, o in enumerate((a0, a1)) if o == 0]
            want_ok = sane and interp and not missing
            bad = []
            if (r.variant == "Ok") != want_ok:
                bad.append("result %s, expected %s" % (repr(r)[:120], "Ok" if want_ok else "an error"))
            elif r.variant == "Ok":
                tx = deref(r.fields["0"])
                for i, txin in enumerate(deref(tx.fields["input"]).items):
                    txin = deref(txin)
                    fs, fw = opts[(a0, a1)[i]]
                    ws = "sig%d" % i if fs.variant == "Some" else repr(Term("ssig"))
                    ww = "wit%d" % i if fw.variant == "Some" else repr(Term("wit"))
                    gs, gw = deref(txin.fields["script_sig"]), deref(txin.fields["witness"])
                    if (gs if isinstance(gs, str) else repr(gs)) != ws or (gw if isinstance(gw, str) else repr(gw)) != ww:
                        bad.append("input %d carries (scriptSig %r, witness %r), expected (%s, %s)" % (i, gs, gw, ws, ww))
                    if txin.fields["sequence"] != i + 1 or repr(txin.fields["previous_output"]) != repr(Term("outpoint", i)):
                        bad.append("input %d: sequence / outpoint changed" % i)
                if repr(tx.fields["version"]) != repr(ps.fields["unsigned_tx"].fields["version"]) or tx.fields["lock_time"] != 0:
                    bad.append("version / lock time changed")
                if len(seen) != 1 or seen[0] is not ps:
                    bad.append("interpreter_check ran %d time(s) / not on this PSBT" % len(seen))
            elif not sane and "NOT-SANE" not in repr(r):
                bad.append("a malformed PSBT is refused with %s" % repr(r)[:100])
            elif sane and missing and not ("MissingWitness" in repr(r)):
                bad.append("an input without final fields is refused with %s" % repr(r)[:100])
            chk.obligation(R, not bad, key, "; ".join(bad[:2]), where="src/psbt/mod.rs")
        # interpreter_check
        for (a0, a1), failing, utxo_ok in itertools.product(itertools.product(range(4), repeat=2), (None, 0, 1), (True, False)):
            ins = []
            for i, o in enumerate((a0, a1)):
                fs, fw = opts[o]
                ins.append(mk_input(i, some(Bytes("sig%d" % i, False)) if fs.variant == "Some" else NONE,
                                    some(Bytes("wit%d" % i, False)) if fw.variant == "Some" else NONE))
            ps = mk_psbt(2, 0, [1, 2], ins)
            calls = []

            def inp_hook(m_, a, c, failing=failing):
                calls.append((deref(a[2]), deref(a[4]), deref(a[5]), deref(a[0]) is ps, repr(deref(a[3]))))
                return err(Term("REFUSED", deref(a[2]))) if deref(a[2]) == failing else ok(())
            hooks = {inp: inp_hook, prev: lambda m_, a, c, u=utxo_ok: ok(PyVec(["utxo0", "utxo1"])) if u else err(Term("NO-UTXO"))}
            m = Machine(F, strict=True, hooks=hooks)
            m.hooks["bitcoin::ScriptBuf::new"] = lambda m_, a, c: Bytes("empty-script", True)
            m.hooks["<bitcoin::Witness as std::default::Default>::default"] = lambda m_, a, c: Bytes("empty-witness", True)
            m.hooks["bitcoin::Witness::default"] = m.hooks["<bitcoin::Witness as std::default::Default>::default"]
            m.hooks["bitcoin::Witness::new"] = m.hooks["<bitcoin::Witness as std::default::Default>::default"]
            m.hooks["bitcoin::Witness::to_vec"] = lambda m_, a, c: ("vec-of", deref(a[0]))
            m.hooks["bitcoin::Witness::from_slice"] = lambda m_, a, c: deref(a[0])[1] if isinstance(deref(a[0]), tuple) else Term("witness-from", deref(a[0]))
            r = m.call_callee({"def": ichk, "resolved": ichk, "name": "interpreter_check", "targs": ["C"]}, [ps, Term("secp")])
            n += 1
            key = "interpreter_check|finals=%d,%d|refused-at=%s|utxos=%s" % (a0, a1, failing, utxo_ok)
            bad = []
            if not utxo_ok:
                if r.variant != "Err" or calls:
                    bad.append("without the spent outputs the result is %s after %d input checks" % (repr(r)[:80], len(calls)))
            else:
                want_calls = []
                for i, o in enumerate((a0, a1)):
                    fs, fw = opts[o]
                    want_calls.append((i, Bytes("wit%d" % i, False) if fw.variant == "Some" else Bytes("empty-witness", True),
                                       Bytes("sig%d" % i, False) if fs.variant == "Some" else Bytes("empty-script", True)))
                    if failing == i:
                        break
                got_calls = [(c_[0], c_[1], c_[2]) for c_ in calls]
                if got_calls != want_calls:
                    bad.append("inputs checked: %r, expected %r" % (got_calls, want_calls))
                if not all(c_[3] for c_ in calls) or not all("utxo0" in c_[4] and "utxo1" in c_[4] for c_ in calls):
                    bad.append("the input checks are not given this PSBT / all its prevouts")
                if (r.variant == "Ok") != (failing is None):
                    bad.append("result %s with a refusal at input %s" % (repr(r)[:80], failing))
            chk.obligation(R, not bad, key, "; ".join(bad[:2]), where="src/psbt/finalizer.rs")
    except Unsupported as e:
        chk.fail(R, "unanalysable", "unanalysable: %s" % e, where=e.where, kind="unanalysable")
    except Panic as e:
        chk.fail(R, "panic", "panic: %s" % e, where="src/psbt/mod.rs")
    chk.floor(R, "cases", n, 150)


# ---- R14.15 the output updater and the unchecked updaters ---------------------------------------------------------------------------

def check_update_output(chk, F):
    from ..builtins import deref
    R = "R14.15"
    chk.rule(R, "PsbtExt::update_output_with_descriptor updates the output map at the given index against the scriptPubKey of "
                "the unsigned transaction's output at the same index: an index beyond either list, a refusing updater and a "
                "scriptPubKey that is not the descriptor's are errors (decision table); the unchecked updaters of Input / Output "
                "run the same updater on themselves without a scriptPubKey and return the derived descriptor")
    fn = "<bitcoin::Psbt as psbt::PsbtExt>::update_output_with_descriptor"
    unchecked = [q for q in F.fns if q.endswith("::update_with_descriptor_unchecked") and q in F.bodies and F.bodies[q].get("thir")]
    if fn not in F.fns or len(unchecked) != 2:
        chk.fail(R, "anchor", "update_output_with_descriptor / the two update_with_descriptor_unchecked impls not found (%d)" % len(unchecked),
                 kind="unanalysable")
        return
    helper = F.fn("update_item_with_descriptor_helper", file="psbt/mod.rs")
    chk.saw(fn, *unchecked)
    seen = []

    def helper_hook(outcome):
        def f(m_, a, c):
            seen.append((deref(a[0]), deref(a[1]), deref(a[2])))
            if outcome == "err":
                return err(Term("derivation-error"))
            return ok((Term("derived"), outcome == "match"))
        return f

    def txout(tag):
        return Adt("bitcoin::TxOut", "TxOut", {"script_pubkey": ("spk", tag), "value": ("value", tag)})
    n = 0
    try:
        for n_map, n_tx, idx, outcome in itertools.product((1, 2, 3), (1, 2, 3), (0, 1, 2, 3), ("match", "mismatch", "err")):
            m = Machine(F, strict=True, hooks={helper: helper_hook(outcome)})
            seen[:] = []
            ps = mk_psbt(2, 0, [0])
            outs = [Term("output-map", i) for i in range(n_map)]
            ps.fields["outputs"] = PyVec(list(outs))
            ps.fields["unsigned_tx"].fields["output"] = PyVec([txout("out%d" % i) for i in range(n_tx)])
            r = m.call_path(fn, [ps, idx, Term("descriptor")])
            n += 1
            key = "output|maps=%d|txouts=%d|index=%d|updater=%s" % (n_map, n_tx, idx, outcome)
            if idx >= n_map:
                want = "IndexOutOfBounds"
            elif idx >= n_tx:
                want = "MissingTxOut"
            else:
                want = {"match": "Ok", "mismatch": "MismatchedScriptPubkey", "err": "DerivationError"}[outcome]
            bad = []
            got = "Ok" if r.variant == "Ok" else repr(r)
            if want not in got or (want != "Ok" and r.variant == "Ok"):
                bad.append("result %s, expected %s" % (got[:120], want))
            if want in ("Ok", "MismatchedScriptPubkey", "DerivationError"):
                sp = seen[0][2] if seen else None
                good = len(seen) == 1 and repr(seen[0][0]) == repr(outs[idx]) and repr(seen[0][1]) == repr(Term("descriptor")) \
                    and isinstance(sp, Adt) and sp.variant == "Some" and deref(sp.fields["0"]) == ("spk", "out%d" % idx)
                if not good:
                    bad.append("the updater is given %r, expected the output map %d, the descriptor and the scriptPubKey of output %d"
                               % (seen, idx, idx))
            elif seen:
                bad.append("the updater runs although the index is out of range")
            chk.obligation(R, not bad, key, "; ".join(bad), where="src/psbt/mod.rs")
        for q in unchecked:
            for outcome in ("match", "mismatch", "err"):
                m = Machine(F, strict=True, hooks={helper: helper_hook(outcome)})
                seen[:] = []
                me = Term("item")
                r = m.call_path(q, [me, Term("descriptor")])
                n += 1
                bad = []
                if outcome == "err":
                    if r.variant != "Err" or "derivation-error" not in repr(r):
                        bad.append("a refusing updater gives %r" % (r,))
                elif not (r.variant == "Ok" and repr(deref(r.fields["0"])) == repr(Term("derived"))):
                    bad.append("result %r, expected the derived descriptor" % (r,))
                sp = seen[0][2] if seen else None
                if not (len(seen) == 1 and repr(seen[0][0]) == repr(me) and repr(seen[0][1]) == repr(Term("descriptor"))
                        and isinstance(sp, Adt) and sp.variant == "None"):
                    bad.append("the updater is given %r, expected (the item itself, the descriptor, no scriptPubKey)" % (seen,))
                kind = "Input" if "Input" in q else "Output"
                chk.obligation(R, not bad, "unchecked|%s|updater=%s" % (kind, outcome), "; ".join(bad), where="src/psbt/mod.rs")
    except Unsupported as e:
        chk.fail(R, "unanalysable", "unanalysable: %s" % e, where=e.where, kind="unanalysable")
    except Panic as e:
        chk.fail(R, "panic", "panic: %s" % e, where="src/psbt/mod.rs")
    chk.floor(R, "cases", n, 110)


# ---- R14.16 sanity_check ------------------------------------------------------------------------------------------------------------

def check_sanity(chk, F):
    import itertools
    from .. import builtins as B
    from ..builtins import deref
    R = "R14.16"
    chk.rule(R, "psbt::sanity_check (run before finalizing and extracting) accepts a PSBT exactly when the unsigned transaction has "
                "as many inputs as the input map and, for every input, every partial signature carries a standard sighash flag "
                "equal to the input's sighash type (SIGHASH_ALL when none is given; a non-standard PSBT sighash type is refused); "
                "decision table over 2 inputs x declared type x the flags of up to two signatures")
    try:
        fn = F.fn("sanity_check", file="psbt/mod.rs")
    except KeyError as e:
        chk.fail(R, "anchor", "missing anchor %s" % e, kind="unanalysable")
        return
    chk.saw(fn)
    STD = {1: "All", 2: "None", 3: "Single", 0x81: "AllPlusAnyoneCanPay"}
    EST = "bitcoin::EcdsaSighashType"

    def ty(v):
        return Adt(EST, v, {})
    h = {}
    h["bitcoin::psbt::PsbtSighashType::ecdsa_hash_ty"] = lambda m_, a, c: ok(ty(STD[deref(a[0])[1]])) if deref(a[0])[1] in STD else err(Term("NonStandard", deref(a[0])[1]))
    h["bitcoin::EcdsaSighashType::from_standard"] = lambda m_, a, c: ok(ty(STD[deref(a[0])])) if deref(a[0]) in STD else err(Term("NonStandard", deref(a[0])))
    h["bitcoin::ecdsa::Signature::to_vec"] = lambda m_, a, c: PyVec([0] * 72)
    saved = B.TRAIT_TABLE.get(("std::cmp::PartialEq", "ne"))
    m = Machine(F, strict=True, hooks=h)
    n = 0

    def sig(flag):
        # `sighash_type as u32` is the flag's number: the field holds it directly
        return Adt("bitcoin::ecdsa::Signature", "Signature", {"signature": Term("sig"), "sighash_type": flag})
    try:
        decl = [None, 1, 3, 0x81, 0x42]
        sigsets = [(), (1,), (3,), (1, 1), (1, 3), (0x81,), (0x42,), (3, 3)]
        for n_tx, (d0, s0), (d1, s1) in itertools.product((2, 3), itertools.product(decl, sigsets), ((None, ()), (3, (3,)), (None, (2,)))):
            ins = []
            for i, (d, ss) in enumerate(((d0, s0), (d1, s1))):
                inp = mk_input(i)
                inp.fields["sighash_type"] = NONE if d is None else some(("psbt-ty", d))
                inp.fields["partial_sigs"] = B.PyMap([("key%d_%d" % (i, j), sig(f_)) for j, f_ in enumerate(ss)])
                ins.append(inp)
            ps = mk_psbt(2, 0, list(range(n_tx)), ins)
            r = m.call_path(fn, [ps])
            n += 1

            def input_ok(d, ss):
                if d is not None and d not in STD:
                    return False
                target = STD[d] if d is not None else "All"
                return all(f_ in STD and STD[f_] == target for f_ in ss)
            want = n_tx == 2 and input_ok(d0, s0) and input_ok(d1, s1)
            key = "tx-inputs=%d|in0=%s:%s|in1=%s:%s" % (n_tx, d0, ",".join(map(str, s0)) or "-", d1, ",".join(map(str, s1)) or "-")
            chk.obligation(R, (r.variant == "Ok") == want, key, "sanity_check gives %s, expected %s" % (repr(r)[:120], "Ok" if want else "an error"),
                           where="src/psbt/mod.rs")
    except Unsupported as e:
        chk.fail(R, "unanalysable", "unanalysable: %s" % e, where=e.where, kind="unanalysable")
    except Panic as e:
        chk.fail(R, "panic", "panic: %s" % e, where="src/psbt/mod.rs")
    chk.floor(R, "cases", n, 200)


def run(chk):
    F = chk.facts()
    chk.explanation = __doc__
    chk.trusted = ["rust-bitcoin lock-time / PSBT types modelled by their fields and consensus encodings",
                   "rustc THIR / MIR as dumped by factgen; msverif evaluator",
                   "C13 decides the interpreter that the finalizer relies on; C01-C03 decide the satisfier"]
    if not ONLY or "1" in ONLY:
        chk.guard("R14.1", "locks", check_locks, chk, F)
    if not ONLY or "2" in ONLY:
        chk.guard("R14.2", "finalize_input", check_finalize_input, chk, F)
    if not ONLY or "3" in ONLY:
        chk.guard("R14.3", "helper", check_helper_mir, chk, F)
    if not ONLY or "4" in ONLY:
        chk.guard("R14.4", "interp-check", check_interp_check, chk, F)
    if not ONLY or "5" in ONLY:
        chk.guard("R14.5", "entry-points", check_entry_points, chk, F)
    if not ONLY or "7" in ONLY:
        chk.guard("R14.7", "updater", check_updater, chk, F)
    if not ONLY or "6" in ONLY:
        chk.guard("R14.6", "get_descriptor", check_get_descriptor, chk, F)
    if not ONLY or "8" in ONLY:
        chk.guard("R14.8", "sighash_msg", check_sighash_msg, chk, F)
    if not ONLY or "9" in ONLY:
        chk.guard("R14.9", "updater-taproot", check_updater_taproot, chk, F)
        chk.guard("R14.10", "key-sources", check_key_sources, chk, F)
        chk.guard("R14.11", "plan-updater", check_plan_updater, chk, F)
        chk.guard("R14.12", "psbt-satisfier", check_psbt_satisfier, chk, F)
        chk.guard("R14.13", "update-input", check_update_input, chk, F)
        chk.guard("R14.14", "extract", check_extract, chk, F)
        chk.guard("R14.15", "update-output", check_update_output, chk, F)
        chk.guard("R14.16", "sanity-check", check_sanity, chk, F)
        chk.guard("R14.17", "plan-updater-taproot", check_plan_updater_taproot, chk, F)
