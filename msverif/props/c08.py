"""C08 -- compiled policies keep their meaning and are sane in the target context.

The compiler is a dynamic programme; what is decided here is the compositional argument that makes every element it
can ever return equivalent to the policy and soundly typed, not the search itself:

R08.1  entry gates: compile / compile_to_descriptor / compile_tr / compile_tr_native / compile_tr_private_experimental
       proceed to the compiler only when is_valid, check_binary_ops and is_safe_nonmalleable all pass (decision table
       over the outcomes of the three pre-checks)
R08.2  templates: for every policy variant, every fragment that best_compilations hands to insert_best_wrapped /
       builds from the compilations of the sub-policies (extracted by evaluating one level of best_compilations with
       opaque sub-compilations) lifts -- by the specification's lift table -- to a policy with the truth table of
       the input (and, or with and-or forms, thresholds with the swapped first child, multi / multi_a for all-key
       thresholds, leaves)
R08.3  cast table: each of the 10 casts wraps in the fragment its type / ext-data / cost functions are named for, the
       wrapper's lift is the identity, and the cast's type function equals what Type::type_check computes for the
       wrapped fragment on every reachable child type (so from_components_unchecked attaches the true type)
R08.4  insert_elem refuses malleable elements and elements that fail the context's local validity check
R08.5  best_compilation returns only a B element whose type is signed and non-malleable
R08.6  the policy cache key (Ord of concrete policies) distinguishes every payload (rule shared with C19)
R08.7  the per-context limit checks behind check_local_validity pair figures and limits correctly (rule shared with C09)
R08.8  the pre-compilation validity gate (check_timelocks) refuses exactly the policies with a mixed-lock path and
       lift keeps the truth table (rule shared with C18)"""

import itertools
import os
import sys

from ..interp import Machine, Adt, Term, PyVec, PyIter, FnRef, Closure, Panic, ok, err, some, NONE, explore, dcopy
from ..report import Unsupported, RuleAlias
from .. import model, symx

sys.path.insert(0, os.path.join(os.path.dirname(__file__), "..", "..", "spec"))
import policy_sem as PS  # noqa: E402

LEVEL = "other"
ONLY = os.environ.get("C08_ONLY", "")
CP = "policy::concrete::Policy"
T = model.TERMINAL
MS = model.MS


def check_entry_gates(chk, F):
    R = "R08.1"
    chk.rule(R, "each compile entry point reaches the compiler exactly when is_valid and check_binary_ops succeed and "
                "is_safe_nonmalleable returns (true, true); (false, _) gives TopLevelSigless, (_, false) gives "
                "ImpossibleNonMalleableCompilation")
    names = ["compile", "compile_to_descriptor", "compile_tr", "compile_tr_native", "compile_tr_private_experimental"]
    isv = F.fn("is_valid", file="policy/concrete.rs")
    cbo = F.fn("check_binary_ops", file="policy/concrete.rs")
    isn = F.fn("is_safe_nonmalleable", file="policy/concrete.rs")
    bc = F.fn("best_compilation", file="policy/compiler.rs")
    ek = F.fn("extract_key", file="policy/concrete.rs")
    state = {}
    reached = []

    def stop(m_, a, c):
        reached.append(c.get("name"))
        return err(Term("STOP"))
    hooks = {isv: lambda m_, a, c: state["valid"], cbo: lambda m_, a, c: state["binops"], isn: lambda m_, a, c: state["safe"],
             bc: stop, ek: stop}
    m = Machine(F, strict=True, hooks=hooks)
    for nm in names:
        p = F.fn(nm, file="policy/concrete.rs")
        chk.saw(p)
        for valid, binops, signed, nonmall in itertools.product([True, False], repeat=4):
            state["valid"] = ok(()) if valid else err(Term("invalid"))
            state["binops"] = ok(()) if binops else err(Term("binops"))
            state["safe"] = (signed, nonmall)
            del reached[:]
            args = [Adt(CP, "Key", {"0": "A"})]
            if nm in ("compile_tr", "compile_tr_private_experimental"):
                args.append(NONE)
            if nm == "compile_tr_native":
                args += [NONE, 8]
            if nm == "compile_to_descriptor":
                dctx = [a for a in F.adts if a.endswith("DescriptorCtx")][0]
                args.append(Adt(dctx, "Wsh", {}))
            key = "%s|valid=%s binops=%s safe=%s nonmall=%s" % (nm, valid, binops, signed, nonmall)
            try:
                r = m.call_callee({"def": p, "resolved": p, "name": nm,
                                   "targs": ["std::string::String", "miniscript::context::Segwitv0"]}, args)
            except Unsupported as e:
                chk.fail(R, "unanalysable:" + key, "unanalysable: %s" % e, where=e.where, kind="unanalysable")
                continue
            want_reach = valid and binops and signed and nonmall
            good = bool(reached) == want_reach and isinstance(r, Adt) and r.variant == "Err"
            if good and not want_reach and valid and binops:
                e = repr(r)
                good = ("TopLevelSigless" in e) if not signed else ("ImpossibleNonMalleableCompilation" in e)
            chk.obligation(R, good, key, "%s: compiler reached=%r, result %r" % (nm, reached, r), where="src/policy/concrete.rs")


CAST_OF = {  # wrapper shape -> the name suffix its functions must carry (Type::cast_x, ExtData::cast_x, CompilerExtData::cast_x)
    "Check": "check", "DupIf": "dupif", "Verify": "verify", "NonZero": "nonzero", "Swap": "swap", "Alt": "alt",
    "ZeroNotEqual": "zeronotequal", "OrI(0,x)": "likely", "OrI(x,0)": "unlikely", "AndV(x,1)": "true",
}


def shape_of(t):
    if not (isinstance(t, Adt) and t.path == T):
        return None
    v = t.variant
    if v in ("Check", "DupIf", "Verify", "NonZero", "Swap", "Alt", "ZeroNotEqual"):
        return v if isinstance(t.fields["0"], Term) else None

    def const(x, name):
        return isinstance(x, Adt) and x.path == MS and isinstance(x.fields.get("node"), Adt) and x.fields["node"].variant == name
    if v == "OrI":
        if const(t.fields["0"], "False") and isinstance(t.fields["1"], Term):
            return "OrI(0,x)"
        if const(t.fields["1"], "False") and isinstance(t.fields["0"], Term):
            return "OrI(x,0)"
    if v == "AndV" and const(t.fields["1"], "True") and isinstance(t.fields["0"], Term):
        return "AndV(x,1)"
    return None


def check_casts(chk, F):
    R = "R08.3"
    chk.rule(R, "all_casts(): each cast's node constructor builds the wrapper that its ast_type / ext_data / comp_ext_data "
                "functions are the rules of (name pairing over the 10 casts, every wrapper exactly once); the three sugar "
                "casts build or_i(0,x), or_i(x,0), and_v(x,1); Type::cast_x(t) equals the type Type::type_check assigns to "
                "the wrapper over a child of type t, for every reachable child type")
    ac = F.fn("all_casts", file="policy/compiler.rs")
    chk.saw(ac)
    m = Machine(F, strict=False, opaque_unknown=True)
    casts = m.call_callee({"def": ac, "resolved": ac, "name": "all_casts",
                           "targs": ["std::string::String", "miniscript::context::Segwitv0"]}, [])
    items = casts.items if isinstance(casts, PyVec) else list(casts)
    chk.obligation(R, len(items) == 10, "count", "all_casts returns %d casts" % len(items))
    seen = {}
    for i, c in enumerate(items):
        f = c.fields

        def fname(v):
            if isinstance(v, FnRef):
                return v.callee.get("name")
            return None
        try:
            t = m.call_value(f["node"], [Term("x")])
        except Unsupported as e:
            chk.fail(R, "unanalysable:cast%d" % i, "unanalysable: %s" % e, kind="unanalysable")
            continue
        if isinstance(t, Adt) and t.path != T and "0" in t.fields:
            t = t
        sh = shape_of(t)
        names = {k: fname(f[k]) for k in ("ast_type", "ext_data", "comp_ext_data")}
        want = "cast_" + CAST_OF.get(sh, "?")
        good = sh is not None and all(v == want for v in names.values())
        chk.obligation(R, good, "pairing|%s" % (sh or "cast%d" % i),
                       "cast %d builds %s but carries the rules %r" % (i, sh or repr(t)[:80], names),
                       where="src/policy/compiler.rs")
        if sh:
            seen[sh] = seen.get(sh, 0) + 1
    chk.obligation(R, sorted(seen) == sorted(CAST_OF) and all(v == 1 for v in seen.values()), "coverage",
                   "wrappers built by the casts: %r" % (seen,))
    # Type::cast_x(t) == type_check(wrapper(t)) over the reachable types
    from . import c05
    ms = Machine(F, strict=True)
    tc = F.fn("type_check", file="miniscript/types/mod.rs", container="Type")
    c05.restrict_domains()
    types_ = [c05.mk_type(c, x) for c in c05.ALL_CORR for x in c05.ALL_MALL]
    TY = c05.TP + "Type::"

    def const_ms(name):
        ty = ms.eval(F.thir(TY + name.upper())["body"], {})
        return Adt(MS, "Miniscript", {"node": Adt(T, name, {}), "ty": ty, "ext": Term("ext"), "phantom": ()})
    cf, ct = const_ms("False"), const_ms("True")
    n = 0
    skipped = 0
    bad = []
    for sh, suffix in CAST_OF.items():
        castfn = F.fn("cast_" + suffix, file="miniscript/types/mod.rs", container="Type")
        for ty in types_:
            child = Adt(MS, "Miniscript", {"node": Adt(T, "Sha256", {"0": "H"}), "ty": ty, "ext": Term("ext"),
                                           "phantom": ()})
            if sh in ("Check", "DupIf", "Verify", "NonZero", "Swap", "Alt", "ZeroNotEqual"):
                node = Adt(T, sh, {"0": child})
            else:
                node = {"OrI(0,x)": Adt(T, "OrI", {"0": cf, "1": child}), "OrI(x,0)": Adt(T, "OrI", {"0": child, "1": cf}),
                        "AndV(x,1)": Adt(T, "AndV", {"0": child, "1": ct})}[sh]
            try:
                a = ms.call_path(castfn, [dcopy(ty)])
                b = ms.call_callee({"def": tc, "resolved": tc, "name": "type_check",
                                    "targs": ["std::string::String", "miniscript::context::Segwitv0"]}, [node])
            except Unsupported as e:
                chk.fail(R, "unanalysable:typeeq|" + sh, "unanalysable: %s" % e, where=e.where, kind="unanalysable")
                break
            except Panic:
                skipped += 1          # a type combination the library's own sanity assertions exclude
                continue
            n += 1
            av = a.fields["0"] if a.variant == "Ok" else None
            bv = b.fields["0"] if b.variant == "Ok" else None
            if repr(av) != repr(bv):
                bad.append((sh, repr(ty)[:120], repr(av)[:120], repr(bv)[:120]))
    chk.obligation(R, not bad, "type-equality", "%d (cast, child type) pairs where Type::cast_x differs from type_check; "
                   "first %r" % (len(bad), bad[:1]), where="src/policy/compiler.rs", detail=bad[:10])
    chk.extra["R08.3_type_pairs"] = n
    chk.extra["R08.3_excluded_by_sanity_assertions"] = skipped
    chk.floor(R, "(cast, type) pairs", n, 500)


# ---- R08.4 / R08.5 gates inside the compiler --------------------------------------------------------------------

AEE = None


def aee_path(F):
    ps = [a for a in F.adts if a.endswith("compiler::AstElemExt")]
    return ps[0]


def ced(F):
    p = [a for a in F.adts if a.endswith("compiler::CompilerExtData")][0]
    return Adt(p, "CompilerExtData", {"branch_prob": NONE, "sat_cost": 1.0, "dissat_cost": some(1.0)})


def mk_elem(F, node, signed=True, nonmall=True, base="B"):
    from . import c05
    ty = c05.mk_type(c05.mk_corr(base, "Zero", True, True), c05.mk_mall("Unique", signed, nonmall))
    ms = Adt(MS, "Miniscript", {"node": node, "ty": ty, "ext": Adt("miniscript::types::extra_props::ExtData", "ExtData",
                                                                  {"pk_cost": 1, "has_free_verify": False}),
                                "phantom": ()})
    return Adt(aee_path(F), "AstElemExt", {"ms": ms, "comp_ext_data": ced(F)})


def check_inner_gates(chk, F):
    R = "R08.4"
    chk.rule(R, "insert_elem inserts nothing for an element whose type is malleable or that fails the context's "
                "check_local_validity, and inserts a fresh acceptable element")
    ie = F.fn("insert_elem", file="policy/compiler.rs")
    chk.saw(ie)
    state = {"local": ok(())}
    hooks = {}
    for p in F.fns:
        if p.endswith("::check_local_validity"):
            hooks[p] = lambda m_, a, c: state["local"]
    hooks["miniscript::context::ScriptContext::check_local_validity"] = lambda m_, a, c: state["local"]
    m = Machine(F, strict=True, hooks=hooks)
    from ..builtins import PyMap
    for nonmall, local_ok in itertools.product([True, False], repeat=2):
        state["local"] = ok(()) if local_ok else err(Term("limits"))
        mp = PyMap()
        el = mk_elem(F, Term("node"), True, nonmall)
        key = "nonmall=%s local=%s" % (nonmall, local_ok)
        try:
            r = m.call_callee({"def": ie, "resolved": ie, "name": "insert_elem",
                               "targs": ["std::string::String", "miniscript::context::Segwitv0"]}, [mp, el, 1.0, NONE])
        except Unsupported as e:
            chk.fail(R, "unanalysable:" + key, "unanalysable: %s" % e, where=e.where, kind="unanalysable")
            continue
        want = nonmall and local_ok
        chk.obligation(R, r is want and (len(mp.pairs) == 1) == want, key,
                       "insert_elem returned %r and the map has %d element(s)" % (r, len(mp.pairs)), where="src/policy/compiler.rs")
    R5 = "R08.5"
    chk.rule(R5, "best_compilation returns the chosen element only if its type is signed and non-malleable "
                 "(TopLevelSigless / ImpossibleNonMalleableCompilation otherwise)")
    bc = F.fn("best_compilation", file="policy/compiler.rs")
    bt = F.fn("best_t", file="policy/compiler.rs")
    chk.saw(bc)
    st = {}
    m2 = Machine(F, strict=True, hooks={bt: lambda m_, a, c: st["v"]})
    for signed, nonmall, found in itertools.product([True, False], repeat=3):
        st["v"] = ok(mk_elem(F, Term("node"), signed, nonmall)) if found else err(Term("LimitsExceeded"))
        key = "signed=%s nonmall=%s found=%s" % (signed, nonmall, found)
        try:
            r = m2.call_callee({"def": bc, "resolved": bc, "name": "best_compilation",
                                "targs": ["std::string::String", "miniscript::context::Segwitv0"]},
                               [Adt(CP, "Key", {"0": "A"})])
        except Unsupported as e:
            chk.fail(R5, "unanalysable:" + key, "unanalysable: %s" % e, where=e.where, kind="unanalysable")
            continue
        want_ok = found and signed and nonmall
        good = (r.variant == "Ok") == want_ok
        if good and found and not want_ok:
            good = ("TopLevelSigless" in repr(r)) if not signed else ("ImpossibleNonMalleableCompilation" in repr(r))
        chk.obligation(R5, good, key, "best_compilation returned %r" % (r,), where="src/policy/compiler.rs")


# ---- R08.2 templates --------------------------------------------------------------------------------------------

def lockpaths(F):
    a = [x for x in F.adts if x.endswith("absolute_locktime::AbsLockTime")][0]
    r = [x for x in F.adts if x.endswith("relative_locktime::RelLockTime")][0]
    return a, r


def pol(F, p):
    """spec tuple -> concrete Policy model; ('sub', name) is an opaque sub-policy (a key leaf named after it)"""
    a, r = lockpaths(F)
    t = p[0]
    if t == "sub":
        return Adt(CP, "Key", {"0": "§" + p[1]})
    if t == "T":
        return Adt(CP, "Trivial", {})
    if t == "F":
        return Adt(CP, "Unsatisfiable", {})
    if t == "key":
        return Adt(CP, "Key", {"0": p[1]})
    if t == "hash":
        return Adt(CP, p[1], {"0": p[2]})
    if t == "older":
        return Adt(CP, "Older", {"0": Adt(r, "RelLockTime", {"0": p[1]})})
    if t == "after":
        return Adt(CP, "After", {"0": Adt(a, "AbsLockTime", {"0": p[1]})})
    if t == "and":
        return Adt(CP, "And", {"0": PyVec([pol(F, s) for s in p[1]])})
    if t == "or":
        return Adt(CP, "Or", {"0": PyVec([(w, pol(F, s)) for w, s in p[1]])})
    if t == "thresh":
        return Adt(CP, "Thresh", {"0": model.threshold(p[1], [pol(F, s) for s in p[2]])})
    raise ValueError(p)


def sem(p):
    """spec tuple (with weights) -> policy_sem tuple"""
    t = p[0]
    if t == "sub":
        return ("key", "§" + p[1])
    if t == "or":
        return ("or", [sem(s) for _, s in p[1]])
    if t == "and":
        return ("and", [sem(s) for s in p[1]])
    if t == "thresh":
        return ("thresh", p[1], [sem(s) for s in p[2]])
    return p


def lift_node(n):
    """model Terminal (with opaque compiled children Term('C', tag)) -> policy_sem tuple, by the specification's lift
    table (spec/semantics.py, DESIGN Appendix D)"""
    if isinstance(n, Adt) and n.path == MS:
        return lift_node(n.fields["node"])
    if isinstance(n, Term) and n.op == "C":
        return ("key", n.args[0])
    if not (isinstance(n, Adt) and n.path == T):
        raise Unsupported("cannot lift %r" % (n,))
    v, f = n.variant, n.fields
    if v == "True":
        return ("T",)
    if v == "False":
        return ("F",)
    if v in ("PkK", "PkH"):
        return ("key", f["0"])
    if v == "After":
        return ("after", f["0"].fields["0"])
    if v == "Older":
        return ("older", f["0"].fields["0"])
    if v in ("Sha256", "Hash256", "Ripemd160", "Hash160"):
        return ("hash", v, f["0"])
    if v in ("Alt", "Swap", "Check", "DupIf", "Verify", "NonZero", "ZeroNotEqual"):
        return lift_node(f["0"])
    if v in ("AndV", "AndB"):
        return ("and", [lift_node(f["0"]), lift_node(f["1"])])
    if v in ("OrB", "OrC", "OrD", "OrI"):
        return ("or", [lift_node(f["0"]), lift_node(f["1"])])
    if v == "AndOr":
        return ("or", [("and", [lift_node(f["0"]), lift_node(f["1"])]), lift_node(f["2"])])
    if v == "Thresh":
        th = f["0"]
        return ("thresh", th.fields["k"], [lift_node(c) for c in th.fields["inner"].items])
    if v in ("Multi", "MultiA", "SortedMulti", "SortedMultiA"):
        th = f["0"]
        return ("thresh", th.fields["k"], [("key", k) for k in th.fields["inner"].items])
    raise Unsupported("cannot lift %s" % v)


def tag_of(policy_adt):
    """name of an opaque sub-policy (any key leaf stands for `some compilation of that sub-policy`)"""
    if isinstance(policy_adt, Adt) and policy_adt.variant == "Key":
        return policy_adt.fields["0"]
    return None


def adt_to_sem(v):
    x = v.variant
    if x == "Trivial":
        return ("T",)
    if x == "Unsatisfiable":
        return ("F",)
    if x == "Key":
        return ("key", v.fields["0"])
    if x in ("Sha256", "Hash256", "Ripemd160", "Hash160"):
        return ("hash", x, v.fields["0"])
    if x == "Older":
        return ("older", v.fields["0"].fields["0"])
    if x == "After":
        return ("after", v.fields["0"].fields["0"])
    if x == "And":
        return ("and", [adt_to_sem(s) for s in v.fields["0"].items])
    if x == "Or":
        return ("or", [adt_to_sem(s[1]) for s in v.fields["0"].items])
    if x == "Thresh":
        th = v.fields["0"]
        return ("thresh", th.fields["k"], [adt_to_sem(s) for s in th.fields["inner"].items])
    raise ValueError(v)


def extract_templates(F, root_spec, ctx, dissat, thresh_min=0):
    """evaluate one level of best_compilations on the model policy; -> list of Terminal nodes handed on"""
    from ..builtins import PyMap, deref
    bcs = F.fn("best_compilations", file="policy/compiler.rs")
    ibw = F.fn("insert_best_wrapped", file="policy/compiler.rs")
    best = F.fn("best", file="policy/compiler.rs")
    cost = F.fn("cost_1d", file="policy/compiler.rs")
    fa = F.fn("from_ast", file="miniscript/mod.rs")
    aee = aee_path(F)
    binary = [p for p in F.fns if p.endswith("AstElemExt::<Pk, Ctx>::binary")][0]
    ternary = [p for p in F.fns if p.endswith("AstElemExt::<Pk, Ctx>::ternary")][0]
    root = pol(F, root_spec)
    recorded = []
    state = {"depth": 0}

    def opaque(policy_adt, kind):
        tg = tag_of(policy_adt)
        if tg is None:
            # a compound sub-policy (e.g. the folded and of an n-of-n threshold): compile it for real, one level
            raise Unsupported("sub-policy %r is not opaque" % (policy_adt,))
        return mk_elem(F, Term("C", tg, kind))

    def bcs_hook(m_, a, c):
        p = deref(a[1])
        if state["depth"] == 0 or (tag_of(p) is None and state["depth"] < 3):
            state["depth"] += 1
            try:
                return m_.call_path(bcs, a, c)
            finally:
                state["depth"] -= 1
        mp = PyMap()
        mp.pairs.append((Term("ckey", tag_of(p)), opaque(p, "any")))
        return ok(mp)

    def ibw_hook(m_, a, c):
        data = deref(a[3])
        recorded.append((adt_to_sem(deref(a[1])), data.fields["ms"].fields["node"]))
        dp = deref(a[5])
        ordf = [x for x in F.adts if x.endswith("compiler::OrdF64")][0]
        ck = [x for x in F.adts if x.endswith("compiler::CompilationKey")][0]
        odp = some(Adt(ordf, "OrdF64", {"0": dp.fields["0"]})) if dp.variant == "Some" else NONE
        key = Adt(ck, "CompilationKey", {"ty": Term("ty", len(recorded)), "expensive_verify": False, "dissat_prob": odp})
        deref(a[2]).pairs.append((key, data))
        return ok(())

    def best_hook(m_, a, c):
        base = deref(a[0]).variant
        return ok(opaque(deref(a[2]), base))

    def cost_hook(m_, a, c):
        el = deref(a[0])
        node = el.fields["ms"].fields["node"]
        if isinstance(node, Term) and node.op == "C":
            # make child `thresh_min` the most advantageous E (largest W - E difference => smallest E - W)
            idx = state.get("order", {}).get(node.args[0], 0)
            if node.args[1] == "B":
                return 0.0 if idx == thresh_min else 5.0
            return 10.0
        return 1.0

    def wrap_ast(m_, a, c):
        return ok(Adt(aee, "AstElemExt", {"ms": Adt(MS, "Miniscript", {"node": a[0], "ty": Term("ty"), "ext": Term("ext"),
                                                                        "phantom": ()}), "comp_ext_data": ced(F)}))
    hooks = {bcs: bcs_hook, ibw: ibw_hook, best: best_hook, cost: cost_hook, binary: wrap_ast, ternary: wrap_ast,
             fa: lambda m_, a, c: ok(Adt(MS, "Miniscript", {"node": a[0], "ty": Term("ty"), "ext": Term("ext"), "phantom": ()}))}
    for p in F.fns:
        if p.endswith("CompilerExtData::threshold") or p.endswith("CompilationKey::from_type"):
            hooks[p] = lambda m_, a, c: Term("opaque")
    m = Machine(F, strict=True, hooks=hooks, max_depth=80)
    m.text_keys = True
    if root_spec[0] == "thresh":
        state["order"] = {("§" + s[1]) if s[0] == "sub" else s[1]: i for i, s in enumerate(root_spec[2])}
    state["root"] = root
    CTXP = {"segwitv0": "miniscript::context::Segwitv0", "tap": "miniscript::context::Tap"}[ctx]
    r = m.call_callee({"def": bcs, "resolved": bcs, "name": "best_compilations",
                       "targs": ["std::string::String", CTXP]}, [PyMap(), root, 1.0, dissat])
    return r, recorded


def check_templates(chk, F):
    R = "R08.2"
    chk.rule(R, "one level of best_compilations, sub-compilations opaque: every fragment built for a policy variant lifts "
                "(specification's lift table) to the truth table of that policy; every variant builds at least one "
                "fragment; in both signature contexts and with / without a dissatisfaction probability")
    S0, S1, S2, S3 = ("sub", "P0"), ("sub", "P1"), ("sub", "P2"), ("sub", "P3")
    cases = [
        ("Unsatisfiable", ("F",)), ("Trivial", ("T",)), ("Key", ("key", "A")), ("After", ("after", 10)), ("Older", ("older", 5)),
        ("Sha256", ("hash", "Sha256", "H")), ("Hash256", ("hash", "Hash256", "H")), ("Ripemd160", ("hash", "Ripemd160", "H")),
        ("Hash160", ("hash", "Hash160", "H")),
        ("And", ("and", [S0, S1])),
        ("Or", ("or", [(1, S0), (1, S1)])), ("Or-weighted", ("or", [(9, S0), (1, S1)])),
        ("Or-and-left", ("or", [(1, ("and", [S0, S1])), (3, S2)])), ("Or-and-right", ("or", [(2, S2), (1, ("and", [S0, S1]))])),
        ("Or-and-both", ("or", [(1, ("and", [S0, S1])), (1, ("and", [S2, S3]))])),
        ("Thresh-2of3", ("thresh", 2, [S0, S1, S2])), ("Thresh-1of2", ("thresh", 1, [S0, S1])),
        ("Thresh-2of3-min1", ("thresh", 2, [S0, S1, S2])), ("Thresh-2of3-min2", ("thresh", 2, [S0, S1, S2])),
        ("Thresh-keys", ("thresh", 2, [("key", "A"), ("key", "B"), ("key", "C")])),
        ("Thresh-3of3", ("thresh", 3, [S0, S1, S2])),
    ]
    chk.saw(F.fn("best_compilations", file="policy/compiler.rs"), F.fn("compile_binary", file="policy/compiler.rs"),
            F.fn("compile_tern", file="policy/compiler.rs"))
    total = 0
    for ctx in ("segwitv0", "tap"):
        for dissat in (NONE, some(0.5)):
            for name, spec_p in cases:
                key = "%s|%s|%s" % (name, ctx, "q" if dissat.variant == "Some" else "noq")
                tmin = 1 if name.endswith("min1") else (2 if name.endswith("min2") else 0)
                try:
                    r, nodes = extract_templates(F, spec_p, ctx, dissat, tmin)
                except Unsupported as e:
                    chk.fail(R, "unanalysable:" + key, "unanalysable: %s" % e, where=e.where, kind="unanalysable")
                    continue
                except Panic as e:
                    chk.fail(R, key, "panic while compiling one level: %s" % e, where="src/policy/compiler.rs")
                    continue
                bad = []
                for want, n in nodes:
                    try:
                        got = lift_node(n)
                    except Unsupported as e:
                        bad.append("fragment %r cannot be lifted (%s)" % (symx_short(n), e))
                        continue
                    if not PS.equivalent(got, want):
                        bad.append("fragment %s built for %r lifts to %r" % (symx_short(n), want, got))
                if not (isinstance(r, Adt) and r.variant == "Ok"):
                    bad.append("one level of compilation fails: %r" % (r,))
                total += len(nodes)
                if name.startswith("Thresh-3of3"):
                    # an n-of-n threshold is re-compiled as nested `and`s: the fold must be equivalent too (the real
                    # recursive call was evaluated one more level, its fragments are in `nodes`)
                    pass
                chk.obligation(R, not bad and bool(nodes), key,
                               "%d fragment(s) built, %d not equivalent to the policy; first: %s"
                               % (len(nodes), len(bad), bad[0] if bad else "(none built)"), where="src/policy/compiler.rs",
                               detail=bad[:8])
    chk.extra["R08.2_fragments"] = total
    chk.floor(R, "fragments lifted", total, 200)


def symx_short(n):
    s = repr(n)
    return s if len(s) < 200 else s[:200] + "..."


def check_shared_mechanisms(chk, F):
    """two mechanisms the compiler relies on are decided by other properties' rules; they are re-run here under C08's
    ids because a defect in either changes what the compiler returns"""
    from . import c19, limits
    c19.check_policy_ord(RuleAlias(chk, {"R19.5": "R08.6"}, "the compiler's policy cache is keyed by Ord of the policy: "
                                                            "distinct sub-policies must never compare Equal"), F)
    from . import c18
    c18.check_concrete(RuleAlias(chk, {"R18.6": "R08.8"}, "every compile entry point first runs is_valid -> check_timelocks; "
                                                          "a policy with an unspendable mixed-lock path must be refused "
                                                          "there, or the compiled output fails its own sanity rules"), F)
    limits.check_context_limits(RuleAlias(chk, {"R09.3": "R08.7"}, "insert_elem discards what check_local_validity "
                                                                   "refuses: the per-context resource checks must "
                                                                   "compare the right figure with the right limit"), F)


# ---- R08.9 whole policies through the compiler, by evaluation ---------------------------------------------------------

def compile_family(tier):
    """-> [(policy, context)]"""
    A, B, C, D = (("key", x) for x in "ABCD")
    O5, O9, OT, A9, H = ("older", 5), ("older", 9), ("older", 4194309), ("after", 9), ("hash", "Sha256", "H")
    # a k-of-n threshold / a conjunction with a height and a time lock of one kind: refused on a correct tree (costs nothing),
    # compiled -- and then judged -- if a gate lets it through
    mixed = [("thresh", 2, [C, ("and", [A, O5]), ("and", [B, OT])]), ("and", [A, ("and", [O5, OT])])]
    cheap = [A, ("and", [A, B]), ("or", [A, B]), ("orw", [(9, A), (1, B)]), ("and", [A, A9]), ("thresh", 2, [A, B, C]),
             ("thresh", 2, [A, B, O5]), ("thresh", 2, [A, B, H]), ("thresh", 1, [A, B]), ("and", [A, ("or", [B, O5])]),
             # two different locks of one kind in one policy: the policy cache must tell them apart
             ("and", [("and", [A, O5]), O9]), ("and", [("and", [A, O5]), H]), ("and", [("or", [A, B]), ("or", [C, D])]),
             # constants: a trivially true alternative must not make a path signature-free, a false one must not add or hide one
             ("and", [A, ("or", [B, ("T",)])]), ("or", [A, ("T",)]),
             # n-ary and / or can be built by hand (the parser only makes binary ones): the compiler reads two children, so
             # such a policy must be refused, not compiled with its tail dropped
             ("or", [A, B, C]), ("and", [A, B, C]), ("and", [A, ("or", [B, C, D])])]
    tap_too = [("and", [A, B]), ("thresh", 2, [A, B, C]), ("thresh", 2, [A, B, O5]), ("and", [("and", [A, O5]), O9])]
    quick = [(p, "segwitv0") for p in cheap + mixed] + [(p, "tap") for p in tap_too + mixed]
    # the pre-segwit contexts: MINIMALIF is not a consensus rule there, so the compiler must do without or_i / d:
    pre = [A, ("and", [A, B]), ("or", [A, B]), ("thresh", 2, [A, B, C]), ("thresh", 2, [A, B, O5]), ("and", [A, ("or", [B, O5])]),
           ("or", [A, ("and", [B, O5])]), ("thresh", 2, [A, B, H])]
    quick += [(p, "legacy") for p in pre] + [(p, "bare") for p in pre[:5]]
    if tier == "quick":
        return quick
    dear = [("and", [A, O5]), ("and", [A, H]), ("orw", [(1, A), (9, B)]), ("thresh", 3, [A, B, C]), ("and", [("and", [A, B]), C]),
            ("or", [A, ("and", [B, O5])]), ("or", [A, ("and", [B, H])]), ("or", [("or", [A, B]), C]),
            ("or", [("and", [A, B]), ("and", [C, O5])]), ("or", [("and", [A, O5]), ("and", [B, O9])]),
            ("or", [("and", [A, O5]), ("and", [B, OT])]), ("or", [A, ("or", [B, ("and", [C, O5])])]),
            ("and", [A, ("thresh", 2, [B, C, O5])]), ("orw", [(99, A), (1, ("and", [B, A9]))]),
            ("thresh", 2, [A, ("and", [B, O5]), C]), ("and", [A, ("T",)]), ("or", [A, ("F",)]), ("thresh", 1, [A, ("T",)]),
            ("thresh", 2, [A, B, ("F",)])]
    out = list(quick)
    for p in cheap + dear:
        for ctx in ("segwitv0", "tap"):
            if (p, ctx) not in out:
                out.append((p, ctx))
    return out


def _pol_adt(F, p):
    from . import c18
    if p[0] == "orw":
        return Adt(c18.CP, "Or", {"0": PyVec([(w, _pol_adt(F, x)) for w, x in p[1]])})
    if p[0] == "and":
        return Adt(c18.CP, "And", {"0": PyVec([_pol_adt(F, x) for x in p[1]])})
    if p[0] == "or":
        return Adt(c18.CP, "Or", {"0": PyVec([(1, _pol_adt(F, x)) for x in p[1]])})
    if p[0] == "thresh":
        return Adt(c18.CP, "Thresh", {"0": model.threshold(p[1], [_pol_adt(F, x) for x in p[2]])})
    return c18.to_lib(F, p, c18.CP)


def _pol_sem(p):
    if p[0] == "orw":
        return ("or", [_pol_sem(x) for _, x in p[1]])
    if p[0] in ("and", "or"):
        return (p[0], [_pol_sem(x) for x in p[1]])
    if p[0] == "thresh":
        return ("thresh", p[1], [_pol_sem(x) for x in p[2]])
    return p


def pol_text(p):
    """policy tuple -> the policy's text (used in rule instance keys: no blanks)"""
    t = p[0]
    if t == "key":
        return "pk(%s)" % p[1]
    if t in ("older", "after"):
        return "%s(%d)" % (t, p[1])
    if t == "hash":
        return "%s(%s)" % (p[1].lower(), p[2])
    if t == "T":
        return "TRIVIAL"
    if t == "F":
        return "UNSATISFIABLE"
    if t == "and":
        return "and(%s)" % ",".join(pol_text(x) for x in p[1])
    if t == "or":
        return "or(%s)" % ",".join(pol_text(x) for x in p[1])
    if t == "orw":
        return "or(%s)" % ",".join("%d@%s" % (w, pol_text(x)) for w, x in p[1])
    if t == "thresh":
        return "thresh(%d,%s)" % (p[1], ",".join(pol_text(x) for x in p[2]))
    return repr(p).replace(" ", "")


def _compile_work(args):
    from .. import facts, textmodel as tm
    from . import c06, c07, c14, c18
    tm.sys_path_spec()
    import policy_sem as PS
    F = facts.load()
    p, ctx = args
    m = Machine(F, strict=True, max_depth=220)
    m.text_keys = True
    m.max_steps = 400_000_000
    c14.lock_hooks(m)
    key = "%s|%s" % (ctx, pol_text(p))
    try:
        comp = [q for q in F.fns if q.endswith("policy::concrete::Policy::<Pk>::compile")][0]
        r = m.call_callee({"def": comp, "resolved": comp, "name": "compile", "targs": ["std::string::String", c06.CTX[ctx]]},
                          [_pol_adt(F, p)])
        if not (isinstance(r, Adt) and r.variant == "Ok"):
            return key, "refused", repr(r)[:160], []
        ms = r.fields["0"]
        out, _ = tm.display(m, ms)
        text = "".join(map(str, out))
        bad = []
        st = "miniscript::private::Miniscript<std::string::String, %s>" % c06.CTX[ctx]
        lp = c07.lift_impl(F, "miniscript::private::Miniscript")
        lr = m.call_callee({"def": lp, "resolved": lp, "name": "lift", "targs": [], "self_ty": st}, [ms])
        if not (isinstance(lr, Adt) and lr.variant == "Ok"):
            bad.append("the compiled script %s does not lift: %s" % (text, repr(lr)[:120]))
        else:
            got = c18.from_lib(lr.fields["0"])
            if not PS.equivalent(_pol_sem(p), got):
                bad.append("the compiled script %s has the spending condition %r, the policy is %r" % (text, got, _pol_sem(p)))
        ty = ms.fields["ty"]
        if ty.fields["corr"].fields["base"].variant != "B":
            bad.append("the compiled script %s is not of type B" % text)
        if not ty.fields["mall"].fields["signed"]:
            bad.append("the compiled script %s has a path without signature" % text)
        if not ty.fields["mall"].fields["non_malleable"]:
            bad.append("the compiled script %s is malleable" % text)
        from . import c12
        vp = [q for q in F.fns if q.endswith("miniscript::private::Miniscript::<Pk, Ctx>::validate")]
        sane = c12.params_value(F, "<%s as miniscript::context::ScriptContext>::SANE" % c06.CTX[ctx])
        if len(vp) == 1:
            sr = m.call_callee({"def": vp[0], "resolved": vp[0], "name": "validate", "targs": ["std::string::String", c06.CTX[ctx]]},
                               [ms, sane])
            if not (isinstance(sr, Adt) and sr.variant == "Ok"):
                bad.append("the compiled script %s is refused by the context's SANE parameters: %s" % (text, repr(sr)[:120]))
        else:
            bad.append("anchor: Miniscript::validate not found")
        # re-parse from its own text
        T_ = c06.Typer(F)
        tr = tm.parse_tree(F, T_.m, text)
        ri = T_.m.call_path(T_.root, [tr.fields["0"]])
        rr = T_.m.call_callee({"def": "expression::FromTree::from_tree", "resolved": T_.ft, "name": "from_tree",
                               "trait": "expression::FromTree",
                               "resolved_container": "miniscript::<impl expression::FromTree for miniscript::private::Miniscript<Pk, Ctx>>",
                               "self_ty": st, "targs": [st]}, [ri])
        if not (isinstance(rr, Adt) and rr.variant == "Ok") or tm.strip(rr.fields["0"]) != tm.strip(ms):
            bad.append("the text %s of the compiled script does not parse back to it" % text)
        return key, "ok", text, bad
    except Unsupported as e:
        return key, "unanalysable", "unanalysable: %s (%s)" % (e, e.where), []
    except Panic as e:
        return key, "ok", "", ["panic while compiling: %s" % e]


def check_compile_end_to_end(chk, F):
    import multiprocessing as mp
    R = "R08.9"
    chk.rule(R, "whole policies through Policy::compile (segwit v0, tapscript, and a smaller family in the pre-segwit Legacy / "
                "Bare contexts), by evaluating the compiler itself: whenever "
                "a miniscript is returned it lifts (evaluated) to a policy with the truth table of the input policy, is of type "
                "B, signed and non-malleable, passes validate(&Ctx::SANE), and its text parses back to it")
    jobs = compile_family(chk.tier)
    with mp.Pool(min(16, os.cpu_count() or 4)) as pool:
        res = pool.map(_compile_work, jobs, chunksize=1)
    n_ok = 0
    for key, status, info, bad in res:
        if status == "unanalysable":
            chk.fail(R, "unanalysable:" + key, info, kind="unanalysable")
        elif status == "refused":
            chk.extra.setdefault("R08.9_refused", []).append("%s: %s" % (key, info))
        else:
            n_ok += 1
            chk.obligation(R, not bad, key, "; ".join(bad[:2])[:800], where="src/policy/compiler.rs")
            if len(chk.extra.setdefault("R08.9_samples", [])) < 12:
                chk.extra["R08.9_samples"].append("%s -> %s" % (key, info))
    chk.floor(R, "compiled policies", n_ok, 16)


# ---- R08.10 compile_tr by evaluation ----------------------------------------------------------------------------------

def compile_tr_family(tier):
    A, B, C, D = (("key", x) for x in "ABCD")
    O5, A9, H = ("older", 5), ("after", 9), ("hash", "Sha256", "H")
    fam = [A, ("or", [A, B]), ("orw", [(9, A), (1, B)]), ("orw", [(1, A), (9, B)]), ("and", [A, B]), ("thresh", 2, [A, B, C]),
           ("or", [A, ("and", [B, O5])]), ("or", [A, ("or", [B, C])]), ("or", [("and", [A, B]), ("and", [C, O5])]),
           ("thresh", 1, [A, B, C]), ("or", [A, ("and", [B, H])]), ("and", [A, ("or", [B, O5])]),
           # a trivially true alternative: no output may make it a signature-free leaf / branch
           ("or", [A, ("T",)])]
    if tier != "quick":
        fam += [("and", [A, ("or", [B, ("T",)])]), ("or", [A, ("F",)])]
        fam += [("thresh", 2, [A, B, O5]), ("orw", [(9, A), (1, ("and", [B, A9]))]), ("or", [("or", [A, B]), ("or", [C, D])]),
                ("orw", [(1, ("and", [A, B])), (3, ("and", [C, O5])), (5, ("and", [D, H]))]),
                ("thresh", 1, [("and", [A, B]), ("and", [C, O5]), D])]
    return fam


def _compile_tr_work(job):
    p, mode = job
    from .. import facts, textmodel as tm
    from . import c07, c10, c12, c14, c18
    tm.sys_path_spec()
    import policy_sem as PS
    F = facts.load()
    m = Machine(F, strict=True, max_depth=220)
    m.text_keys = True
    m.max_steps = 400_000_000
    c14.lock_hooks(m)
    tm.install_bech32(F, m)
    key = "%s|%s" % (mode, pol_text(p))
    try:
        S = "std::string::String"
        if mode in ("compile_tr", "compile_tr_private_experimental"):
            ct = [q for q in F.fns if q.endswith("policy::concrete::Policy::<Pk>::" + mode)][0]
            r = m.call_callee({"def": ct, "resolved": ct, "name": mode, "targs": [S]}, [_pol_adt(F, p), some("UNSPENDABLE")])
        elif mode == "compile_tr_native":
            ct = [q for q in F.fns if q.endswith("policy::concrete::Policy::<Pk>::compile_tr_native")][0]
            r = m.call_callee({"def": ct, "resolved": ct, "name": mode, "targs": [S]}, [_pol_adt(F, p), some("UNSPENDABLE"), 8])
        else:
            kind = mode.split(":")[1]
            ctxp = {"Wsh": "miniscript::context::Segwitv0", "ShWsh": "miniscript::context::Segwitv0",
                    "Sh": "miniscript::context::Legacy", "Bare": "miniscript::context::BareCtx", "Tr": "miniscript::context::Tap"}[kind]
            ct = [q for q in F.fns if q.endswith("policy::concrete::Policy::<Pk>::compile_to_descriptor")][0]
            dctx = Adt("policy::concrete::DescriptorCtx", kind, {"0": some("UNSPENDABLE")} if kind == "Tr" else {})
            r = m.call_callee({"def": ct, "resolved": ct, "name": "compile_to_descriptor", "targs": [S, ctxp]}, [_pol_adt(F, p), dctx])
        if not (isinstance(r, Adt) and r.variant == "Ok"):
            return key, "refused", repr(r)[:160], []
        d = r.fields["0"]
        out, _ = tm.display(m, d, alternate=True)
        text = "".join(map(str, out))
        bad = []
        lp = c07.lift_impl(F, c10.DESC)
        lr = m.call_callee({"def": lp, "resolved": lp, "name": "lift", "targs": ["std::string::String"]}, [d])
        if not (isinstance(lr, Adt) and lr.variant == "Ok"):
            bad.append("the compiled descriptor %s does not lift: %s" % (text, repr(lr)[:120]))
        else:
            got = PS.subst(c18.from_lib(lr.fields["0"]), lambda a: ("F",) if a == ("key", "UNSPENDABLE") else None)
            if not PS.equivalent(_pol_sem(p), got):
                bad.append("the compiled descriptor %s has the spending condition %r, the policy is %r" % (text, got, _pol_sem(p)))
        # every leaf is sane in the tapscript context
        vp = [q for q in F.fns if q.endswith("miniscript::private::Miniscript::<Pk, Ctx>::validate")][0]
        sane = c12.params_value(F, "<miniscript::context::Tap as miniscript::context::ScriptContext>::SANE")
        tr = d.fields["0"]
        tree = tr.fields["tree"] if d.variant == "Tr" else NONE
        want_variant = {"desc:Wsh": "Wsh", "desc:Sh": "Sh", "desc:ShWsh": "Sh", "desc:Bare": "Bare"}.get(mode, "Tr")
        if d.variant != want_variant or (mode == "desc:ShWsh" and tr.fields["inner"].variant != "Wsh") or \
                (mode == "desc:Sh" and tr.fields["inner"].variant != "Ms"):
            bad.append("the compiled descriptor %s is not of the requested kind %s" % (text, mode))
        if tree.variant == "Some":
            for depth, leaf in tree.fields["0"].fields["depths_leaves"].items:
                sr = m.call_callee({"def": vp, "resolved": vp, "name": "validate",
                                    "targs": ["std::string::String", "miniscript::context::Tap"]}, [leaf, sane])
                if not (isinstance(sr, Adt) and sr.variant == "Ok"):
                    lo, _ = tm.display(m, leaf)
                    bad.append("leaf %s of %s is refused by Tap::SANE: %s" % ("".join(map(str, lo)), text, repr(sr)[:100]))
        # its text parses back to it
        rr = c10.desc_from_str(F, m, text)
        if not (isinstance(rr, Adt) and rr.variant == "Ok") or c10.pstrip(rr.fields["0"]) != c10.pstrip(d):
            bad.append("the text %s of the compiled descriptor does not parse back to it (%s)" % (text, repr(rr)[:100]))
        return key, "ok", text, bad
    except Unsupported as e:
        return key, "unanalysable", "unanalysable: %s (%s)" % (e, e.where), []
    except Panic as e:
        return key, "ok", "", ["panic while compiling: %s" % e]


def check_compile_tr(chk, F):
    import multiprocessing as mp
    R = "R08.10"
    chk.rule(R, "whole policies through Policy::compile_tr (internal-key extraction, per-leaf compilation, Huffman tree), "
                "compile_tr_native, compile_tr_private_experimental and compile_to_descriptor (bare, sh, wsh, sh-wsh, tr), by "
                "evaluating them: the returned descriptor is of the requested kind, lifts (evaluated) to a policy with the truth table of the input "
                "policy (the unspendable key counting as never available), every leaf passes validate(&Tap::SANE), and the "
                "descriptor's text parses back to it")
    A, B, C = (("key", x) for x in "ABC")
    quick = chk.tier == "quick"
    jobs = [(p, "compile_tr") for p in compile_tr_family(chk.tier)]
    small = [("thresh", 2, [A, B, C])] + ([] if quick else [("or", [A, ("and", [B, ("older", 5)])])])
    jobs += [(p, "desc:" + k) for p in small for k in ("Wsh", "Sh", "ShWsh", "Bare", "Tr")]
    jobs += [(p, md) for p in [("or", [A, ("or", [B, C])])] + ([] if quick else [("or", [("and", [A, B]), ("and", [C, ("older", 5)])])])
             for md in ("compile_tr_native", "compile_tr_private_experimental")]
    # a branch no leaf compilation exists for must be an error in every taproot compiler (cheap: refused at once)
    jobs += [(("or", [A, ("T",)]), md) for md in ("compile_tr_native", "compile_tr_private_experimental")]
    if not quick:
        jobs += [(p, md) for p in compile_tr_family("quick")[1:-1] for md in ("compile_tr_native", "compile_tr_private_experimental")]
    with mp.Pool(min(16, os.cpu_count() or 4)) as pool:
        res = pool.map(_compile_tr_work, jobs, chunksize=1)
    n_ok = 0
    for key, status, info, bad in res:
        if status == "unanalysable":
            chk.fail(R, "unanalysable:" + key, info, kind="unanalysable")
        elif status == "refused":
            chk.extra.setdefault("R08.10_refused", []).append("%s: %s" % (key, info))
        else:
            n_ok += 1
            chk.obligation(R, not bad, key, "; ".join(bad[:2])[:800], where="src/policy/concrete.rs")
            chk.extra.setdefault("R08.10_samples", []).append("%s -> %s" % (key, info))
    chk.floor(R, "compiled policies", n_ok, 16)


# ---- R08.13 the signature-on-every-path bit -----------------------------------------------------------------------------

def check_safety_bit(chk, F):
    """Policy::is_safe_nonmalleable().0, the gate of every compile entry point, against its definition"""
    import itertools
    from ..builtins import deref
    R = "R08.13"
    chk.rule(R, "Policy::is_safe_nonmalleable - the gate every compile entry point applies first - reports a policy as safe "
                "only if every way of satisfying it includes a signature: with all keys withheld and every hash preimage and "
                "time lock granted the policy is false (TRIVIAL is satisfiable with nothing, so it is not safe; UNSATISFIABLE "
                "is, vacuously); decided by evaluating the function on every policy of a bounded family (constants, key, "
                "hash, lock under and / or / thresh to depth two)")
    try:
        isn = F.fn("is_safe_nonmalleable", file="policy/concrete.rs")
    except KeyError as e:
        chk.fail(R, "anchor", "missing anchor %s" % e, kind="unanalysable")
        return
    chk.saw(isn)
    A, B = ("key", "A"), ("key", "B")
    leaves = [("T",), ("F",), A, ("hash", "Sha256", "H"), ("older", 5)]
    lvl1 = list(leaves)
    for x, y in itertools.product(leaves, repeat=2):
        y2 = B if y == A else y
        lvl1 += [("and", [x, y2]), ("or", [x, y2])]
    for k in (1, 2, 3):
        for xs in itertools.combinations_with_replacement(leaves, 3):
            lvl1.append(("thresh", k, list(xs)))
    fam = list(lvl1)
    inner = [("and", [A, ("T",)]), ("or", [A, ("T",)]), ("or", [A, ("F",)]), ("and", [("hash", "Sha256", "H"), ("T",)]),
             ("thresh", 1, [A, ("T",), ("F",)]), ("or", [A, B]), ("and", [A, ("older", 5)])]
    for x in inner:
        for y in leaves:
            fam += [("and", [x, y]), ("or", [x, y]), ("thresh", 2, [x, y, B])]

    def granted(p):
        """truth of the policy when no key signs and everything else is available"""
        t = p[0]
        if t == "T":
            return True
        if t in ("F", "key"):
            return False
        if t in ("hash", "older", "after"):
            return True
        if t == "and":
            return all(granted(x) for x in p[1])
        if t == "or":
            return any(granted(x) for x in p[1])
        if t == "thresh":
            return sum(granted(x) for x in p[2]) >= p[1]
        raise Unsupported("policy %r" % (p,))
    m = Machine(F, strict=True)
    m.text_keys = True
    n = 0
    for p in fam:
        key = pol_text(p)
        try:
            r = m.call_callee({"def": isn, "resolved": isn, "name": "is_safe_nonmalleable", "targs": ["std::string::String"]},
                              [_pol_adt(F, p)])
            safe = bool(deref(r[0] if isinstance(r, tuple) else r.fields["0"]))
        except Unsupported as e:
            chk.fail(R, "unanalysable:" + key, "unanalysable: %s" % e, where=e.where, kind="unanalysable")
            continue
        except Panic as e:
            chk.fail(R, key, "panic: %s" % e, F.fns[isn]["span"])
            continue
        n += 1
        chk.obligation(R, not (safe and granted(p)), key,
                       "is_safe_nonmalleable reports %s as requiring a signature on every path, yet it is satisfiable with no "
                       "signature at all" % key, F.fns[isn]["span"])
    chk.floor(R, "policies", n, 150)


def run(chk):
    F = chk.facts()
    chk.explanation = __doc__
    chk.trusted = ["spec/semantics.py lift table (C07 decides the library's lift equals it)", "C05 / C06: types are "
                   "sound statements about execution", "rustc THIR; msverif evaluator"]
    if not ONLY or "1" in ONLY:
        chk.guard("R08.1", "gates", check_entry_gates, chk, F)
    if not ONLY or "2" in ONLY:
        chk.guard("R08.2", "templates", check_templates, chk, F)
    if not ONLY or "3" in ONLY:
        chk.guard("R08.3", "casts", check_casts, chk, F)
    if not ONLY or "4" in ONLY:
        chk.guard("R08.4", "inner-gates", check_inner_gates, chk, F)
    if not ONLY or "6" in ONLY:
        chk.guard("R08.6", "shared", check_shared_mechanisms, chk, F)
    if not ONLY or "9" in ONLY:
        chk.guard("R08.9", "compile-end-to-end", check_compile_end_to_end, chk, F)
    if not ONLY or "10" in ONLY.split(","):
        chk.guard("R08.10", "compile-tr", check_compile_tr, chk, F)
    from . import ctors
    chk.guard("R08.11", "typed-constructors", ctors.check_typed_constructors, chk, F, "R08.11")
    # the compiler keeps a candidate only if Ctx::check_local_validity accepts it: that filter must apply all of the
    # context's checks (rule shared with C07, whose lift guard reads the same function)
    from . import c07
    chk.guard("R08.12", "candidate-filter", c07.check_local_validity_table, chk, F, "R08.12")
    if not ONLY or "13" in ONLY.split(","):
        chk.guard("R08.13", "safety-bit", check_safety_bit, chk, F)
