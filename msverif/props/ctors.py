"""Typed fragment constructors (Miniscript::pk_k, pk_h, expr_raw_pkh, after, older, sha256, hash256, ripemd160, hash160,
multi, sortedmulti, multi_a, sortedmulti_a, pk, pkh, TRUE, FALSE) attach a type and the static figures without running
type_check.  The text parser, the script decoder and the policy compiler build their leaves with them.  Rule shared by
C05 (types), C09 (figures), C08 (the compiler's leaves) and C12 (constructor discipline): what a typed constructor
attaches is exactly what from_ast (Type::type_check + ExtData::type_check) computes for the same node."""

from .. import model
from ..interp import Machine, Adt, Term, PyVec, Panic
from ..report import Unsupported

CTXS = {"Segwitv0": "miniscript::context::Segwitv0", "Tap": "miniscript::context::Tap", "Legacy": "miniscript::context::Legacy",
        "BareCtx": "miniscript::context::BareCtx"}
S = "std::string::String"


def check_typed_constructors(chk, F, R):
    from . import c18
    chk.rule(R, "every typed fragment constructor of Miniscript attaches the type and the static figures (ExtData) that "
                "from_ast computes for the same node with Type::type_check / ExtData::type_check, in every script context "
                "that admits the fragment (these constructors are what the text parser, the script decoder and the policy "
                "compiler use for leaves)")
    a, r = c18.lockpaths(F)
    args = {
        "pk_k": ["A"], "pk_h": ["A"], "pk": ["A"], "pkh": ["A"], "expr_raw_pkh": [Term("hash160bytes")],
        "after": [Adt(a, "AbsLockTime", {"0": 500000123})], "older": [Adt(r, "RelLockTime", {"0": 4194309})],
        "sha256": ["H"], "hash256": ["H"], "ripemd160": ["H"], "hash160": ["H"],
        "multi": [model.threshold(2, ["A", "B", "C"])], "sortedmulti": [model.threshold(2, ["C", "A", "B"])],
        "multi_a": [model.threshold(2, ["A", "B", "C"])], "sortedmulti_a": [model.threshold(1, ["B", "A"])],
    }
    try:
        from_ast = F.fn("from_ast", file="miniscript/mod.rs")
    except KeyError as e:
        chk.fail(R, "anchor", "missing %s" % e, kind="unanalysable")
        return
    n = 0
    m = Machine(F, strict=True, max_depth=80)
    m.text_keys = True
    for name, av in sorted(args.items()):
        ps = [q for q in F.fns if q.endswith("miniscript::private::Miniscript::<Pk, Ctx>::" + name)]
        if len(ps) != 1:
            chk.fail(R, "anchor|" + name, "Miniscript::%s not found" % name, kind="unanalysable")
            continue
        chk.saw(ps[0])
        for cname, ctx in CTXS.items():
            key = "%s|%s" % (name, cname)
            try:
                from ..interp import dcopy
                ms = m.call_callee({"def": ps[0], "resolved": ps[0], "name": name, "targs": [S, ctx]}, [dcopy(x) for x in av])
                ref = m.call_callee({"def": from_ast, "resolved": from_ast, "name": "from_ast", "targs": [S, ctx]},
                                    [dcopy(ms.fields["node"])])
                if not (isinstance(ref, Adt) and ref.variant == "Ok"):
                    continue        # the context does not admit the fragment
                n += 1
                ref = ref.fields["0"]
                bad = []
                if repr(ms.fields["ty"]) != repr(ref.fields["ty"]):
                    bad.append("type %r, type_check gives %r" % (ms.fields["ty"], ref.fields["ty"]))
                for f_ in sorted(ref.fields["ext"].fields):
                    if repr(ms.fields["ext"].fields.get(f_)) != repr(ref.fields["ext"].fields[f_]):
                        bad.append("ext.%s = %r, ExtData::type_check gives %r" % (f_, ms.fields["ext"].fields.get(f_), ref.fields["ext"].fields[f_]))
                chk.obligation(R, not bad, key, "Miniscript::%s attaches %s" % (name, "; ".join(bad[:3])), F.fns[ps[0]]["span"])
            except Unsupported as e:
                chk.fail(R, "unanalysable:" + key, "unanalysable: %s" % e, where=e.where, kind="unanalysable")
            except Panic as e:
                chk.fail(R, key, "panic: %s" % e, F.fns[ps[0]]["span"])
    # the two constants
    for cn in ("TRUE", "FALSE"):
        for cname, ctx in CTXS.items():
            key = "%s|%s" % (cn, cname)
            cands = [q for q in F.consts if q.endswith("Miniscript::<Pk, Ctx>::" + cn)]
            if not cands:
                continue
            try:
                from .. import constval
                v = F.consts[cands[0]].get("value")
                if not v:
                    continue
                ms = constval.parse(v)
                ref = m.call_callee({"def": from_ast, "resolved": from_ast, "name": "from_ast", "targs": [S, ctx]},
                                    [Adt(model.TERMINAL, "True" if cn == "TRUE" else "False", {})])
                if isinstance(ref, Adt) and ref.variant == "Ok":
                    n += 1
                    ref = ref.fields["0"]
                    chk.obligation(R, repr(ms.fields["ty"]) == repr(ref.fields["ty"]) and repr(ms.fields["ext"]) == repr(ref.fields["ext"]),
                                   key, "Miniscript::%s carries %r / %r, from_ast gives %r / %r" % (cn, ms.fields["ty"], ms.fields["ext"],
                                                                                                     ref.fields["ty"], ref.fields["ext"]))
            except Exception:
                pass
    chk.floor(R, "constructor x context cases", n, 40)
