"""C01 -- every satisfaction returned actually spends the output.

Decides the structural clauses: the library's satisfaction templates and the
output-type assembly are the specification's (DESIGN.md C01). Not the behaviour."""

import os
import sys

from .. import model, satmodel
from ..interp import Adt, Term, PyVec, Machine, Panic, ok, err
from ..report import Unsupported

sys.path.insert(0, os.path.join(os.path.dirname(__file__), "..", ".."))
from spec import satisfaction as spec  # noqa: E402

LEVEL = "other"


def sd_parts(res):
    if isinstance(res, Adt) and res.variant == "SatDissat":
        return res.fields["sat"], res.fields["dissat"]
    return None, None


def check_templates(chk, F, P, malleable, rid="R01.1", mode="sound"):
    """mode 'sound' (C01): every template the library produces is the specification's (a missing one,
    IMPOSSIBLE, cannot produce a failing witness); mode 'complete' (C02): none is missing."""
    if mode == "sound":
        chk.rule(rid, "per-fragment (sat, dissat) witness templates extracted from Satisfaction::sat_dissat "
                      "(all assets available) are the specification's canonical templates (or absent)")
    else:
        chk.rule(rid, "no canonical (dis)satisfaction template of the specification is missing "
                      "(IMPOSSIBLE / UNAVAILABLE) when all assets are available")
    where = F.fns[P["sat_dissat"]]["span"]
    n_var = 0
    for v in model.variants(F):
        if v in ("Thresh", "Multi", "SortedMulti", "MultiA", "SortedMultiA"):
            continue
        n_var += 1
        if v not in spec.TEMPLATES:
            chk.fail(rid, v + "|unknown", "Terminal::%s has no template in the oracle" % v, where)
            continue
        try:
            res, m = satmodel.run_variant(F, v, malleable, P=P)
        except Unsupported as e:
            chk.fail(rid, "%s|unanalysable" % v, "unanalysable: %s" % e, where, kind="unanalysable")
            continue
        chk.saw(*m.called)
        want_sat, want_dis = spec.TEMPLATES[v]
        for conds, r in res:
            key = "%s|mall=%s" % (v, malleable)
            if isinstance(r, tuple) and r and r[0] == "panic":
                chk.fail(rid, key + "|panic", "sat_dissat(%s) panics on a path with all assets available "
                         "(conditions %r): %s" % (v, conds, r[1]), where)
                continue
            s, d = sd_parts(r)
            if s is None:
                chk.fail(rid, key + "|shape", "unexpected result %r" % (r,), where, kind="unanalysable")
                continue
            gs, gd = satmodel.nf_sat(s), satmodel.nf_sat(d)
            if mode == "complete":
                for tag, g, w in (("sat", gs, want_sat), ("dissat", gd, want_dis)):
                    missing = g in (spec.IMPOSSIBLE, satmodel.UNAVAILABLE) and w != spec.IMPOSSIBLE
                    if not missing and isinstance(g, list) and isinstance(w, list):
                        # a template that needs a child's (dis)satisfaction where the canonical one does not is missing
                        # whenever that child cannot provide it
                        def parts(t):
                            return set(x for x in t if isinstance(x, tuple) and x and x[0] in ("S", "D"))
                        extra = parts(g) - parts(w)
                        chk.obligation(rid, not extra, "%s|%s|needs" % (v, tag),
                                       "%s template of %s is %r: it needs %r of a child, the canonical witness %r does not - the "
                                       "fragment is reported un(dis)satisfiable whenever that child is" % (tag, v, g, sorted(extra), w),
                                       where, detail={"variant": v, "got": repr(g), "want": repr(w)})
                    chk.obligation(rid, not missing, "%s|%s" % (v, tag),
                                   "%s template of %s is %s with all assets available, but the specification "
                                   "has the canonical witness %r: satisfiable scripts are reported unspendable"
                                   % (tag, v, g, w), where, detail={"variant": v, "got": repr(g), "want": repr(w)})
                continue
            if gs == spec.IMPOSSIBLE and want_sat != spec.IMPOSSIBLE:
                gs = want_sat   # absent template: completeness (C02), not soundness
            if gd == spec.IMPOSSIBLE and want_dis != spec.IMPOSSIBLE:
                gd = want_dis
            okk = satmodel.alt_eq(gs, want_sat)
            chk.obligation(rid, okk, key + "|sat",
                           "satisfaction template of %s is %r, specification %r (path %r)" % (v, gs, want_sat, conds),
                           where, detail={"variant": v, "got": repr(gs), "want": repr(want_sat)})
            okd = satmodel.alt_eq(gd, want_dis)
            chk.obligation(rid, okd, key + "|dissat",
                           "dissatisfaction template of %s is %r, specification %r (path %r)" % (v, gd, want_dis, conds),
                           where, detail={"variant": v, "got": repr(gd), "want": repr(want_dis)})
            if v in ("AndOr", "OrI", "DupIf", "PkH") and not malleable:
                chk.sample({"variant": v, "sat": repr(gs), "dissat": repr(gd)})
    return n_var


def check_thresh(chk, F, P, malleable):
    rid = "R01.1"
    where = F.fns[P["sat_dissat"]]["span"]
    n = 3
    for k in (1, 2, 3):
        try:
            res, m = satmodel.run_variant(F, "Thresh", malleable, n=n, k=k, P=P)
        except Unsupported as e:
            chk.fail(rid, "Thresh|unanalysable", "unanalysable: %s" % e, where, kind="unanalysable")
            return
        chk.saw(*m.called)
        for conds, r in res:
            key = "Thresh|k=%d|mall=%s" % (k, malleable)
            s, d = sd_parts(r)
            if s is None:
                chk.fail(rid, key + "|shape", "unexpected result %r" % (r,), where)
                continue
            gd = satmodel.nf_sat(d)
            chk.obligation(rid, gd == spec.thresh_dissat(n), key + "|dissat",
                           "thresh dissatisfaction is %r, specification %r" % (gd, spec.thresh_dissat(n)), where)
            gs = satmodel.nf_sat(s)
            if k == n:
                chk.obligation(rid, gs == spec.thresh_all_sat(n), key + "|sat",
                               "thresh(k=n) satisfaction is %r, specification: all children satisfied %r"
                               % (gs, spec.thresh_all_sat(n)), where)
            else:
                want = ("thresh", k, n, [[("D", i)] for i in range(n)], [[("S", i)] for i in range(n)])
                chk.obligation(rid, gs == want, key + "|sat",
                               "thresh satisfaction hands %r to the selection routine; expected k, n and the "
                               "children's (dissat, sat) witnesses in child order %r" % (gs, want), where)
    chk.sample({"variant": "Thresh", "n": n, "ks": [1, 2, 3]})


def check_multi(chk, F, P):
    rid = "R01.2"
    chk.rule(rid, "multi / multi_a / sorted variants: dummy + k signatures in key order; k+1 resp. n empty "
                  "pushes as dissatisfaction; CHECKSIGADD order reversed; sorted variants go through BIP67 sort")
    where = F.fns[P["sat_dissat"]]["span"]
    n = 3
    for v in ("Multi", "SortedMulti", "MultiA", "SortedMultiA"):
        for k in (1, 2, 3):
            try:
                res, m = satmodel.run_variant(F, v, False, n=n, k=k, P=P)
            except Unsupported as e:
                chk.fail(rid, "%s|unanalysable" % v, "unanalysable: %s" % e, where, kind="unanalysable")
                break
            chk.saw(*m.called)
            if v == "Multi":
                keys = ["K%d" % i for i in range(n)]
            elif v == "SortedMulti":
                keys = ["sorted67:K%d" % i for i in range(n)]
            elif v == "MultiA":
                keys = ["K%d" % i for i in range(n)]
            else:
                keys = ["sorted67x:K%d" % i for i in range(n)]
            good_paths = 0
            for conds, r in res:
                key = "%s|k=%d" % (v, k)
                if isinstance(r, tuple) and r and r[0] == "panic":
                    # leaf_hash.expect(..) for multi_a outside Tapscript: documented API precondition
                    if v in ("MultiA", "SortedMultiA") and any(
                            isinstance(t, Term) and t.op == "is" and t.args[0] == Term("leaf_hash") and not dd
                            for t, dd in conds):
                        continue
                    chk.fail(rid, key + "|panic", "%s template panics with all assets available: %s (path %r)"
                             % (v, r[1], conds), where)
                    continue
                s, d = sd_parts(r)
                if s is None:
                    chk.fail(rid, key + "|shape", "unexpected result %r" % (r,), where)
                    continue
                good_paths += 1
                gs, gd = satmodel.nf_sat(s), satmodel.nf_sat(d)
                if v in ("Multi", "SortedMulti"):
                    chk.obligation(rid, gs == spec.multi_sat(k, keys), key + "|sat",
                                   "%s satisfaction %r, specification %r" % (v, gs, spec.multi_sat(k, keys)), where)
                    chk.obligation(rid, gd == spec.multi_dissat(k), key + "|dissat",
                                   "%s dissatisfaction %r, specification %r" % (v, gd, spec.multi_dissat(k)), where)
                else:
                    chk.obligation(rid, isinstance(gs, list) and spec.multi_a_sat_ok(gs, k, keys), key + "|sat",
                                   "%s satisfaction %r is not `one element per key, last key deepest, exactly "
                                   "k signatures` for keys %r" % (v, gs, keys), where)
                    chk.obligation(rid, gd == spec.multi_a_dissat(n), key + "|dissat",
                                   "%s dissatisfaction %r, specification %r" % (v, gd, spec.multi_a_dissat(n)), where)
                hs = satmodel.has_sig_of(s)
                chk.obligation("R01.4", hs is True, key + "|has_sig",
                               "%s satisfaction has has_sig=%r, must be true" % (v, hs), where)
                if k == 2:
                    chk.sample({"variant": v, "k": k, "sat": repr(gs), "dissat": repr(gd)})
            if good_paths == 0:
                chk.fail(rid, "%s|k=%d|nopath" % (v, k), "no non-panicking path for %s" % v, where)
        # too few signatures -> IMPOSSIBLE (never a partial witness)
        try:
            res, m = satmodel.run_variant(F, v, False, n=n, k=2, assets=False, P=P)
            for conds, r in res:
                s, d = sd_parts(r)
                if s is None:
                    continue
                chk.obligation(rid, satmodel.nf_sat(s) == spec.IMPOSSIBLE, v + "|nosigs",
                               "%s without signatures yields %r, must be IMPOSSIBLE" % (v, satmodel.nf_sat(s)), where)
        except Unsupported as e:
            chk.fail(rid, "%s|nosigs|unanalysable" % v, "unanalysable: %s" % e, where, kind="unanalysable")


def check_has_sig(chk, F, P, rid="R01.4"):
    chk.rule(rid, "has_sig of every template = `the template contains a signature` (leaves) / OR of the "
                  "parts' has_sig (combinators)")
    where = F.fns[P["sat_dissat"]]["span"]
    for v in model.variants(F):
        if v in ("Thresh", "Multi", "SortedMulti", "MultiA", "SortedMultiA"):
            continue
        try:
            res, m = satmodel.run_variant(F, v, True, P=P)
        except Unsupported as e:
            chk.fail(rid, v + "|unanalysable", "unanalysable: %s" % e, where, kind="unanalysable")
            continue
        for conds, r in res:
            s, d = sd_parts(r)
            if s is None:
                continue
            for tag, x in (("sat", s), ("dissat", d)):
                xs = [x]
                if isinstance(x, Term) and x.op in ("minimum", "minimum_mall"):
                    xs = list(x.args)
                for y in xs:
                    hs = satmodel.has_sig_of(y)
                    exp = satmodel.expected_has_sig(y)
                    if hs is None or exp is None:
                        continue
                    if exp is True:
                        good = hs is True
                    else:
                        got = set(map(repr, satmodel.flatten_or(hs)))
                        # hs_D(i) is assumed False (asserted by the code); drop from both sides
                        want = set(repr(t) for t in exp)
                        good = (got - {repr(Term("hs_D", i)) for i in range(3)}) == \
                               (want - {repr(Term("hs_D", i)) for i in range(3)})
                    chk.obligation(rid, good, "%s|%s" % (v, tag),
                                   "has_sig of the %s template of %s is %r but its stack is %r"
                                   % (tag, v, hs, satmodel.nf_sat(y)), where)


# ---- R01.9 Descriptor::satisfy -------------------------------------------------------------------------------------------------

def check_descriptor_satisfy(chk, F):
    from ..builtins import deref
    rid = "R01.9"
    chk.rule(rid, "Descriptor::satisfy stores exactly the witness and scriptSig get_satisfaction (the non-malleable one) "
                  "returned in the TxIn, each in its own field, touches nothing else of it, and leaves it unchanged when no "
                  "satisfaction exists")
    sat = [q for q in F.fns if q.endswith("descriptor::Descriptor::<Pk>::satisfy")]
    gs = [q for q in F.fns if q.endswith("descriptor::Descriptor::<Pk>::get_satisfaction")]
    gsm = [q for q in F.fns if q.endswith("descriptor::Descriptor::<Pk>::get_satisfaction_mall")]
    if len(sat) != 1 or len(gs) != 1 or len(gsm) != 1:
        chk.fail(rid, "anchor", "Descriptor::satisfy / get_satisfaction(_mall) not found", kind="unanalysable")
        return
    chk.saw(sat[0])
    for outcome in ("ok", "err"):
        calls = []
        hooks = {gs[0]: lambda m_, a, c, o=outcome: (calls.append("nonmall"), ok((PyVec(["w0", "w1"]), "SCRIPTSIG")) if o == "ok" else err(Term("CouldNotSatisfy")))[1],
                 gsm[0]: lambda m_, a, c: (calls.append("mall"), ok((PyVec(["m0"]), "MALL-SCRIPTSIG")))[1],
                 "bitcoin::Witness::from_slice": lambda m_, a, c: ("witness-of", [deref(x) for x in deref(a[0]).items])}
        m = Machine(F, strict=True, hooks=hooks)
        txin = Adt("bitcoin::TxIn", "TxIn", {"previous_output": Term("outpoint"), "script_sig": "OLD-SCRIPTSIG", "sequence": Term("seq"),
                                              "witness": "OLD-WITNESS"})
        try:
            r = m.call_callee({"def": sat[0], "resolved": sat[0], "name": "satisfy", "targs": ["PK", "S"]}, [Term("descriptor"), txin, Term("satisfier")])
        except (Unsupported, Panic) as e:
            chk.fail(rid, "unanalysable:" + outcome, "unanalysable: %s" % e, where=getattr(e, "where", ""), kind="unanalysable")
            continue
        f = txin.fields
        same_rest = repr(f["previous_output"]) == repr(Term("outpoint")) and repr(f["sequence"]) == repr(Term("seq"))
        if outcome == "ok":
            good = r.variant == "Ok" and deref(f["witness"]) == ("witness-of", ["w0", "w1"]) and deref(f["script_sig"]) == "SCRIPTSIG" \
                and same_rest and calls == ["nonmall"]
        else:
            good = r.variant == "Err" and deref(f["witness"]) == "OLD-WITNESS" and deref(f["script_sig"]) == "OLD-SCRIPTSIG" and same_rest
        chk.obligation(rid, good, outcome, "satisfy returns %r and leaves the TxIn as %r (satisfier consulted: %r)" % (r, txin, calls),
                       F.fns[sat[0]]["span"])


def run(chk):
    F = chk.facts()
    chk.explanation = (
        "Decides structural necessary conditions, not the behaviour: (R01.1) the (satisfaction, "
        "dissatisfaction) witness template of each of the 30 fragments, extracted symbolically from "
        "Satisfaction::sat_dissat and its helpers with children as opaque witnesses, equals the "
        "specification's canonical template in both modes; (R01.2) multi/multi_a/sorted templates for "
        "k=1..3 of n=3; (R01.4) has_sig bookkeeping; (R01.3) output-type assembly (what is appended after "
        "the miniscript witness, and where) for every descriptor type, direct vs plan vs PSBT.")
    chk.trusted = ["spec/satisfaction.py, spec/outputs.py (transcriptions)", "factgen THIR; msverif.interp"]
    chk.assumptions = ["signature validity, script execution and witness optimisation are not decided",
                       "thresh / multi templates are extracted for n=3 (loops are over n)"]
    try:
        P = satmodel.paths(F)
    except KeyError as e:
        chk.fail("R01.1", "anchors", "missing anchor: %s" % e, kind="unanalysable")
        return
    nv = 0
    for mall in (False, True):
        nv = check_templates(chk, F, P, mall)
        check_thresh(chk, F, P, mall)
    chk.floor("R01.1", "Terminal variants (non n-ary)", nv, 25)
    check_multi(chk, F, P)
    check_has_sig(chk, F, P)
    from . import assembly
    assembly.check_assembly(chk, F, "R01.3")
    # R01.5: what a returned satisfaction reports (stack, absolute lock, relative lock) belongs to one candidate --
    # a lock copied from a discarded branch makes the spend invalid or wrongly delayed (rule shared with C17)
    from . import c17
    from ..report import RuleAlias
    c17.check_provenance(RuleAlias(chk, {"R17.3": "R01.5"}, "every satisfaction the choosers return takes its stack "
                                                            "and both locks from the same candidate"), F, P)
    from . import e2e
    chk.guard("R01.6", "e2e", e2e.check, chk, F, "R01.6", "sound",
              "end to end on a bounded family (~60 scripts x every subset of their keys x preimage sets x locks met or not, both modes): the template the satisfier returns uses only owned assets and its witness makes the specification's script succeed (reference execution) under the locks the template reports")
    # when a PSBT is finalized the locks the satisfier may rely on are answered by PsbtInputSatisfier::check_older /
    # check_after from the transaction: they must be the input's own BIP-68 / BIP-65 conditions, or a witness is returned
    # that OP_CSV / OP_CLTV refuse (rule shared with C14)
    from . import c14
    from ..report import RuleAlias
    # the last steps of a direct satisfaction: the template completed element by element, a failed search reported as such
    from . import c17
    chk.guard("R01.8", "completion-loop", c17.check_completion_loop, chk, F, "R01.8")
    chk.guard("R01.9", "descriptor-satisfy", check_descriptor_satisfy, chk, F)
    # every witness element is produced by Placeholder::satisfy_self: a key in its own serialization, the signature /
    # preimage held for that very key / hash (decision table shared with C17)
    chk.guard("R01.11", "scriptsig-encoding", c17.check_scriptsig_encoding, chk, F, "R01.11")
    chk.guard("R01.10", "placeholder-completion", c17.check_placeholder_completion, chk, F, "R01.10")
    chk.guard("R01.7", "psbt-locks", c14.check_locks, RuleAlias(chk, {"R14.1": "R01.7"}, "the locks a PSBT finalization "
              "relies on are the spent input's own"), F)
    # the lock a satisfaction reports for a path is merged from its parts: reporting the earlier of two locks would make the
    # spend fail with the reported value (table shared with C03 / C02 / C17)
    from . import c03
    chk.guard("R01.12", "lock-merge", c03.check_lock_merge, chk, F, "R01.12")
