"""C20 -- key translation and key iteration preserve structure.

Structural clauses (DESIGN.md C20): each translate arm rebuilds the same variant with payloads through the
namesake translator method, k and child order preserved, nodes re-checked; every key visitor covers every
key-carrying variant (computed from the type definition); the tree-shape functions agree with the arity of the
type definition; wrapper translations go through the translator and the checking constructors."""

from .. import model, symx
from ..interp import Machine, Adt, Term, PyVec, PyIter, FnRef, Panic, explore, ok, err, some, NONE, RESULT, dcopy
from ..report import Unsupported
from . import c19

LEVEL = "other"
T = model.TERMINAL
MS = model.MS


def leaf(key):
    return Adt(MS, "Miniscript", {"node": Adt(T, "PkK", {"0": key}), "ty": Term("ty"), "ext": Term("ext"), "phantom": ()})


def mk_ms(F, variant, n=3, k=2):
    """one-level model miniscript with distinguishable children C0.. and keys K0.."""
    t = c19.mk_term(F, variant, n=n, k=k)
    i = 0
    for name, val in list(t.fields.items()):
        if isinstance(val, Adt) and val.path == MS:
            t.fields[name] = leaf("C%d" % i)
            i += 1
        elif isinstance(val, Adt) and val.path == model.THRESH:
            items = val.fields["inner"].items
            for j, c in enumerate(items):
                if isinstance(c, Adt) and c.path == MS:
                    items[j] = leaf("C%d" % i)
                    i += 1
    return Adt(MS, "Miniscript", {"node": t, "ty": Term("ty_root"), "ext": Term("ext_root"), "phantom": ()})


def keys_of(F, ms, deep=True):
    """multiset (list, in left-to-right order) of keys in a model miniscript"""
    out = []
    node = ms.fields["node"]
    for name, kind in c19.payload_fields(F, node.variant):
        v = node.fields[name]
        if kind == "key":
            out.append(v)
        elif kind == "thresh_keys":
            out.extend(v.fields["inner"].items)
        elif kind == "child" and deep:
            out.extend(keys_of(F, v))
        elif kind == "thresh_nodes" and deep:
            for c in v.fields["inner"].items:
                out.extend(keys_of(F, c))
    return out


def children_of(F, ms):
    node = ms.fields["node"]
    out = []
    for name, kind in c19.payload_fields(F, node.variant):
        v = node.fields[name]
        if kind == "child":
            out.append(v)
        elif kind == "thresh_nodes":
            out.extend(v.fields["inner"].items)
    return out


def tr(x):
    return "T:" + x


def expected_translation(F, node):
    """the same fragment with every key / hash mapped, everything else untouched"""
    fields = {}
    for name, kind in c19.payload_fields(F, node.variant):
        v = node.fields[name]
        if kind == "key":
            fields[name] = tr(v)
        elif kind == "hash":
            fields[name] = tr(v) if node.variant != "RawPkH" else v
        elif kind == "thresh_keys":
            fields[name] = model.threshold(v.fields["k"], [tr(x) for x in v.fields["inner"].items])
        elif kind == "child":
            fields[name] = expected_translation(F, v.fields["node"])
        elif kind == "thresh_nodes":
            fields[name] = model.threshold(v.fields["k"], [expected_translation(F, c.fields["node"])
                                                            for c in v.fields["inner"].items])
        else:
            fields[name] = v
    return Adt(T, node.variant, fields)


def translator_hooks(fail_on=None):
    hooks = {}

    def mk(name):
        def h(m, a, c):
            x = a[1]
            if fail_on is not None and x == fail_on:
                return err("mapping failed")
            return ok(tr(x))
        return h
    for nm in ("pk", "sha256", "hash256", "ripemd160", "hash160"):
        hooks["Translator::" + nm] = mk(nm)
    return hooks


def check_translate(chk, F):
    rid = "R20.1"
    chk.rule(rid, "Miniscript::translate_pk_ctx rebuilds every fragment as the same variant: keys through "
                  "Translator::pk, hashes through their namesake, lock times and raw key hashes copied, threshold k and "
                  "child order preserved, every node re-checked by from_ast; a failing mapping or node check fails the "
                  "translation")
    try:
        tp = F.fn("translate_pk_ctx", file="miniscript/mod.rs")
        from_ast = F.fn("from_ast", file="miniscript/mod.rs")
    except KeyError as e:
        chk.fail(rid, "anchors", "missing %s" % e, kind="unanalysable")
        return
    chk.saw(tp)
    where = F.fns[tp]["span"]
    checked = []

    def from_ast_hook(m, a, c):
        checked.append(a[0].variant)
        return ok(Adt(MS, "Miniscript", {"node": a[0], "ty": Term("ty"), "ext": Term("ext"), "phantom": ()}))
    nvar = 0
    for v in model.variants(F):
        nvar += 1
        ms = mk_ms(F, v)
        hooks = translator_hooks()
        hooks[from_ast] = from_ast_hook
        del checked[:]
        m = Machine(F, strict=False, hooks=hooks)
        try:
            r = m.call_path(tp, [ms, Term("t")])
        except (Unsupported, Panic) as e:
            chk.fail(rid, v + "|unanalysable", "unanalysable: %s" % e, where, kind="unanalysable")
            continue
        good = isinstance(r, Adt) and r.variant == "Ok"
        got = c19.strip(r.fields["0"]) if good else r
        want = expected_translation(F, ms.fields["node"])
        chk.obligation(rid, good and got == want, v,
                       "translate_pk of a %s fragment gives %r, expected %r" % (v, got, want), where,
                       detail={"variant": v, "got": repr(got), "want": repr(want)})
        nodes = 1 + len(children_of(F, ms))
        chk.obligation(rid, len(checked) == nodes and checked[-1] == v, v + "|recheck",
                       "translate_pk re-checks %d nodes with from_ast for a %s fragment with %d nodes (checked: %s)"
                       % (len(checked), v, nodes, checked), where)
        # a failing mapping must fail the translation
        ks = keys_of(F, ms, deep=False)
        if ks:
            hooks = translator_hooks(fail_on=ks[-1])
            hooks[from_ast] = from_ast_hook
            m = Machine(F, strict=False, hooks=hooks)
            try:
                r = m.call_path(tp, [ms, Term("t")])
                failed = (isinstance(r, Adt) and r.variant == "Err") or (isinstance(r, Term) and "residual" in r.op)
                chk.obligation(rid, failed, v + "|mapfail",
                               "translate_pk of %s succeeds although the key mapping failed" % v, where)
            except (Unsupported, Panic) as e:
                chk.fail(rid, v + "|mapfail|unanalysable", "unanalysable: %s" % e, where, kind="unanalysable")
        if v in ("AndOr", "Multi", "Thresh"):
            chk.sample({"variant": v, "translated": repr(got)[:200]})
    chk.floor(rid, "Terminal variants", nvar, 30)
    # node check failure is propagated
    ms = mk_ms(F, "AndV")
    hooks = translator_hooks()
    hooks[from_ast] = lambda m, a, c: err(Term("ctxerr"))
    m = Machine(F, strict=False, hooks=hooks)
    try:
        r = m.call_path(tp, [ms, Term("t")])
        failed = (isinstance(r, Adt) and r.variant == "Err") or (isinstance(r, Term) and "residual" in r.op)
        chk.obligation(rid, failed, "recheck-propagates", "translate_pk ignores a failing from_ast", where)
    except (Unsupported, Panic) as e:
        chk.fail(rid, "recheck|unanalysable", "unanalysable: %s" % e, where, kind="unanalysable")


def check_substitute(chk, F):
    rid = "R20.1s"
    chk.rule(rid, "substitute_raw_pkh rebuilds every fragment unchanged except RawPkH -> PkH(mapped key) when the map "
                  "has the hash")
    try:
        sp = F.fn("substitute_raw_pkh", file="miniscript/mod.rs")
    except KeyError as e:
        chk.fail(rid, "anchor", "missing %s" % e, kind="unanalysable")
        return
    chk.saw(sp)
    where = F.fns[sp]["span"]
    for v in model.variants(F):
        ms = mk_ms(F, v)
        for present in (False, True):
            hooks = {"std::collections::BTreeMap::<K, V, A>::get":
                     (lambda m, a, c, present=present: some("MAPPED") if present else NONE)}
            m = Machine(F, strict=False, hooks=hooks)
            try:
                r = m.call_path(sp, [ms, Term("map")])
            except (Unsupported, Panic) as e:
                chk.fail(rid, v + "|unanalysable", "unanalysable: %s" % e, where, kind="unanalysable")
                break
            want = c19.strip(ms.fields["node"])
            if v == "RawPkH" and present:
                want = Adt(T, "PkH", {"0": "MAPPED"})
            got = c19.strip(r.fields["node"]) if isinstance(r, Adt) and r.path == MS else r
            chk.obligation(rid, got == want, "%s|%s" % (v, present),
                           "substitute_raw_pkh on %s (hash in map: %s) gives %r, expected %r" % (v, present, got, want), where)


def check_visitors(chk, F):
    rid = "R20.3"
    chk.rule(rid, "key visitors (for_each_key, iter_pk / get_nth_pk) visit exactly the keys of every key-carrying "
                  "variant (set computed from the type definition), in order, and stop when the predicate fails")
    kc = model.key_carrying(F)
    chk.obligation(rid, sorted(kc) == sorted(["PkK", "PkH", "Multi", "SortedMulti", "MultiA", "SortedMultiA"]),
                   "key-carrying", "key-carrying Terminal variants are %s; the visitors and this rule were written for "
                   "PkK, PkH, Multi, SortedMulti, MultiA, SortedMultiA" % sorted(kc), F.adts[T]["span"])
    try:
        fek = [it["path"] for i in F.impls if (i["trait"] or "").endswith("ForEachKey") and i["self_adt"] == MS
               for it in i["items"] if it["name"] == "for_each_key"][0]
        iter_pk = F.fn("iter_pk", file="miniscript/iter.rs")
        nth_pk = F.fn("get_nth_pk", file="miniscript/iter.rs")
    except (KeyError, IndexError) as e:
        chk.fail(rid, "anchors", "missing %s" % e, kind="unanalysable")
        return
    chk.saw(fek, iter_pk, nth_pk)
    for v in model.variants(F):
        ms = mk_ms(F, v)
        want = keys_of(F, ms)
        seen = []

        def pred(m, a, c, seen=seen):
            seen.append(a[0])
            return True
        m = Machine(F, strict=False, hooks={"__pred__": pred})
        try:
            r = m.call_path(fek, [ms, FnRef({"def": "__pred__"})])
            chk.obligation(rid, r is True and sorted(seen) == sorted(want), "for_each_key|" + v,
                           "for_each_key on a %s fragment visits %s, the fragment contains %s" % (v, seen, want),
                           F.fns[fek]["span"], detail={"variant": v, "visited": seen, "keys": want})
            if want:
                stop = want[-1]
                m = Machine(F, strict=False, hooks={"__pred__": lambda mm, a, c, stop=stop: a[0] != stop})
                r = m.call_path(fek, [ms, FnRef({"def": "__pred__"})])
                chk.obligation(rid, r is False, "for_each_key|%s|stop" % v,
                               "for_each_key returns %r although the predicate rejected key %s" % (r, stop), F.fns[fek]["span"])
        except (Unsupported, Panic) as e:
            chk.fail(rid, "for_each_key|%s|unanalysable" % v, "unanalysable: %s" % e, kind="unanalysable")
        # iter_pk
        m = Machine(F, strict=False)
        try:
            it = m.call_path(iter_pk, [ms])
            from .. import builtins
            builtins._CUR_MACHINE[0] = m
            got = builtins.items_of(it)
            chk.obligation(rid, list(got) == want, "iter_pk|" + v,
                           "iter_pk on a %s fragment yields %s, the fragment contains %s" % (v, got, want),
                           F.fns[iter_pk]["span"])
            own = keys_of(F, ms, deep=False)
            gots = []
            for i in range(len(own) + 1):
                r = m.call_path(nth_pk, [ms, i])
                gots.append(r.fields["0"] if r.variant == "Some" else None)
            chk.obligation(rid, gots == own + [None], "get_nth_pk|" + v,
                           "get_nth_pk on %s yields %s, expected %s then None" % (v, gots, own), F.fns[nth_pk]["span"])
        except (Unsupported, Panic) as e:
            chk.fail(rid, "iter_pk|%s|unanalysable" % v, "unanalysable: %s" % e, kind="unanalysable")


def check_tree_shape(chk, F):
    rid = "R20.4"
    chk.rule(rid, "tree-shape agreement: every TreeLike::as_node impl over Miniscript / Terminal, branches() and "
                  "get_nth_child() return the children of every variant in type-definition order (arity computed from "
                  "the ADT)")
    from .. import builtins
    impls = [i for i in F.impls if i["trait"] == "iter::tree::TreeLike"
             and ("Miniscript<" in i["self_ty"] or "Terminal<" in i["self_ty"]) and "DisplayNode" not in i["self_ty"]]
    chk.floor(rid, "TreeLike impls over Miniscript/Terminal", len(impls), 3)
    try:
        branches = F.fn("branches", file="miniscript/iter.rs")
        nth = F.fn("get_nth_child", file="miniscript/iter.rs")
    except KeyError as e:
        chk.fail(rid, "anchors", "missing %s" % e, kind="unanalysable")
        return
    for v in model.variants(F):
        ms = mk_ms(F, v)
        want = [c19.strip(c.fields["node"]) for c in children_of(F, ms)]
        for imp in impls:
            table = {it["name"]: it["path"] for it in imp["items"]}
            m = Machine(F, strict=False)
            builtins._CUR_MACHINE[0] = m
            recv = ms if "Miniscript<" in imp["self_ty"] else ms.fields["node"]
            try:
                ch = builtins.tree_children(m, recv, table)
                got = [c19.strip(c.fields["node"]) if isinstance(c, Adt) and c.path == MS else c19.strip(c) for c in ch]
                chk.obligation(rid, got == want, "as_node|%s|%s" % (imp["self_ty"].split("::")[-1][:24], v),
                               "TreeLike::as_node for %s on a %s fragment yields children %r, the type has %r"
                               % (imp["self_ty"], v, got, want), imp["span"])
            except (Unsupported, Panic) as e:
                chk.fail(rid, "as_node|%s|unanalysable" % v, "unanalysable: %s" % e, imp["span"], kind="unanalysable")
        m = Machine(F, strict=False)
        try:
            r = m.call_path(branches, [ms])
            got = [c19.strip(c.fields["node"]) for c in r.items]
            chk.obligation(rid, got == want, "branches|" + v, "branches() of %s yields %r, expected %r" % (v, got, want),
                           F.fns[branches]["span"])
            gots = []
            for i in range(len(want) + 1):
                r = m.call_path(nth, [ms, i])
                gots.append(c19.strip(r.fields["0"].fields["node"]) if r.variant == "Some" else None)
            chk.obligation(rid, gots == want + [None], "get_nth_child|" + v,
                           "get_nth_child of %s yields %r, expected %r then None" % (v, gots, want), F.fns[nth]["span"])
        except (Unsupported, Panic) as e:
            chk.fail(rid, "branches|%s|unanalysable" % v, "unanalysable: %s" % e, kind="unanalysable")


def policy_model(adt, v, weights=(1, 2, 3)):
    fields = {}
    for fd in v["fields"]:
        ty = fd["ty"]
        if ty == "Pk":
            fields[fd["name"]] = "K0"
        elif "LockTime" in ty:
            fields[fd["name"]] = c19.abslock(500) if "Abs" in ty else c19.rellock(5)
        elif ty.startswith("primitives::threshold::Threshold"):
            fields[fd["name"]] = model.threshold(2, [Adt(adt, "Key", {"0": "C%d" % i}) for i in range(3)])
        elif ty.startswith("std::vec::Vec<(usize"):
            fields[fd["name"]] = PyVec([(w, Adt(adt, "Key", {"0": "C%d" % i})) for i, w in enumerate(weights)])
        elif ty.startswith("std::vec::Vec<"):
            fields[fd["name"]] = PyVec([Adt(adt, "Key", {"0": "C%d" % i}) for i in range(2)])
        else:
            fields[fd["name"]] = "H0"
    return Adt(adt, v["name"], fields)


def expected_policy(x):
    if isinstance(x, Adt) and "policy::" in x.path:
        f = {}
        for k, val in x.fields.items():
            if isinstance(val, str):
                f[k] = tr(val)
            else:
                f[k] = expected_policy(val)
        return Adt(x.path, x.variant, f)
    if isinstance(x, Adt) and x.path == model.THRESH:
        return model.threshold(x.fields["k"], [expected_policy(i) for i in x.fields["inner"].items])
    if isinstance(x, PyVec):
        return PyVec([expected_policy(i) for i in x.items])
    if isinstance(x, tuple):
        return tuple(expected_policy(i) if not isinstance(i, int) else i for i in x)
    return x


def check_policy_translate(chk, F):
    rid = "R20.1p"
    chk.rule(rid, "Concrete / Semantic policy translate_pk and for_each_key: same variant, keys and hashes mapped, "
                  "weights, k and child order preserved; every key visited")
    for adt, file in (("policy::concrete::Policy", "policy/concrete.rs"), ("policy::semantic::Policy", "policy/semantic.rs")):
        try:
            tp = F.fn("translate_pk", file=file, container="Policy")
            fek = [it["path"] for i in F.impls if (i["trait"] or "").endswith("ForEachKey") and i["self_adt"] == adt
                   for it in i["items"] if it["name"] == "for_each_key"][0]
        except (KeyError, IndexError) as e:
            chk.fail(rid, adt + "|anchors", "missing %s" % e, kind="unanalysable")
            continue
        chk.saw(tp, fek)
        for v in F.adts[adt]["variants"]:
            pol = policy_model(adt, v)
            m = Machine(F, strict=False, hooks=translator_hooks())
            try:
                r = m.call_path(tp, [pol, Term("t")])
                good = isinstance(r, Adt) and r.variant == "Ok"
                got = r.fields["0"] if good else r
                want = expected_policy(pol)
                chk.obligation(rid, good and got == want, "%s|translate|%s" % (adt, v["name"]),
                               "%s::translate_pk of %s gives %r, expected %r" % (adt, v["name"], got, want),
                               F.fns[tp]["span"], detail={"got": repr(got), "want": repr(want)})
            except (Unsupported, Panic) as e:
                chk.fail(rid, "%s|translate|%s|unanalysable" % (adt, v["name"]), "unanalysable: %s" % e, kind="unanalysable")
            seen = []
            m = Machine(F, strict=False, hooks={"__pred__": lambda mm, a, c, seen=seen: seen.append(a[0]) or True})
            try:
                r = m.call_path(fek, [pol, FnRef({"def": "__pred__"})])
                want = policy_keys(pol)
                chk.obligation(rid, r is True and sorted(seen) == sorted(want), "%s|for_each_key|%s" % (adt, v["name"]),
                               "%s::for_each_key on %s visits %s, the policy contains %s" % (adt, v["name"], seen, want),
                               F.fns[fek]["span"])
            except (Unsupported, Panic) as e:
                chk.fail(rid, "%s|for_each_key|%s|unanalysable" % (adt, v["name"]), "unanalysable: %s" % e, kind="unanalysable")


def policy_keys(x):
    out = []
    if isinstance(x, Adt) and "policy::" in x.path:
        if x.variant == "Key":
            out.append(x.fields["0"])
        for val in x.fields.values():
            if not isinstance(val, str):
                out.extend(policy_keys(val))
    elif isinstance(x, Adt) and x.path == model.THRESH:
        for i in x.fields["inner"].items:
            out.extend(policy_keys(i))
    elif isinstance(x, PyVec):
        for i in x.items:
            out.extend(policy_keys(i))
    elif isinstance(x, tuple):
        for i in x:
            out.extend(policy_keys(i))
    return out


def check_wrappers(chk, F):
    rid = "R20.2"
    chk.rule(rid, "descriptor wrappers: translate_pk maps the key through Translator::pk / the inner script through "
                  "its translate_pk and rebuilds through the checking constructor; for_each_key of every Descriptor "
                  "variant (incl. the taproot internal key) delegates to / visits its keys; Descriptor dispatch is uniform")
    # dispatch uniformity of Descriptor::{translate_pk, for_each_key}
    D = "descriptor::Descriptor"
    for name in ("translate_pk", "for_each_key"):
        cands = [p for p, f in F.fns.items() if f.get("name") == name and D + "<" in (f.get("container") or "") + p
                 and f["span"].startswith("src/descriptor/mod.rs")]
        if not cands:
            chk.fail(rid, "Descriptor::%s|anchor" % name, "not found", kind="unanalysable")
            continue
        p = cands[0]
        chk.saw(p)
        ms_ = symx.find_matches_on(F.thir(p)["body"], D, min_arms=4)
        if not ms_:
            chk.fail(rid, "Descriptor::%s|match" % name, "no dispatch match over Descriptor found", F.fns[p]["span"],
                     kind="unanalysable")
            continue
        arms = ms_[0]["arms"]
        seenv = set()
        for a in arms:
            vs = symx.pat_variants(a["pat"], D) or set()
            seenv |= vs
            calls = [c for c in symx.find_nodes(a["body"], lambda n: n.get("k") == "call" and "callee" in n)
                     if c["callee"].get("name") == name]
            chk.obligation(rid, len(calls) >= 1, "Descriptor::%s|%s" % (name, "+".join(sorted(vs))),
                           "Descriptor::%s arm for %s does not call the wrapper's %s" % (name, sorted(vs), name), a.get("sp", ""))
        chk.obligation(rid, seenv == set(F.variants(D)), "Descriptor::%s|coverage" % name,
                       "Descriptor::%s handles variants %s of %s" % (name, sorted(seenv), sorted(F.variants(D))), F.fns[p]["span"])
    # Tr::for_each_key includes the internal key
    try:
        p = [it["path"] for i in F.impls if (i["trait"] or "").endswith("ForEachKey") and i["self_adt"] == "descriptor::tr::Tr"
             for it in i["items"] if it["name"] == "for_each_key"][0]
        body = F.thir(p)["body"]
        uses = [n for n in symx.find_nodes(body, lambda n: n.get("k") == "field" and n["name"] == "internal_key")]
        leaves = [c for c in symx.callsites(F, p) if c["name"] in ("leaves", "for_each_key")]
        chk.obligation(rid, bool(uses) and bool(leaves), "Tr::for_each_key",
                       "Tr::for_each_key must visit the internal key and every leaf's keys", F.fns[p]["span"])
    except IndexError:
        chk.fail(rid, "Tr::for_each_key|anchor", "not found", kind="unanalysable")
    # single-key wrappers translate through t.pk and the checking constructor
    for adt, file in (("Pkh", "descriptor/bare.rs"), ("Wpkh", "descriptor/segwitv0.rs")):
        try:
            p = F.fn("translate_pk", file=file, container="::" + adt)
        except KeyError as e:
            chk.fail(rid, adt + "|anchor", "missing %s" % e, kind="unanalysable")
            continue
        names = [c["name"] for c in symx.callsites(F, p)]
        chk.obligation(rid, "pk" in names and "new" in names, adt + "::translate_pk",
                       "%s::translate_pk must map the key with Translator::pk and rebuild with %s::new (calls: %s)"
                       % (adt, adt, names), F.fns[p]["span"])


# ---- R20.7 wrapper translations: outcome table -----------------------------------------------------------------------

def check_wrapper_outcomes(chk, F):
    from ..builtins import deref
    rid = "R20.7"
    chk.rule(rid, "descriptor wrappers (Bare, Pkh, Wpkh, Wsh, Sh over its three inner forms, Tr without / with a tree): "
                  "translate_pk succeeds exactly when every key mapping and every inner translation succeeds and the "
                  "checking constructor accepts the result, then it is that constructor's value over the mapped payloads "
                  "(all leaves kept, in order, at their depths); a failing key mapping or inner translation is returned as "
                  "that very error, a refusing constructor as TranslateErr::OuterError (outcome table, every position of "
                  "the failure)")
    TAPTREE = "descriptor::tr::taptree::TapTree"
    TE = "TranslateErr"

    def msv(name):
        return Adt(MS, "Miniscript", {"node": Term("node", name), "ty": Term("ty"), "ext": Term("ext"), "phantom": (), "name": name})

    def wrap(kind):
        """(wrapper value, its translate_pk path, description of payload) for each wrapper form"""
        D = "descriptor::"
        if kind == "Bare":
            return Adt(D + "bare::Bare", "Bare", {"ms": msv("m0")}), "bare.rs", "::Bare"
        if kind == "Pkh":
            return Adt(D + "bare::Pkh", "Pkh", {"pk": "K0"}), "bare.rs", "::Pkh"
        if kind == "Wpkh":
            return Adt(D + "segwitv0::Wpkh", "Wpkh", {"pk": "K0"}), "segwitv0.rs", "::Wpkh"
        if kind == "Wsh":
            return Adt(D + "segwitv0::Wsh", "Wsh", {"ms": msv("m0")}), "segwitv0.rs", "::Wsh"
        if kind.startswith("Sh/"):
            inner = {"Sh/Wsh": Adt(D + "sh::ShInner", "Wsh", {"0": wrap("Wsh")[0]}),
                     "Sh/Wpkh": Adt(D + "sh::ShInner", "Wpkh", {"0": wrap("Wpkh")[0]}),
                     "Sh/Ms": Adt(D + "sh::ShInner", "Ms", {"0": msv("m0")})}[kind]
            return Adt(D + "sh::Sh", "Sh", {"inner": inner}), "sh.rs", "::Sh"
        if kind == "Tr/-":
            return Adt(D + "tr::Tr", "Tr", {"internal_key": "K0", "tree": NONE, "spend_info": Term("cache")}), "tr/mod.rs", "::Tr"
        tree = Adt(TAPTREE, "TapTree", {"depths_leaves": PyVec([(1, msv("m0")), (2, msv("m1")), (2, msv("m2"))])})
        return Adt(D + "tr::Tr", "Tr", {"internal_key": "K0", "tree": some(tree), "spend_info": Term("cache")}), "tr/mod.rs", "::Tr"

    def units(kind):
        """the things that can fail, in evaluation order does not matter: names of keys and scripts in the wrapper"""
        return {"Bare": ["m0"], "Pkh": ["K0"], "Wpkh": ["K0"], "Wsh": ["m0"], "Sh/Wsh": ["m0"], "Sh/Wpkh": ["K0"],
                "Sh/Ms": ["m0"], "Tr/-": ["K0"], "Tr/tree": ["m0", "m1", "m2", "K0"]}[kind]
    ctor_of = {"Bare": ["Bare"], "Pkh": ["Pkh"], "Wpkh": ["Wpkh"], "Wsh": ["Wsh"], "Sh/Wsh": ["Wsh"], "Sh/Wpkh": ["Wpkh"],
               "Sh/Ms": ["Sh"], "Tr/-": ["Tr"], "Tr/tree": ["Tr"]}
    mtp = [q for q in F.fns if q.endswith("::translate_pk") and "Miniscript<Pk, Ctx>" in q]
    ctors = {}
    for nm, file, cont in (("Bare", "descriptor/bare.rs", "::Bare"), ("Pkh", "descriptor/bare.rs", "::Pkh"),
                           ("Wpkh", "descriptor/segwitv0.rs", "::Wpkh"), ("Wsh", "descriptor/segwitv0.rs", "::Wsh"),
                           ("Sh", "descriptor/sh.rs", "::Sh"), ("Tr", "descriptor/tr/mod.rs", "::Tr")):
        try:
            ctors[nm] = F.fn("new", file=file, container=cont)
        except KeyError as e:
            chk.fail(rid, "anchor|%s::new" % nm, "missing %s" % e, kind="unanalysable")
            return
    if not mtp:
        chk.fail(rid, "anchor|Miniscript::translate_pk", "not found", kind="unanalysable")
        return
    n = 0
    for kind in ("Bare", "Pkh", "Wpkh", "Wsh", "Sh/Wsh", "Sh/Wpkh", "Sh/Ms", "Tr/-", "Tr/tree"):
        w, file, cont = wrap(kind)
        try:
            tp = F.fn("translate_pk", file="descriptor/" + file, container=cont)
        except KeyError as e:
            chk.fail(rid, kind + "|anchor", "missing %s" % e, kind="unanalysable")
            continue
        chk.saw(tp)
        where = F.fns[tp]["span"]
        scenarios = [("all-ok", None, None)]
        for u in units(kind):
            scenarios.append(("%s-mapping-fails" % u, u, "terr"))
            if u.startswith("m"):
                scenarios.append(("%s-illegal-in-context" % u, u, "oerr"))
        scenarios.append(("constructor-refuses", "ctor", "ctor"))
        for sname, unit, how in scenarios:
            hooks = {}

            def ms_translate(m_, a, c, unit=unit, how=how):
                x = deref(a[0])
                nm = x.fields["name"]
                if nm == unit:
                    return err(Adt(TE, "TranslatorErr", {"0": "E:" + nm})) if how == "terr" else \
                        err(Adt(TE, "OuterError", {"0": "ctx:" + nm}))
                return ok(msv("T:" + nm))
            for q in mtp:
                hooks[q] = ms_translate

            def pk(m_, a, c, unit=unit):
                k = deref(a[1])
                return err("E:" + k) if k == unit else ok("T:" + k)
            hooks["Translator::pk"] = pk

            def ctor(name, unit=unit):
                def f(m_, a, c):
                    if unit == "ctor":
                        return err(Term("refused", name))
                    return ok(("built", name) + tuple(deref(x) for x in a))
                return f
            for nm, path in ctors.items():
                hooks[path] = ctor(nm)
            hooks["<TranslateErr<E> as std::convert::From<E>>::from"] = lambda m_, a, c: Adt(TE, "TranslatorErr", {"0": deref(a[0])})
            m = Machine(F, strict=True, hooks=hooks)
            key = "%s|%s" % (kind, sname)
            n += 1
            try:
                r = m.call_callee({"def": tp, "resolved": tp, "name": "translate_pk", "targs": ["PK", "T"]}, [dcopy(w), Term("t")])
            except Unsupported as e:
                chk.fail(rid, "unanalysable:" + key, "unanalysable: %s" % e, where=e.where, kind="unanalysable")
                break
            except Panic as e:
                chk.fail(rid, key, "panic: %s" % e, where)
                continue
            got = summary(r)
            if unit is None:
                want = built_value(kind)
            elif unit == "ctor":
                want = ("Err", "OuterError")
            elif how == "terr":
                want = ("Err", "TranslatorErr", "E:" + unit)
            else:
                want = ("Err", "OuterError", "ctx:" + unit)
            good = got[:len(want)] == want if want[0] == "Err" else got == want
            chk.obligation(rid, good, key, "translate_pk of %s with %s gives %r, expected %r" % (kind, sname, got, want), where)
    chk.floor(rid, "wrapper x outcome cases", n, 35)


def summary(r):
    """comparable reading of a translate_pk result"""
    from ..builtins import deref
    r = deref(r)
    if r.variant == "Err":
        e = deref(r.fields["0"])
        if isinstance(e, Adt):
            return ("Err", e.variant, deref(e.fields.get("0")))
        # the raw mapping error: `?` wraps it with From<E> for TranslateErr<E> (type-directed, the only impl that fits)
        return ("Err", "TranslatorErr", e)
    return ("Ok", plain(r.fields["0"]))


def plain(v):
    from ..builtins import deref
    v = deref(v)
    if isinstance(v, tuple):
        return tuple(plain(x) for x in v)
    if isinstance(v, PyVec):
        return [plain(x) for x in v.items]
    if isinstance(v, Adt):
        if v.path == MS:
            return "ms:" + v.fields["name"]
        if v.path.endswith("Option"):
            return None if v.variant == "None" else plain(v.fields["0"])
        if v.path.endswith("TapTree"):
            return ("tree", plain(v.fields["depths_leaves"]))
        return (v.variant,) + tuple(plain(x) for x in v.fields.values())
    return v


def built_value(kind):
    tree = ("tree", [(1, "ms:T:m0"), (2, "ms:T:m1"), (2, "ms:T:m2")])
    return ("Ok", {"Bare": ("built", "Bare", "ms:T:m0"), "Pkh": ("built", "Pkh", "T:K0"), "Wpkh": ("built", "Wpkh", "T:K0"),
                   "Wsh": ("built", "Wsh", "ms:T:m0"), "Sh/Wsh": ("Sh", ("Wsh", ("built", "Wsh", "ms:T:m0"))),
                   "Sh/Wpkh": ("Sh", ("Wpkh", ("built", "Wpkh", "T:K0"))), "Sh/Ms": ("built", "Sh", "ms:T:m0"),
                   "Tr/-": ("built", "Tr", "T:K0", None), "Tr/tree": ("built", "Tr", "T:K0", tree)}[kind])


# ---- R20.10 the generic tree iterators behind every translation / visit / comparison ---------------------------------------

def check_tree_iterators(chk, F):
    from .. import builtins as B
    from . import c18
    rid = "R20.10"
    chk.rule(rid, "the generic iterators of iter/tree.rs, evaluated from their source (TreeLike::post_order_iter / "
                  "rtl_post_order_iter / pre_order_iter and their Iterator::next), yield on policy trees and on every miniscript "
                  "fragment exactly: post-order - every node after its children, left to right, with its index and its "
                  "children's indices; right-to-left post-order - the same with children visited right to left; pre-order - every "
                  "node before its children; (the analyser's own models of these iterators, used by the other rules, are compared "
                  "with the source on the same trees)")
    names = {"post": "iter::tree::TreeLike::post_order_iter", "rtl": "iter::tree::TreeLike::rtl_post_order_iter",
             "pre": "iter::tree::TreeLike::pre_order_iter"}
    nxt = {"post": "<iter::tree::PostOrderIter<T> as std::iter::Iterator>::next",
           "rtl": "<iter::tree::RtlPostOrderIter<T> as std::iter::Iterator>::next",
           "pre": "<iter::tree::PreOrderIter<T> as std::iter::Iterator>::next"}
    for q in list(names.values()) + list(nxt.values()):
        if q not in F.bodies:
            chk.fail(rid, "anchor|" + q, "%s not found" % q, kind="unanalysable")
            return
    chk.saw(*(list(names.values()) + list(nxt.values())))
    m = Machine(F, strict=True)
    # the built-in models of these functions are bypassed: their bodies in src/iter/tree.rs are evaluated
    m.from_source = set(names.values()) | {"iter::tree::TreeLike::n_children", "iter::tree::TreeLike::nth_child"}
    A, Bk, C = ("key", "A"), ("key", "B"), ("key", "C")
    O5 = ("older", 5)
    pols = [A, ("thresh", 1, [A]), ("thresh", 2, [A, Bk]), ("thresh", 2, [A, Bk, C]), ("thresh", 2, [A, ("thresh", 1, [Bk, C]), O5]),
            ("thresh", 1, [("thresh", 2, [A, Bk]), ("thresh", 2, [C, O5])]),
            ("thresh", 2, [("thresh", 1, [("thresh", 2, [A, Bk]), C]), O5, ("thresh", 3, [A, Bk, C])]),
            ("thresh", 1, [("thresh", 1, [("thresh", 1, [("thresh", 1, [A])])])])]
    trees = [("semantic:" + repr(p_)[:50], c18.to_lib(F, p_)) for p_ in pols]
    trees += [("concrete:" + repr(p_)[:50], c18.to_lib(F, p_, c18.CP)) for p_ in pols[:6]]
    trees += [("concrete:and/or", c18.to_lib(F, ("and", [("or", [A, Bk]), ("and", [C, O5])]), c18.CP))]
    for v in model.variants(F):
        trees.append(("miniscript:" + v, mk_ms(F, v)))

    def ident(node):
        return repr(B.deref(node))

    def item(i):
        return (ident(i.fields["node"]), i.fields["index"], list(i.fields["child_indices"].items))

    def spec(root, impl):
        """(post, rtl, pre) orders by the definition, children through the type's own as_node"""
        post, rtl, pre = [], [], []

        def go(node, out, reverse):
            ch = B.tree_children(m, node, impl)
            idx = [go(x, out, reverse) for x in (reversed(ch) if reverse else ch)]
            # child indices are reported in left-to-right child order in both directions
            out.append((ident(node), len(out), list(reversed(idx)) if reverse else idx))
            return len(out) - 1

        def gopre(node):
            pre.append(ident(node))
            for x in B.tree_children(m, node, impl):
                gopre(x)
        go(root, post, False)
        go(root, rtl, True)
        gopre(root)
        return post, rtl, pre
    n = 0
    for key, root in trees:
        try:
            node = B.deref(root)
            imps = [i for i in F.impls if i["trait"] == "iter::tree::TreeLike" and i["self_adt"] == node.path]
            refs = [i for i in imps if (i.get("self_ty") or "").startswith("&")] or imps
            if not refs:
                raise Unsupported("no TreeLike impl for %s" % node.path)
            st = refs[0]["self_ty"]
            impl = {it["name"]: it["path"] for it in refs[0]["items"]}
            post, rtl, pre = spec(root, impl)
            bad = []
            for kind, want in (("post", post), ("rtl", rtl), ("pre", pre)):
                it = m.call_path(names[kind], [root], {"def": names[kind], "targs": [st]})
                got = []
                for _ in range(len(want) + 3):
                    r = m.call_path(nxt[kind], [it], {"def": nxt[kind], "targs": [st]})
                    if r.variant == "None":
                        break
                    x = B.deref(r.fields["0"])
                    got.append(ident(x) if kind == "pre" else item(x))
                if got != want:
                    first = next((j for j, (g_, w_) in enumerate(zip(got, want)) if g_ != w_), min(len(got), len(want)))
                    bad.append("%s-order from the source differs from the definition at item %d (%d vs %d items)"
                               % (kind, first, len(got), len(want)))
                # the analyser's model
                if kind == "post":
                    mod = [item(i) for i in B._post_order(m, root)]
                elif kind == "rtl":
                    mod = [item(i) for i in B._post_order(m, root, rtl=True)]
                else:
                    mod = [ident(x) for x in B._pre_order_iter(m, [root], {}).items]
                if mod != want:
                    bad.append("the analyser's %s-order model differs from the definition" % kind)
            n += 1
            chk.obligation(rid, not bad, key, "; ".join(bad), where="src/iter/tree.rs")
        except Unsupported as e:
            chk.fail(rid, "unanalysable:" + key, "unanalysable: %s" % e, where=e.where, kind="unanalysable")
        except Panic as e:
            chk.fail(rid, key, "panic: %s" % e, where="src/iter/tree.rs")
    chk.floor(rid, "trees", n, 40)


# ---- R20.11 the Threshold combinators translations are built from -----------------------------------------------------------------

def check_threshold_combinators(chk, F):
    import itertools
    from .. import builtins as B
    rid = "R20.11"
    chk.rule(rid, "Threshold::{map, map_ref, translate, translate_ref, translate_by_index, map_from_post_order_iter, "
                  "forget_maximum, into_data, and_n, or_n} keep k (n / 1 for and_n / or_n), the number of elements and their "
                  "order, apply the function to every element once (by index for translate_by_index, by the given child index "
                  "for map_from_post_order_iter), and a failing element fails the translation with that element's error")
    T = "primitives::threshold::Threshold"
    names = ["map", "map_ref", "translate", "translate_ref", "translate_by_index", "map_from_post_order_iter", "forget_maximum",
             "into_data", "and_n", "or_n"]
    fns = {}
    for nm in names:
        try:
            fns[nm] = F.fn(nm, file="primitives/threshold.rs")
        except KeyError as e:
            chk.fail(rid, "anchor|" + nm, "Threshold::%s not found: %s" % (nm, e), kind="unanalysable")
            return
    chk.saw(*fns.values())
    m = Machine(F, strict=True)
    n = 0

    def th(k, items):
        return Adt(T, "Threshold", {"k": k, "inner": PyVec(list(items))})

    def items_of(v):
        return [B.deref(x) for x in B.deref(v.fields["inner"]).items]
    try:
        for size, k in ((1, 1), (2, 1), (3, 2), (4, 4)):
            elems = ["e%d" % i for i in range(size)]
            for nm in ("map", "map_ref"):
                r = m.call_callee({"def": fns[nm], "resolved": fns[nm], "name": nm, "targs": ["T", "U", "F"], "cargs": ["20"]},
                                  [th(k, elems), lambda x: ("f", B.deref(x))])
                n += 1
                chk.obligation(rid, r.fields["k"] == k and items_of(r) == [("f", e) for e in elems], "%s|n=%d" % (nm, size),
                               "%s gives k=%r %r" % (nm, r.fields["k"], items_of(r)), where="src/primitives/threshold.rs")
            for nm in ("translate", "translate_ref", "translate_by_index"):
                for fail in [None] + list(range(size)):
                    seen = []

                    def f(x, fail=fail, seen=seen, nm=nm):
                        x = B.deref(x)
                        seen.append(x)
                        key_ = x if nm == "translate_by_index" else elems.index(x)
                        return err(("E", key_)) if key_ == fail else ok(("f", x))
                    r = m.call_callee({"def": fns[nm], "resolved": fns[nm], "name": nm, "targs": ["T", "U", "F", "E"], "cargs": ["20"]},
                                      [th(k, elems), f])
                    n += 1
                    src = list(range(size)) if nm == "translate_by_index" else elems
                    if fail is None:
                        good = r.variant == "Ok" and r.fields["0"].fields["k"] == k and items_of(r.fields["0"]) == [("f", e) for e in src] \
                            and seen == src
                    else:
                        good = r.variant == "Err" and B.deref(r.fields["0"]) == ("E", fail)
                    chk.obligation(rid, good, "%s|n=%d|fails=%s" % (nm, size, fail), "%s gives %r after visiting %r" % (nm, r, seen),
                                   where="src/primitives/threshold.rs")
            for perm in itertools.permutations(range(size)):
                idx = [p_ + 1 for p_ in perm]          # indices into a longer vector of processed results
                processed = ["r%d" % i for i in range(size + 2)]
                r = m.call_callee({"def": fns["map_from_post_order_iter"], "resolved": fns["map_from_post_order_iter"], "name": "map_from_post_order_iter",
                                   "targs": ["T", "U"], "cargs": ["20"]}, [th(k, elems), PyVec(list(idx)), PyVec(list(processed))])
                n += 1
                chk.obligation(rid, r.fields["k"] == k and items_of(r) == [processed[i] for i in idx], "map_from_post_order_iter|%s" % (idx,),
                               "map_from_post_order_iter gives k=%r %r" % (r.fields["k"], items_of(r)), where="src/primitives/threshold.rs")
            r = m.call_callee({"def": fns["forget_maximum"], "resolved": fns["forget_maximum"], "name": "forget_maximum", "targs": ["T"], "cargs": ["20"]}, [th(k, elems)])
            n += 1
            chk.obligation(rid, r.fields["k"] == k and items_of(r) == elems, "forget_maximum|n=%d" % size, "forget_maximum gives %r" % (r,),
                           where="src/primitives/threshold.rs")
            r = m.call_callee({"def": fns["into_data"], "resolved": fns["into_data"], "name": "into_data", "targs": ["T"], "cargs": ["20"]}, [th(k, elems)])
            n += 1
            chk.obligation(rid, [B.deref(x) for x in B.deref(r).items] == elems, "into_data|n=%d" % size, "into_data gives %r" % (r,),
                           where="src/primitives/threshold.rs")
            for nm, wk in (("and_n", size), ("or_n", 1)):
                r = m.call_callee({"def": fns[nm], "resolved": fns[nm], "name": nm, "targs": ["T"]}, [PyVec(list(elems))])
                n += 1
                chk.obligation(rid, r.fields["k"] == wk and items_of(r) == elems, "%s|n=%d" % (nm, size), "%s gives %r" % (nm, r),
                               where="src/primitives/threshold.rs")
    except Unsupported as e:
        chk.fail(rid, "unanalysable", "unanalysable: %s" % e, where=e.where, kind="unanalysable")
    except Panic as e:
        chk.fail(rid, "panic", "panic: %s" % e, where="src/primitives/threshold.rs")
    chk.floor(rid, "cases", n, 80)


def run(chk):
    F = chk.facts()
    chk.explanation = (
        "Decides structural clauses: every arm of Miniscript::translate_pk_ctx / substitute_raw_pkh and of the policy "
        "translators rebuilds the same variant with mapped payloads, preserved k / weights / child order and per-node "
        "re-checks (decided by evaluating the functions on one-level model values for all variants); every key visitor "
        "covers every key-carrying variant computed from the type definition; TreeLike::as_node, branches and "
        "get_nth_child agree with the arity and order of the type definition; wrapper translations and Descriptor "
        "dispatch are uniform.")
    chk.trusted = ["factgen THIR; msverif.interp"]
    chk.assumptions = ["identity / composition laws on deep trees follow from per-node structure preservation (not re-proved)",
                       "DescriptorPublicKey-level behaviour (derivation) is not covered"]
    check_translate(chk, F)
    check_substitute(chk, F)
    check_visitors(chk, F)
    check_tree_shape(chk, F)
    check_policy_translate(chk, F)
    check_wrappers(chk, F)
    chk.guard("R20.7", "wrapper-outcomes", check_wrapper_outcomes, chk, F)
    from . import wholedesc
    chk.guard("R20.8", "whole-descriptor-visit", wholedesc.check_visit, chk, F, "R20.8")
    chk.guard("R20.9", "whole-descriptor-translate", wholedesc.check_translate, chk, F, "R20.9")
    chk.guard("R20.10", "tree-iterators", check_tree_iterators, chk, F)
    chk.guard("R20.11", "threshold-combinators", check_threshold_combinators, chk, F)
