"""Whole-descriptor rules shared by C19 and C20: descriptors of every output type are parsed from text by evaluating the
library's parser (keys are their names), then compared / visited / translated by evaluating the library's own
functions; the oracle is the text itself (two canonical texts denote the same descriptor iff they are the same text;
the keys of a descriptor are the key names in its text; translating is substituting names)."""

import itertools
import re

from .. import textmodel as tm, builtins as B
from ..interp import Adt, Term, Panic, ok, err, dcopy
from ..report import Unsupported
from . import c10

KEY_RE = re.compile(r"(?<![A-Za-z0-9_])([A-GI-Z][0-9]?)(?![A-Za-z0-9_(])")   # key names: one capital letter (H is a hash)


def family(tier):
    """canonical descriptor texts, including near-twins that differ in one key, threshold, arity, order, lock or shape"""
    out = list(c10.descriptor_texts("quick"))
    out += ["wsh(multi(1,A,B,C))", "wsh(multi(2,A,B))", "wsh(multi(2,A,C,B))", "wsh(multi(3,A,B,C))", "wsh(multi(2,A,B,D))",
            "sh(multi(2,A,C,B))", "wsh(and_v(v:pk(A),older(8)))", "wsh(and_v(v:pk(B),older(7)))", "wsh(and_v(v:pk(A),after(7)))",
            "wsh(and_v(v:pkh(A),older(7)))", "wsh(and_b(pk(A),s:pk(B)))", "wsh(or_b(pk(A),s:pk(B)))", "wsh(or_d(pk(A),pk(B)))",
            "wsh(or_i(pk(A),pk(B)))", "wsh(or_i(pk(B),pk(A)))", "wsh(thresh(1,pk(A),s:pk(B),sln:older(12)))",
            "wsh(thresh(2,pk(A),s:pk(B),sln:older(13)))", "wsh(thresh(2,pk(A),s:pk(B),s:pk(C)))",
            "wsh(andor(pk(A),pk(B),and_v(v:pk(C),ripemd160(H))))", "wsh(andor(pk(A),pk(B),and_v(v:pk(C),hash256(H))))",
            "tr(A)", "tr(K,pk(A))", "tr(K,{pk(B),pk(A)})", "tr(K,{pk(A),{pk(B),pk(C)}})", "tr(K,{{pk(A),pk(B)},pk(C)})",
            "tr(A,{pk(K),pk(B)})", "tr(K,multi_a(1,A,B,C))", "tr(K,multi_a(2,A,B))", "tr(K,sortedmulti_a(2,A,B))",
            "tr(K,{multi_a(2,A,B,C),pk(D)})", "wpkh(A)", "pkh(A)", "sh(wpkh(A))", "pk(A)", "sh(pk(K))", "wsh(pkh(K))", "sh(wsh(pkh(K)))"]
    seen, res = set(), []
    for t in out:
        if t not in seen:
            seen.add(t)
            res.append(t)
    return res


def keys_of_text(t):
    return KEY_RE.findall(t)


class Harness(object):
    def __init__(self, F):
        self.F = F
        self.m, _ = c10.desc_machine(F)
        self.m.max_depth = 140
        # `impl MiniscriptKey for String` (the trait's defaults), for calls made through an unresolved T::TargetPk
        for nm, v in (("is_x_only_key", False), ("is_uncompressed", False), ("num_der_paths", 0)):
            self.m.hooks["MiniscriptKey::" + nm] = (lambda v_: lambda m_, a, c: v_ if isinstance(B.deref(a[0]), str) else B.NOT_HANDLED)(v)
        self.cache = {}

    def parse(self, t):
        if t not in self.cache:
            r = c10.desc_from_str(self.F, self.m, t)
            if not (isinstance(r, Adt) and r.variant == "Ok"):
                raise ValueError("canonical text %s does not parse: %s" % (t, repr(r)[:200]))
            self.cache[t] = r.fields["0"]
        return self.cache[t]

    def text(self, d):
        out, _ = tm.display(self.m, d, alternate=True)
        return "".join(map(str, out))


def impl_fn(F, trait, name, adt=c10.DESC):
    ps = [it["path"] for i in F.impls if i["self_adt"] == adt and (i["trait"] or "") == trait
          for it in i["items"] if it["name"] == name and it["path"] in F.bodies]
    if len(ps) != 1:
        raise KeyError("impl %s for %s :: %s (%d)" % (trait, adt, name, len(ps)))
    return ps[0]


# ---- equality / order / hash / clone on whole descriptors (C19) -------------------------------------------------------

def check_identity(chk, F, R):
    chk.rule(R, "whole descriptors (every output type, near-twins differing in one key / threshold / arity / key order / lock "
                "/ tree shape / internal key): a == b exactly when their texts are identical; cmp is Equal exactly then, "
                "antisymmetric and transitive on the family; clone() == original; equal descriptors feed the same bytes "
                "to a Hasher")
    H = Harness(F)
    texts = family(chk.tier)
    try:
        eq = impl_fn(F, "std::cmp::PartialEq", "eq")
        cmp_ = impl_fn(F, "std::cmp::Ord", "cmp")
        clone = impl_fn(F, "std::clone::Clone", "clone")
        hash_ = impl_fn(F, "std::hash::Hash", "hash")
    except KeyError as e:
        chk.fail(R, "anchor", "missing %s" % e, kind="unanalysable")
        return
    chk.saw(eq, cmp_, clone, hash_)
    m = H.m
    try:
        ds = [(t, H.parse(t)) for t in texts]
    except (ValueError, Unsupported, Panic) as e:
        chk.fail(R, "family", "%s" % e, kind="unanalysable")
        return
    bad = {"eq": [], "cmp": [], "clone": [], "hash": [], "trans": []}
    order = {}
    n = 0
    try:
        for (ta, a), (tb, b) in itertools.product(ds, ds):
            n += 1
            e = m.call_path(eq, [a, b])
            if bool(e) != (ta == tb):
                bad["eq"].append("%s == %s is %r" % (ta, tb, e))
            c = m.call_path(cmp_, [a, b]).variant
            order[(ta, tb)] = c
            if (c == "Equal") != (ta == tb):
                bad["cmp"].append("cmp(%s, %s) is %s" % (ta, tb, c))
        for (ta, _), (tb, _) in itertools.product(ds, ds):
            want = {"Less": "Greater", "Greater": "Less", "Equal": "Equal"}[order[(ta, tb)]]
            if order[(tb, ta)] != want:
                bad["cmp"].append("cmp(%s, %s) is %s but the reverse is %s" % (ta, tb, order[(ta, tb)], order[(tb, ta)]))
        # transitivity: the relation "Less" must be a strict total order: sort by number of smaller elements
        rank = sorted(texts, key=lambda t: sum(1 for u in texts if order[(u, t)] == "Less"))
        for i, j in itertools.combinations(range(len(rank)), 2):
            if order[(rank[i], rank[j])] != "Less":
                bad["trans"].append("no consistent linear order: %s vs %s is %s" % (rank[i], rank[j], order[(rank[i], rank[j])]))
                break
        streams = {}
        for t, d in ds:
            c = m.call_path(clone, [d])
            if not m.call_path(eq, [c, d]) or H.text(c) != t:
                bad["clone"].append("clone of %s is %s" % (t, H.text(c)))
            from ..interp import PyVec
            r1, r2 = PyVec([]), PyVec([])      # the evaluator's recording hasher
            m.call_callee({"def": hash_, "resolved": hash_, "name": "hash", "targs": [c10.STRING, "HASHER"]}, [d, r1])
            m.call_callee({"def": hash_, "resolved": hash_, "name": "hash", "targs": [c10.STRING, "HASHER"]}, [c, r2])
            if repr(r1.items) != repr(r2.items) or not r1.items:
                bad["hash"].append("%s and its clone feed different / empty streams to the hasher" % t)
            streams.setdefault(repr(r1.items), []).append(t)
        # (distinct descriptors may legitimately collide: only `equal => same stream` is the Hash contract)
        chk.extra[R + "_distinct_hash_streams"] = len(streams)
    except Unsupported as e:
        chk.fail(R, "unanalysable", "unanalysable: %s" % e, where=e.where, kind="unanalysable")
        return
    except Panic as e:
        chk.fail(R, "panic", "panic while comparing descriptors: %s" % e, where="src/descriptor")
        return
    for k, v in bad.items():
        chk.obligation(R, not v, k, "%d case(s); first: %s" % (len(v), v[0] if v else ""), where="src/descriptor/mod.rs",
                       detail=v[:10])
    chk.extra[R + "_pairs"] = n
    chk.floor(R, "descriptor pairs", n, 2500)


# ---- key visiting on whole descriptors (C20) ---------------------------------------------------------------------------

def check_visit(chk, F, R):
    chk.rule(R, "whole descriptors of every output type: for_each_key (predicate always true) and iter_pk visit exactly the "
                "multiset of key names that occur in the descriptor's text; for_each_key reports false when the predicate "
                "refuses a key that occurs")
    H = Harness(F)
    m = H.m
    try:
        fek = [it["path"] for i in F.impls if i["self_adt"] == c10.DESC and (i["trait"] or "").endswith("ForEachKey")
               for it in i["items"] if it["name"] == "for_each_key"][0]
        ipk = [p for p in F.fns if p.endswith("Descriptor::<Pk>::iter_pk")][0]
        nxt = [it["path"] for i in F.impls if (i["self_adt"] or "").endswith("descriptor::iter::PkIter") and i["trait"] == "std::iter::Iterator"
               for it in i["items"] if it["name"] == "next"][0]
    except IndexError:
        chk.fail(R, "anchor", "Descriptor::for_each_key / iter_pk / PkIter::next not found", kind="unanalysable")
        return
    chk.saw(fek, ipk, nxt)
    n = 0
    for t in family(chk.tier):
        want = sorted(keys_of_text(t))
        n += 1
        try:
            d = H.parse(t)
            seen = []

            def pred(k):
                seen.append(B.deref(k))
                return True
            r = m.call_callee({"def": fek, "resolved": fek, "name": "for_each_key", "targs": [c10.STRING, "F"]}, [d, pred])
            bad = []
            if r is not True or sorted(seen) != want:
                bad.append("for_each_key visits %s (result %r), the text has %s" % (sorted(seen), r, want))
            it = m.call_callee({"def": ipk, "resolved": ipk, "name": "iter_pk", "targs": [c10.STRING]}, [d])
            got = []
            for _ in range(len(want) + 3):
                x = m.call_path(nxt, [it])
                if x.variant == "None":
                    break
                got.append(B.deref(x.fields["0"]))
            if sorted(got) != want:
                bad.append("iter_pk yields %s, the text has %s" % (got, want))
            # a refusing predicate: stops at the first refusal
            for stop in sorted(set(want)):
                seen2 = []

                def pred2(k, stop=stop):
                    seen2.append(B.deref(k))
                    return B.deref(k) != stop
                r2 = m.call_callee({"def": fek, "resolved": fek, "name": "for_each_key", "targs": [c10.STRING, "F"]}, [d, pred2])
                if r2 is not False or stop not in seen2:
                    bad.append("for_each_key with a predicate refusing %s returns %r after visiting %s" % (stop, r2, seen2))
            chk.obligation(R, not bad, t, "; ".join(bad[:2])[:600], where="src/descriptor")
        except (ValueError, Unsupported) as e:
            chk.fail(R, "unanalysable:" + t, "unanalysable: %s" % e, where=getattr(e, "where", ""), kind="unanalysable")
            return
        except Panic as e:
            chk.fail(R, t, "panic: %s" % e, where="src/descriptor")
    # taproot trees whose leaves carry zero, one or several keys (a keyless leaf such as `older(n)` only exists in trees
    # built with Tr::new / the insane parser): model trees, the leaves' own iterators stubbed with their key lists
    from . import c15
    from ..interp import PyIter, some, NONE
    m2 = H.m
    leafkeys = {}
    for q in F.fns:
        if q.endswith("::iter_pk") and "Miniscript" in q:
            m2.hooks[q] = lambda m_, a, c: PyIter(list(leafkeys[B.deref(a[0]).fields["leafname"]]))
        if q.endswith("::for_each_key") and "Miniscript" in q:
            def fek_leaf(m_, a, c):
                for k in leafkeys[B.deref(a[0]).fields["leafname"]]:
                    r_ = m_.call_value(a[1], [k])
                    if not r_:
                        return False
                return True
            m2.hooks[q] = fek_leaf
    for text, lk in (("{A,B}", {"A": [], "B": ["X"]}), ("{A,B}", {"A": ["X"], "B": []}), ("{A,{B,C}}", {"A": [], "B": [], "C": ["X", "Y"]}),
                     ("{{A,B},C}", {"A": ["X"], "B": [], "C": ["Y"]}), ("{A,{B,C}}", {"A": [], "B": [], "C": []}),
                     ("A", {"A": []}), ("{A,{B,{C,D}}}", {"A": ["X"], "B": [], "C": [], "D": ["Y", "Z"]})):
        leafkeys.clear()
        leafkeys.update(lk)
        key = "model-tr|%s|%s" % (text, ",".join("%s:%s" % (k, "+".join(v) or "-") for k, v in sorted(lk.items())))
        want = sorted(["K"] + [k for v in lk.values() for k in v])
        n += 1
        try:
            d = Adt(c10.DESC, "Tr", {"0": Adt(c15.TR, "Tr", {"internal_key": "K", "tree": some(c15.mk_tree(text)), "spend_info": Term("cache")})})
            bad = []
            seen = []

            def pred3(k):
                seen.append(B.deref(k))
                return True
            r = m2.call_callee({"def": fek, "resolved": fek, "name": "for_each_key", "targs": [c10.STRING, "F"]}, [d, pred3])
            if r is not True or sorted(seen) != want:
                bad.append("for_each_key visits %s, the descriptor has %s" % (sorted(seen), want))
            it = m2.call_callee({"def": ipk, "resolved": ipk, "name": "iter_pk", "targs": [c10.STRING]}, [d])
            got = []
            for _ in range(len(want) + 3):
                x = m2.call_path(nxt, [it])
                if x.variant == "None":
                    break
                got.append(B.deref(x.fields["0"]))
            if sorted(got) != want:
                bad.append("iter_pk yields %s, the descriptor has %s" % (got, want))
            chk.obligation(R, not bad, key, "; ".join(bad)[:600], where="src/descriptor/iter.rs")
        except Unsupported as e:
            chk.fail(R, "unanalysable:" + key, "unanalysable: %s" % e, where=getattr(e, "where", ""), kind="unanalysable")
        except Panic as e:
            chk.fail(R, key, "panic: %s" % e, where="src/descriptor/iter.rs")
    chk.floor(R, "descriptors", n, 65)


# ---- translation of whole descriptors (C20) ----------------------------------------------------------------------------

def subst(t, f):
    return KEY_RE.sub(lambda mo: f(mo.group(1)), t)


def check_translate(chk, F, R):
    chk.rule(R, "whole descriptors of every output type under a key mapping evaluated through Descriptor::translate_pk: the "
                "identity mapping yields an equal descriptor; an injective renaming yields the descriptor whose text is the "
                "original text with the names substituted (same structure, thresholds, locks, hashes, tree shape); "
                "translating twice equals translating by the composed mapping; a mapping that fails on one key makes the "
                "translation fail with that error, for every key position")
    H = Harness(F)
    m = H.m
    try:
        tp = [p for p in F.fns if p.endswith("Descriptor::<Pk>::translate_pk")][0]
        eq = impl_fn(F, "std::cmp::PartialEq", "eq")
    except (IndexError, KeyError):
        chk.fail(R, "anchor", "Descriptor::translate_pk not found", kind="unanalysable")
        return
    chk.saw(tp)

    def translate(d, f, fail_on=None):
        def pk(m_, a, c):
            k = B.deref(a[1])
            if k == fail_on:
                return err("E:" + k)
            return ok(f(k))
        m.hooks["Translator::pk"] = pk
        for nm in ("sha256", "hash256", "ripemd160", "hash160"):
            m.hooks["Translator::" + nm] = lambda m_, a, c: ok(B.deref(a[1]))
        return m.call_callee({"def": tp, "resolved": tp, "name": "translate_pk", "targs": [c10.STRING, "T"]}, [d, Term("t")])
    ren = lambda k: {"A": "M", "B": "N", "C": "P", "D": "Q", "K": "R"}.get(k, k + "1")   # keeps every descriptor valid
    ren2 = lambda k: {"M": "U", "N": "V", "P": "W", "Q": "X", "R": "Y"}.get(k, k + "2")
    n = 0
    for t in family(chk.tier):
        n += 1
        try:
            d = H.parse(t)
            bad = []
            r = translate(d, lambda k: k)
            if r.variant != "Ok" or not m.call_path(eq, [r.fields["0"], d]) or H.text(r.fields["0"]) != t:
                bad.append("the identity mapping gives %s" % (H.text(r.fields["0"]) if r.variant == "Ok" else repr(r)[:120]))
            r1 = translate(d, ren)
            if r1.variant != "Ok" or H.text(r1.fields["0"]) != subst(t, ren):
                bad.append("renaming gives %s, expected %s" % (H.text(r1.fields["0"]) if r1.variant == "Ok" else repr(r1)[:120], subst(t, ren)))
            else:
                r2 = translate(r1.fields["0"], ren2)
                r12 = translate(d, lambda k: ren2(ren(k)))
                if r2.variant != "Ok" or r12.variant != "Ok" or H.text(r2.fields["0"]) != H.text(r12.fields["0"]) or \
                        not m.call_path(eq, [r2.fields["0"], r12.fields["0"]]):
                    bad.append("translating twice differs from translating by the composed mapping")
                # the renamed text parses to the translated descriptor
                if not m.call_path(eq, [H.parse(subst(t, ren)), r1.fields["0"]]):
                    bad.append("the translated descriptor differs from the descriptor parsed from the substituted text")
            for k in sorted(set(keys_of_text(t))):
                rf = translate(d, ren, fail_on=k)
                e = B.deref(rf.fields["0"]) if rf.variant == "Err" else None
                if rf.variant != "Err" or not (isinstance(e, Adt) and e.variant == "TranslatorErr" and B.deref(e.fields["0"]) == "E:" + k):
                    bad.append("a mapping failing on %s gives %s" % (k, repr(rf)[:160]))
            chk.obligation(R, not bad, t, "; ".join(bad[:2])[:700], where="src/descriptor")
        except (ValueError, Unsupported) as e:
            chk.fail(R, "unanalysable:" + t, "unanalysable: %s" % e, where=getattr(e, "where", ""), kind="unanalysable")
            return
        except Panic as e:
            chk.fail(R, t, "panic: %s" % e, where="src/descriptor")
    chk.floor(R, "descriptors", n, 60)


# ---- the output types' own parsers (C10) ---------------------------------------------------------------------------------

WRAPPERS = {"Bare": "descriptor::bare::Bare", "Pkh": "descriptor::bare::Pkh", "Wpkh": "descriptor::segwitv0::Wpkh",
            "Wsh": "descriptor::segwitv0::Wsh", "Sh": "descriptor::sh::Sh", "Tr": "descriptor::tr::Tr"}


def outer_kind(t):
    head = t.split("(")[0]
    return {"pkh": "Pkh", "wpkh": "Wpkh", "wsh": "Wsh", "sh": "Sh", "tr": "Tr"}.get(head, "Bare")


def check_wrapper_parsers(chk, F, R):
    chk.rule(R, "the output types' own FromStr (Bare, Pkh, Wpkh, Wsh, Sh, Tr - public entry points beside Descriptor::from_str): "
                "on whole descriptor texts of every output type, with and without a (right or wrong) checksum, each accepts "
                "exactly the texts of its own type and then gives the very value Descriptor::from_str wraps; to_string of the "
                "result is the text")
    H = Harness(F)
    m = H.m
    fs = {}
    for k, adt in WRAPPERS.items():
        ps = [it["path"] for i in F.impls if i["trait"] == "std::str::FromStr" and i["self_adt"] == adt
              for it in i["items"] if it["name"] == "from_str" and it["path"] in F.bodies]
        if len(ps) != 1:
            chk.fail(R, "anchor|" + k, "FromStr for %s not found" % adt, kind="unanalysable")
            return
        fs[k] = ps[0]
    chk.saw(*fs.values())
    texts = family(chk.tier)
    n = 0
    bad = {}
    try:
        for t in texts:
            d = H.parse(t)
            out_, _ = tm.display(m, d, alternate=False)
            full = "".join(map(str, out_))            # with checksum
            if "#" not in full or full.split("#")[0] != t:
                raise Unsupported("printed form of %s is %s" % (t, full))
            kind = outer_kind(t)
            if d.variant != kind:
                raise Unsupported("family text %s parsed as %s" % (t, d.variant))
            wrong = full[:-1] + ("q" if full[-1] != "q" else "p")
            for k, p in sorted(fs.items()):
                for form, text in (("plain", t), ("checksum", full), ("wrong-checksum", wrong)):
                    n += 1
                    r = m.call_callee({"def": p, "resolved": p, "name": "from_str", "targs": [c10.STRING]}, [text])
                    # (`pkh(K)` is also the miniscript c:pk_h(K), which a bare output may hold: Bare reads it as that)
                    accept = (k == kind or (k == "Bare" and kind == "Pkh")) and form != "wrong-checksum"
                    msg = None
                    if (r.variant == "Ok") != accept:
                        msg = "%s::from_str(%s) is %s" % (k, text, "accepted" if r.variant == "Ok" else "refused: " + repr(r)[:100])
                    elif accept and k == kind and repr(B.deref(r.fields["0"])) != repr(B.deref(d.fields["0"])):
                        msg = "%s::from_str(%s) differs from what Descriptor::from_str wraps: %s" % (k, text, repr(r.fields["0"])[:160])
                    if msg:
                        bad.setdefault((k, form), []).append(msg)
    except (ValueError, Unsupported) as e:
        chk.fail(R, "unanalysable", "unanalysable: %s" % e, where=getattr(e, "where", ""), kind="unanalysable")
        return
    except Panic as e:
        chk.fail(R, "panic", "panic: %s" % e, where="src/descriptor")
        return
    for k in sorted(fs):
        for form in ("plain", "checksum", "wrong-checksum"):
            v = bad.get((k, form), [])
            chk.obligation(R, not v, "%s|%s" % (k, form), "%d text(s); first: %s" % (len(v), v[0] if v else ""),
                           where="src/descriptor", detail=v[:8])
    chk.floor(R, "parses", n, 1000)


# ---- the named constructors (C16) ------------------------------------------------------------------------------------------------

def check_named_constructors(chk, F, R):
    from .. import model
    chk.rule(R, "the named descriptor constructors build the descriptor their name says: Descriptor::new_pk / new_pkh / "
                "new_wpkh / new_sh_wpkh / new_sh / new_wsh / new_sh_wsh / new_bare / new_sh_with_wpkh / new_sh_with_wsh / "
                "new_sh_sortedmulti / new_wsh_sortedmulti / new_sh_wsh_sortedmulti / new_tr (and the Sh / Wsh constructors "
                "behind them) give a value that prints as the expected text - sortedmulti stays sortedmulti, keys keep their "
                "listed order, every wrapper is present - and equals what Descriptor::from_str gives for that text")
    H = Harness(F)
    m = H.m
    D = "descriptor::Descriptor::<Pk>::"
    names = ["new_pk", "new_pkh", "new_wpkh", "new_sh_wpkh", "new_sh", "new_wsh", "new_sh_wsh", "new_bare", "new_sh_with_wpkh",
             "new_sh_with_wsh", "new_sh_sortedmulti", "new_wsh_sortedmulti", "new_sh_wsh_sortedmulti", "new_tr"]
    fns = {}
    for nm in names:
        ps = [q for q in F.fns if q.endswith(D + nm) and q in F.bodies]
        if len(ps) != 1:
            chk.fail(R, "anchor|" + nm, "Descriptor::%s not found" % nm, kind="unanalysable")
            return
        fns[nm] = ps[0]
    chk.saw(*fns.values())
    try:
        eq = impl_fn(F, "std::cmp::PartialEq", "eq")
        wsh_ms = B.deref(B.deref(H.parse("wsh(and_v(v:pk(A),pk(B)))").fields["0"]).fields["ms"])
        sh_inner = B.deref(B.deref(H.parse("sh(and_v(v:pk(A),pk(B)))").fields["0"]).fields["inner"])
        sh_ms = B.deref(sh_inner.fields["0"])
        bare_ms = B.deref(B.deref(H.parse("pk(A)").fields["0"]).fields["ms"])
        wpkh = B.deref(H.parse("wpkh(K)").fields["0"])
        wsh = B.deref(H.parse("wsh(and_v(v:pk(A),pk(B)))").fields["0"])
        th = lambda: model.threshold(2, ["C", "A", "B"])      # noqa: E731
        cases = [("new_pk", ["K"], "pk(K)"), ("new_pkh", ["K"], "pkh(K)"), ("new_wpkh", ["K"], "wpkh(K)"), ("new_sh_wpkh", ["K"], "sh(wpkh(K))"),
                 ("new_sh", [sh_ms], "sh(and_v(v:pk(A),pk(B)))"), ("new_wsh", [wsh_ms], "wsh(and_v(v:pk(A),pk(B)))"),
                 ("new_sh_wsh", [dcopy(wsh_ms)], "sh(wsh(and_v(v:pk(A),pk(B))))"), ("new_bare", [bare_ms], "pk(A)"),
                 ("new_sh_with_wpkh", [wpkh], "sh(wpkh(K))"), ("new_sh_with_wsh", [wsh], "sh(wsh(and_v(v:pk(A),pk(B))))"),
                 ("new_sh_sortedmulti", [th()], "sh(sortedmulti(2,C,A,B))"), ("new_wsh_sortedmulti", [th()], "wsh(sortedmulti(2,C,A,B))"),
                 ("new_sh_wsh_sortedmulti", [th()], "sh(wsh(sortedmulti(2,C,A,B)))"), ("new_tr", ["K", Adt("std::option::Option", "None", {})], "tr(K)")]
        n = 0
        for nm, args, want in cases:
            r = m.call_callee({"def": fns[nm], "resolved": fns[nm], "name": nm, "targs": [c10.STRING]}, list(args))
            n += 1
            d = r.fields["0"] if isinstance(r, Adt) and r.path.endswith("Result") else r
            if isinstance(r, Adt) and r.path.endswith("Result") and r.variant != "Ok":
                chk.fail(R, nm, "Descriptor::%s refuses a valid argument: %s" % (nm, repr(r)[:120]), where="src/descriptor/mod.rs")
                continue
            got = H.text(d)
            same = got == want and bool(m.call_path(eq, [d, H.parse(want)]))
            chk.obligation(R, same, nm, "Descriptor::%s gives %s, expected %s (and == the parsed text)" % (nm, got, want),
                           where="src/descriptor/mod.rs")
        chk.floor(R, "constructors", n, 14)
    except (ValueError, KeyError) as e:
        chk.fail(R, "unanalysable", "unanalysable: %s" % e, kind="unanalysable")
    except Unsupported as e:
        chk.fail(R, "unanalysable", "unanalysable: %s" % e, where=e.where, kind="unanalysable")
    except Panic as e:
        chk.fail(R, "panic", "panic: %s" % e, where="src/descriptor/mod.rs")


def check_constructed_roundtrip(chk, F, R):
    """descriptors that no text produced: built with a constructor, printed, parsed"""
    chk.rule(R, "a descriptor built by a constructor rather than parsed - Descriptor::new_bare / new_sh / new_wsh over each kind of "
                "script a context admits (a key check, a key-hash check, multi, a conjunction) - prints as a text that parses "
                "back to an equal descriptor (same variant, same script)")
    H = Harness(F)
    m = H.m
    D = "descriptor::Descriptor::<Pk>::"
    try:
        fns = {nm: [q for q in F.fns if q.endswith(D + nm) and q in F.bodies][0] for nm in ("new_bare", "new_sh", "new_wsh")}
        eq = impl_fn(F, "std::cmp::PartialEq", "eq")
    except (IndexError, KeyError, ValueError) as e:
        chk.fail(R, "anchor", "missing anchor: %s" % e, kind="unanalysable")
        return
    chk.saw(*fns.values())
    n = 0
    for ms_text in ("pk(A)", "pkh(A)", "multi(1,A,B)", "and_v(v:pk(A),pk(B))", "and_v(v:pkh(A),pk(B))"):
        try:
            ms = B.deref(B.deref(B.deref(H.parse("sh(%s)" % ms_text).fields["0"]).fields["inner"]).fields["0"])
        except (Unsupported, Panic, KeyError, AttributeError) as e:
            chk.fail(R, "unanalysable:" + ms_text, "unanalysable: %s" % e, kind="unanalysable")
            continue
        for nm in ("new_bare", "new_sh", "new_wsh"):
            key = "%s|%s" % (nm, ms_text)
            try:
                r = m.call_callee({"def": fns[nm], "resolved": fns[nm], "name": nm, "targs": [c10.STRING]}, [dcopy(ms)])
                if r.variant != "Ok":
                    chk.ok(R)          # refusing is not a round-trip matter
                    continue
                d = r.fields["0"]
                txt = H.text(d)
                back = H.parse(txt)
                n += 1
                same = bool(m.call_path(eq, [d, back]))
                chk.obligation(R, same, key, "Descriptor::%s(%s) is Descriptor::%s; it prints as %s, which parses to Descriptor::%s"
                               % (nm, ms_text, B.deref(d).variant, txt, B.deref(back).variant if isinstance(B.deref(back), Adt) else back),
                               where="src/descriptor/mod.rs")
            except Unsupported as e:
                chk.fail(R, "unanalysable:" + key, "unanalysable: %s" % e, where=e.where, kind="unanalysable")
            except (Panic, ValueError) as e:
                chk.fail(R, key, "panic / parse failure: %s" % e, where="src/descriptor/mod.rs")
    chk.floor(R, "constructed descriptors", n, 12)
