"""R09.4: descriptor weight formulas (max_weight_to_satisfy) are the BIP-141 weight of the standard assembly
(spec/outputs.py SATISFACTION) for the figures the miniscript announces.

The functions are evaluated on grids of (script size S, witness element count E incl. the script, satisfaction size M)
that cross every breakpoint of the piecewise-linear pieces (push-opcode sizes 75/76, 255/256, 65535/65536; compact-size
lengths 252/253, 65535/65536).  Oracle: weight = 4 x scriptSig bytes + 1 x witness bytes, counting the growth of the
length prefixes from their empty values, for the assembly the standard prescribes for the descriptor type."""

import itertools

from ..interp import Machine, Adt, Term, PyVec, Panic, ok, err, some, NONE
from ..report import Unsupported
from . import assembly


def varint(n):
    return 1 if n < 0xfd else (3 if n <= 0xffff else (5 if n <= 0xffffffff else 9))


def push_size(n):
    """opcode bytes needed to push n bytes"""
    return 1 if n < 76 else (2 if n < 0x100 else (3 if n < 0x10000 else 5))


def oracle(kind, S, E, M, pk_len):
    """weight units to add to an unsatisfied input"""
    def ssig(x):
        return 4 * (varint(x) - varint(0) + x)

    def wit(count, content):
        return varint(count) - varint(0) + content
    if kind == "Wsh":
        return wit(E, M + varint(S) + S)
    if kind == "Wpkh":
        return wit(2, 73 + pk_len)
    if kind == "Sh":
        return ssig(M + push_size(S) + S)
    if kind == "ShWsh":
        return ssig(35) + wit(E, M + varint(S) + S)
    if kind == "ShWpkh":
        return ssig(23) + wit(2, 73 + pk_len)
    if kind == "Bare":
        return ssig(M)
    if kind == "Pkh":
        return ssig(73 + pk_len)
    raise KeyError(kind)


def check_weights(chk, F, rid="R09.4"):
    chk.rule(rid, "max_weight_to_satisfy of bare / pkh / wpkh / wsh / sh / sh-wsh / sh-wpkh equals the BIP-141 weight of "
                  "the standard assembly for the announced script size, element count and satisfaction size, on grids "
                  "crossing every push-size and compact-size breakpoint")
    from ..builtins import deref
    state = {}
    hooks = {}
    for p in F.fns:
        if p.endswith("::script_size") and "Miniscript" in p:
            hooks[p] = lambda m_, a, c: state["S"]
        if p.endswith("::max_satisfaction_witness_elements"):
            hooks[p] = lambda m_, a, c: ok(state["E"])
        if p.endswith("::max_satisfaction_size") and "Miniscript" in p:
            hooks[p] = lambda m_, a, c: ok(state["M"])
        if p.endswith("::pk_len"):
            hooks[p] = lambda m_, a, c: state["PK"]
    hooks["miniscript::context::ScriptContext::pk_len"] = lambda m_, a, c: state["PK"]
    hooks["bitcoin::VarInt::size"] = lambda m_, a, c: varint(deref(a[0]).fields["0"] if isinstance(deref(a[0]), Adt) else deref(a[0]))
    hooks["bitcoin::consensus::encode::VarInt::size"] = hooks["bitcoin::VarInt::size"]
    hooks["bitcoin::Weight::from_vb"] = lambda m_, a, c: some(4 * deref(a[0]))
    hooks["bitcoin::Weight::from_wu"] = lambda m_, a, c: deref(a[0])
    hooks["bitcoin::Weight::ZERO"] = lambda m_, a, c: 0
    def wu(x):
        x = deref(x)
        return x.fields["0"] if isinstance(x, Adt) and "0" in x.fields else x
    hooks["<bitcoin::Weight as std::ops::Add>::add"] = lambda m_, a, c: wu(a[0]) + wu(a[1])
    from .. import builtins as B
    saved = B.CONSTS.get("bitcoin::Weight::ZERO")
    B.CONSTS["bitcoin::Weight::ZERO"] = 0
    m = Machine(F, strict=True, hooks=hooks)
    vals = assembly.values()
    ADT = {"Bare": assembly.BARE, "Pkh": assembly.PKH, "Wpkh": assembly.WPKH, "Wsh": assembly.WSH, "Sh": assembly.SH,
           "ShWsh": assembly.SH, "ShWpkh": assembly.SH}
    Ss = [1, 30, 75, 76, 255, 256, 520, 3600, 65535, 65536]
    Es = [1, 2, 252, 253, 1000]
    Ms = [1, 74, 252, 253, 10000, 65535, 65536]
    n = 0
    try:
        for kind, v in vals.items():
            fn = assembly.method(F, ADT[kind], "max_weight_to_satisfy")
            if fn is None:
                chk.fail(rid, "anchor:" + kind, "max_weight_to_satisfy of %s not found" % kind, kind="unanalysable")
                continue
            chk.saw(fn)
            bad = []
            grid = itertools.product(Ss, Es, Ms, (34, 66)) if kind not in ("Pkh", "Wpkh", "ShWpkh") else \
                itertools.product([1], [1], [1], (34, 66))
            for S, E, M, PK in grid:
                state.update(S=S, E=E, M=M, PK=PK)
                try:
                    r = m.call_path(fn, [v])
                except Unsupported as e:
                    chk.fail(rid, "unanalysable:" + kind, "unanalysable: %s" % e, where=e.where, kind="unanalysable")
                    bad = None
                    break
                except Panic as e:
                    bad.append("S=%d E=%d M=%d pk=%d: panic %s" % (S, E, M, PK, e))
                    continue
                n += 1
                got = r.fields["0"] if isinstance(r, Adt) and r.variant == "Ok" else r
                got = wu(got)
                want = oracle(kind, S, E, M, PK)
                if got != want:
                    bad.append("script %d B, %d elements, satisfaction %d B, key push %d B: %r, BIP-141 weight %d"
                               % (S, E, M, PK, got, want))
            if bad is None:
                continue
            chk.obligation(rid, not bad, kind, "%d grid point(s); first: %s" % (len(bad), bad[0] if bad else ""),
                           where="src/descriptor", detail=bad[:10])
    finally:
        if saved is None:
            B.CONSTS.pop("bitcoin::Weight::ZERO", None)
        else:
            B.CONSTS["bitcoin::Weight::ZERO"] = saved
    chk.extra[rid + "_grid_points"] = n
    chk.floor(rid, "grid points", n, 2000)


def check_tr_weight(chk, F, rid="R09.10"):
    """Tr::max_weight_to_satisfy"""
    from ..builtins import deref
    from . import c15
    chk.rule(rid, "Tr::max_weight_to_satisfy: 66 weight units for a key-only output (one 65-byte signature item); with a tree, "
                  "the largest, over the leaves that can be satisfied, of the BIP-141 / BIP-341 witness weight [elements, script, "
                  "control block of 33 + 32 x depth bytes] for that leaf's own script size, element count and satisfaction size; "
                  "ImpossibleSatisfaction when no leaf can be satisfied (trees of several shapes, per-leaf figures crossing the "
                  "compact-size breakpoints, every subset of unsatisfiable leaves)")
    fn = assembly.method(F, assembly.TR if hasattr(assembly, "TR") else "descriptor::tr::Tr", "max_weight_to_satisfy")
    if fn is None:
        chk.fail(rid, "anchor", "Tr::max_weight_to_satisfy not found", kind="unanalysable")
        return
    chk.saw(fn)
    table = {}

    def fig(which):
        def f(m_, a, c):
            v = table[deref(a[0]).fields["leafname"]][which]
            if which == "S":
                return v
            return ok(v) if v is not None else err(Term("no-satisfaction"))
        return f
    hooks = {}
    for p in F.fns:
        if p.endswith("::script_size") and "Miniscript" in p:
            hooks[p] = fig("S")
        if p.endswith("::max_satisfaction_witness_elements"):
            hooks[p] = fig("E")
        if p.endswith("::max_satisfaction_size") and "Miniscript" in p:
            hooks[p] = fig("M")
    hooks["bitcoin::Weight::from_wu"] = lambda m_, a, c: deref(a[0])
    m = Machine(F, strict=True, hooks=hooks)
    TRADT = "descriptor::tr::Tr"
    n = 0
    figs = [(1, 1, 1), (34, 2, 66), (253, 252, 252), (252, 253, 253), (3600, 999, 65536), (65536, 5, 100), (10, 1, 0)]
    try:
        tr = Adt(TRADT, "Tr", {"internal_key": "IK", "tree": NONE, "spend_info": Term("cache")})
        r = m.call_path(fn, [tr])
        n += 1
        got = r.fields["0"] if isinstance(r, Adt) and r.variant == "Ok" else r
        chk.obligation(rid, got == 66, "key-only", "key-only output: %r, a single 65-byte signature item weighs 66" % (got,),
                       where="src/descriptor/tr/mod.rs")
        for text in ["A", "{A,B}", "{A,{B,C}}", "{{A,B},{C,D}}", "{A,{B,{C,{D,E}}}}"]:
            tree = c15.mk_tree(text)
            leaves = [(d, x.fields["leafname"]) for d, x in tree.fields["depths_leaves"].items]
            tr = Adt(TRADT, "Tr", {"internal_key": "IK", "tree": some(tree), "spend_info": Term("cache")})
            bad = []
            for rot in range(len(figs)):
                for dead in itertools.chain([()], [(i,) for i in range(len(leaves))], [tuple(range(len(leaves)))]):
                    table.clear()
                    for i, (d, nm) in enumerate(leaves):
                        S, E, M = figs[(i + rot) % len(figs)]
                        table[nm] = {"S": S, "E": None if i in dead else E, "M": None if (i in dead and rot % 2) else M}
                        if i in dead and not rot % 2:
                            table[nm]["E"] = None
                    r = m.call_path(fn, [tr])
                    n += 1
                    ws = []
                    for i, (d, nm) in enumerate(leaves):
                        t_ = table[nm]
                        if t_["E"] is None or t_["M"] is None:
                            continue
                        cb = 33 + 32 * d
                        ws.append(varint(t_["E"] + 1) - varint(0) + t_["M"] + varint(t_["S"]) + t_["S"] + varint(cb) + cb)
                    got = r.fields["0"] if isinstance(r, Adt) and r.variant == "Ok" else ("Err" if isinstance(r, Adt) else r)
                    want = max(ws) if ws else "Err"
                    if got != want or (want == "Err" and "ImpossibleSatisfaction" not in repr(r)):
                        bad.append("figures %r, unsatisfiable leaves %r: %r, expected %r" % (
                            {k: (v["S"], v["E"], v["M"]) for k, v in table.items()}, dead, got if got != "Err" else repr(r)[:80], want))
            chk.obligation(rid, not bad, "tree|" + text, "%d case(s); first: %s" % (len(bad), bad[0] if bad else ""),
                           where="src/descriptor/tr/mod.rs", detail=bad[:8])
    except Unsupported as e:
        chk.fail(rid, "unanalysable", "unanalysable: %s" % e, where=e.where, kind="unanalysable")
    except Panic as e:
        chk.fail(rid, "panic", "panic: %s" % e, where="src/descriptor/tr/mod.rs")
    chk.floor(rid, "cases", n, 150)
