def check_entry_points(chk, F):
    pass


def check_constructors(chk, F):
    pass
