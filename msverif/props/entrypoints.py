"""R12.3 entry-point coverage (must-pass-through on success exits, MIR) and R12.4 constructor discipline."""

import os
import re

from .. import mirq, symx, model
from ..interp import Machine, Adt, Term, explore
from ..report import Unsupported
from ..facts import VERIF

CENSUS_RE = re.compile(r"^(std::result::Result<)?(miniscript::private::Miniscript<|descriptor::Descriptor<|"
                       r"descriptor::bare::Bare<|descriptor::bare::Pkh<|descriptor::segwitv0::Wpkh<|"
                       r"descriptor::segwitv0::Wsh<|descriptor::sh::Sh<|descriptor::tr::Tr<|"
                       r"descriptor::tr::taptree::TapTree<)")


def short(p):
    """stable, readable key of a function path"""
    q = re.sub(r"<impl ", "<", p)
    q = q.replace("miniscript::private::", "").replace("descriptor::key::", "")
    q = re.sub(r"<(\w+) as miniscript::context::ScriptContext>::Key", r"\1::Key", q)
    return q


def load_table():
    """config/entry_points.tsv: <function key>\\t<class>\\t<reason>"""
    out = {}
    path = os.path.join(VERIF, "config", "entry_points.tsv")
    for line in open(path):
        line = line.rstrip("\n")
        if not line or line.startswith("#"):
            continue
        parts = line.split("\t")
        out[parts[0]] = (parts[1], parts[2] if len(parts) > 2 else "")
    return out


def census(F):
    rows = []
    for p, f in F.fns.items():
        if f.get("kind") == "Closure" or f.get("derived"):
            continue
        if any(x in p for x in ("::tests::", "::test::", "test_utils", "benchmarks")):
            continue
        if f.get("vis") != "pub":
            continue
        out = F.ty(f["output"])
        if CENSUS_RE.match(out):
            rows.append(p)
    return sorted(rows)


def is_named(name, container_sub=None, trait=None):
    def pred(callee):
        if callee.get("name") != name:
            return False
        c = (callee.get("container") or "") + " " + (callee.get("resolved_container") or "") + " " + (callee.get("self_ty") or "")
        if container_sub is not None and container_sub not in c and container_sub not in (callee.get("def") or ""):
            return False
        if trait is not None and trait not in (callee.get("trait") or ""):
            return False
        return True
    return pred


def check_entry_points(chk, F):
    rid = "R12.3"
    chk.rule(rid, "every public function that returns a Miniscript / descriptor wrapper is classified, and on every "
                  "success exit: miniscript parsers/decoders pass through Miniscript::validate; wrapper constructors "
                  "through ScriptContext::top_level_checks (which validates against the context's consensus "
                  "parameters); single-key wrappers through check_pk; taproot leaves through validate")
    try:
        table = load_table()
    except IOError as e:
        chk.fail(rid, "table", "cannot read config/entry_points.tsv: %s" % e, kind="unanalysable")
        return
    rows = census(F)
    chk.floor(rid, "public constructor-like functions", len(rows), 100)
    classes = {}
    for p in rows:
        key = short(p)
        if key not in table:
            chk.fail(rid, "unclassified|" + key,
                     "public function %s returns a script/descriptor type but is not classified in "
                     "config/entry_points.tsv (parser, wrapper, single-key, delegating, transform, building-block, "
                     "infallible, accessor)" % key, F.fns[p]["span"])
            continue
        chk.ok(rid)
        classes[p] = table[key][0]
    stale = [k for k in table if k not in set(short(p) for p in rows)]
    chk.obligation(rid, not stale, "stale", "entry_points.tsv lists functions that no longer exist: %s" % stale)

    candidates = [p for p in F.fns if F.bodies.get(p, {}).get("mir") is not None
                  and not any(x in p for x in ("::tests::", "::test::"))
                  and F.fns[p]["span"].split(":")[0].startswith(("src/descriptor", "src/miniscript/mod.rs",
                                                                    "src/miniscript/context.rs", "src/policy"))]
    validate_t = is_named("validate", "Miniscript")
    tlc_t = is_named("top_level_checks")
    checkpk_t = is_named("check_pk")
    must_validate = mirq.must_set(F, candidates, validate_t)
    must_tlc = mirq.must_set(F, candidates, lambda c: tlc_t(c) or validate_t(c))
    must_pk = mirq.must_set(F, candidates, checkpk_t)
    any_t = lambda c: tlc_t(c) or validate_t(c) or checkpk_t(c)
    must_any = mirq.must_set(F, candidates, any_t)
    chk.extra["must_validate"] = sorted(short(p) for p in must_validate)
    chk.extra["must_top_level_checks"] = sorted(short(p) for p in must_tlc)
    n = 0
    for p, cls in sorted(classes.items()):
        key = short(p)
        where = F.fns[p]["span"]
        if cls == "parser":
            n += 1
            chk.obligation(rid, p in must_validate, "parser|" + key,
                           "parser/decoder %s has a success exit that does not require Miniscript::validate to succeed"
                           % key, where, detail={"function": p, "uncovered": mirq.must_pass(F, p, validate_t, must_validate)[1]})
        elif cls == "wrapper":
            n += 1
            # sh(..) legitimately dispatches to wpkh (check_pk) and wsh (its own checks): any of the three
            # guards may cover an arm, but a script-carrying arm must use top_level_checks / validate
            direct = mirq.has_target_or_must_call(F, p, lambda c: tlc_t(c) or validate_t(c), must_any)
            chk.obligation(rid, p in must_any and direct, "wrapper|" + key,
                           "wrapper constructor %s has a success exit that does not require the context's "
                           "top_level_checks / validate to succeed: %s"
                           % (key, mirq.must_pass(F, p, any_t, must_any)[1]), where)
        elif cls == "single-key":
            n += 1
            chk.obligation(rid, p in must_pk, "single-key|" + key,
                           "single-key wrapper %s has a success exit that does not require check_pk to succeed: %s"
                           % (key, mirq.must_pass(F, p, checkpk_t, must_pk)[1]), where)
        elif cls == "delegating":
            n += 1
            ok = p in must_any
            chk.obligation(rid, ok, "delegating|" + key,
                           "%s is classified as delegating to a checking constructor but has an unchecked success exit"
                           % key, where)
    chk.floor(rid, "checked entry points", n, 40)
    # the parameters each parser applies
    rid2 = "R12.3p"
    chk.rule(rid2, "default parsers validate with the context's SANE parameters, the *_insane / *_consensus variants "
                   "with CONSENSUS (raw pkh additionally refused in text form); top_level_checks validates with the "
                   "context's CONSENSUS parameters")
    want = {"from_str": "SANE", "decode": "SANE", "decode_consensus": "CONSENSUS", "from_str_insane": "CONSENSUS"}
    for p in rows:
        f = F.fns[p]
        nm = f.get("name")
        if classes.get(p) != "parser" or nm not in want:
            continue
        consts = [n_["callee"].get("name") for n_ in symx.find_nodes(F.thir(p)["body"], lambda x: x.get("k") == "const")
                  if (n_["callee"].get("trait") or "").endswith("ScriptContext")]
        chk.obligation(rid2, consts == [want[nm]], "params|" + short(p),
                       "%s validates with Ctx::%s (expected Ctx::%s)" % (short(p), consts, want[nm]), f["span"])
    check_top_level_params(chk, F, rid2)
    check_tr_leaves(chk, F, rid)


def check_top_level_params(chk, F, rid):
    """which parameters ScriptContext::top_level_checks hands to validate"""
    try:
        tl = [p for p in F.fn("top_level_checks", file="miniscript/context.rs", allow_many=True)
              if "NoChecks" not in p]
        vp = F.fn("validate", file="miniscript/mod.rs", container="Miniscript")
    except KeyError as e:
        chk.fail(rid, "top_level_checks|anchor", "missing %s" % e, kind="unanalysable")
        return
    from spec import limits as lspec
    for p in tl:
        got = {}

        def hook(m, a, c, got=got):
            got["params"] = a[1]
            return Term("validate_result")
        m = Machine(F, strict=False, hooks={vp: hook},
                    uninterpreted=lambda pp, c: c.get("name") in ("top_level_type_check", "other_top_level_checks"))
        try:
            explore(m, lambda: m.call_path(p, [Term("ms")]))
        except Unsupported as e:
            chk.fail(rid, "top_level_checks|unanalysable", "unanalysable: %s" % e, F.fns[p]["span"], kind="unanalysable")
            continue
        P = got.get("params")
        if P is None:
            chk.fail(rid, "top_level_checks|novalidate", "%s does not call Miniscript::validate" % short(p), F.fns[p]["span"])
            continue
        fields = lspec.BOOL_FIELDS + lspec.LIMIT_FIELDS
        for f in fields:
            if isinstance(P, Term):
                v = Term("field", P, f)
            else:
                v = P.fields.get(f)
            base_ok = isinstance(v, Term) and "CONSENSUS" in repr(v)
            tighter = (v is False) if f in lspec.BOOL_FIELDS else False
            chk.obligation(rid, base_ok or tighter, "top_level_checks|" + f,
                           "descriptor top-level validation uses %s = %r instead of the context's CONSENSUS value: the "
                           "descriptor parser accepts scripts the consensus miniscript parser rejects "
                           "(e.g. sh(or_i(pk(A),pk(B))), sh(u:0))" % (f, v), F.fns[p]["span"])


def check_tr_leaves(chk, F, rid):
    """every leaf pushed by Tr::from_tree has been validated"""
    try:
        p = [x for x in F.fn("from_tree", file="descriptor/tr/mod.rs", allow_many=True) if "Tr<" in x][0]
    except (KeyError, IndexError) as e:
        chk.fail(rid, "tr-leaves|anchor", "missing %s" % e, kind="unanalysable")
        return
    g = mirq.CFG(F, p)
    pushes = [(b, c) for (b, c, t) in g.calls() if c.get("name") == "push_leaf"]
    vals = [(b, g.ok_target(b)) for (b, c, t) in g.calls() if c.get("name") == "validate"]
    chk.obligation(rid, bool(pushes), "tr-leaves|sites", "Tr::from_tree has no push_leaf call", F.fns[p]["span"])
    for (pb, c) in pushes:
        good = any(ok is not None and g.edge_dominates(ok[0], ok[1], pb) for (vb, ok) in vals)
        chk.obligation(rid, good, "tr-leaves|validate",
                       "Tr::from_tree pushes a leaf that was not validated against Tap's consensus parameters",
                       F.fns[p]["span"])


# ------------------------------------------------------------------------------------------------
CONSTRUCT_RULES = [
    # (ADT path, files allowed to construct it by struct literal, what guards the invariant)
    ("primitives::threshold::Threshold", ["src/primitives/threshold.rs"], "validate_k_n / literal 1-of-2, 2-of-2 / copy of a valid k,n"),
    ("primitives::absolute_locktime::AbsLockTime", ["src/primitives/absolute_locktime.rs"], "range test 1..=0x7fffffff"),
    ("primitives::relative_locktime::RelLockTime", ["src/primitives/relative_locktime.rs"], "is_relative_lock_time && != 0"),
    ("descriptor::tr::taptree::TapTree", ["src/descriptor/tr/taptree.rs"], "depth bound 128"),
    ("miniscript::private::Miniscript", ["src/miniscript/mod.rs"], "type_check + context checks in from_ast"),
]


def check_constructors(chk, F):
    rid = "R12.4"
    chk.rule(rid, "who-may-construct: Threshold / AbsLockTime / RelLockTime / TapTree / Miniscript values are built by "
                  "struct literal only inside their defining module, behind the checks that establish their invariant; "
                  "from_components_unchecked is called only from the audited sites")
    for adt, allowed, why in CONSTRUCT_RULES:
        if adt not in F.adts:
            chk.fail(rid, adt + "|missing", "type %s not found" % adt, kind="unanalysable")
            continue
        n = 0
        for p, b in F.bodies.items():
            mir = b.get("mir")
            if mir is None or any(x in p for x in ("::tests::", "::test::")):
                continue
            fn = F.fns.get(p, {})
            if fn.get("derived"):
                continue
            for blk in mir["blocks"]:
                for s in blk["stmts"]:
                    if s["rv"] == "agg" and s.get("adt") == adt:
                        n += 1
                        file = s["sp"].split(":")[0]
                        chk.obligation(rid, any(file.endswith(a) or file == a for a in allowed) or s["sp"].endswith("!") and False,
                                       "%s|%s" % (adt.split("::")[-1], short(p)),
                                       "%s is built by a struct literal in %s (%s), outside %s where its invariant (%s) "
                                       "is established" % (adt.split("::")[-1], short(p), s["sp"], allowed, why), s["sp"])
        chk.floor(rid, "literals of " + adt.split("::")[-1], n, 1)
    # fields are private / restricted (a downstream crate cannot write the literal)
    for adt, allowed, why in CONSTRUCT_RULES:
        if adt not in F.adts:
            continue
        vis = [f["vis"] for f in F.adts[adt]["variants"][0]["fields"]]
        chk.obligation(rid, any(v != "pub" for v in vis), adt.split("::")[-1] + "|privacy",
                       "all fields of %s are public: anyone can build an invalid value" % adt, F.adts[adt]["span"])
    # Threshold literals: guarded by validate_k_n or copying from self / literal 1,2
    check_threshold_literals(chk, F, rid)
    # from_components_unchecked callers
    audited = {"policy::compiler", "miniscript::<impl miniscript::private::Miniscript<Pk, Ctx>>::substitute_raw_pkh"}
    callers = set()
    for p, b in F.bodies.items():
        if b.get("thir") is None or any(x in p for x in ("::tests::", "::test::")):
            continue
        for n_ in symx.find_nodes(b["thir"]["body"], lambda x: x.get("k") == "call" and "callee" in x):
            if n_["callee"].get("name") == "from_components_unchecked":
                callers.add(p)
    for c in sorted(callers):
        good = any(c.startswith(a) for a in audited)
        chk.obligation(rid, good, "unchecked|" + short(c),
                       "%s calls Miniscript::from_components_unchecked but is not an audited site (compiler cast table; "
                       "substitute_raw_pkh where RawPkH and PkH share their type)" % short(c), F.fns.get(c, {}).get("span", ""))
    chk.floor(rid, "from_components_unchecked callers", len(callers), 2)


# types whose value invariant is relied on by `unreachable!` / `expect` further down: built only inside the gate function
FN_CONSTRUCT_RULES = [
    ("descriptor::key::DefiniteDescriptorKey", ["descriptor::key::DefiniteDescriptorKey::new"],
     "no wildcard, no multipath step, no hardened step to derive: derive_public_key's `unreachable!(\"impossible by "
     "construction of DefiniteDescriptorKey\")` arms rely on it"),
    ("descriptor::key::DerivPaths", ["descriptor::key::DerivPaths::new"],
     "at least one path: `expect(\"not empty\")` / indexing of the first path rely on it"),
]


def check_fn_constructors(chk, F, rid):
    chk.rule(rid, "values whose invariant a later `unreachable!` / `expect` relies on (DefiniteDescriptorKey: nothing left to "
                  "choose and nothing hardened to derive; DerivPaths: non-empty) are built by struct literal only inside the "
                  "constructor that checks the invariant (who-constructs rule over MIR aggregates)")
    for adt, allowed_fns, why in FN_CONSTRUCT_RULES:
        if adt not in F.adts:
            chk.fail(rid, adt + "|missing", "type %s not found" % adt, kind="unanalysable")
            continue
        n = 0
        for p, b in F.bodies.items():
            mir = b.get("mir")
            if mir is None or any(x in p for x in ("::tests::", "::test::")):
                continue
            if F.fns.get(p, {}).get("derived"):
                continue
            for blk in mir["blocks"]:
                for s_ in blk["stmts"]:
                    if s_["rv"] == "agg" and s_.get("adt") == adt:
                        n += 1
                        good = any(p == a or p.startswith(a + "::{closure") for a in allowed_fns)
                        chk.obligation(rid, good, "%s|%s" % (adt.split("::")[-1], short(p)),
                                       "%s is built by a struct literal in %s (%s), outside %s where its invariant is checked (%s)"
                                       % (adt.split("::")[-1], short(p), s_["sp"], allowed_fns, why), s_["sp"])
        chk.floor(rid, "literals of " + adt.split("::")[-1], n, 1)
        for a in allowed_fns:
            if a not in F.fns:
                chk.fail(rid, "anchor|" + a, "gate function %s not found" % a, kind="unanalysable")


def check_threshold_literals(chk, F, rid):
    THR = "primitives::threshold::Threshold"
    for p, b in F.bodies.items():
        mir = b.get("mir")
        if mir is None or not F.fns.get(p, {}).get("span", "").startswith("src/primitives/threshold.rs"):
            continue
        if F.fns[p].get("derived"):
            continue
        g = mirq.CFG(F, p)
        lits = g.aggregates(THR)
        if not lits:
            continue
        name = F.fns[p].get("name") or ""
        vcalls = [(bb, g.ok_target(bb)) for (bb, c, t) in g.calls() if c.get("name") == "validate_k_n"]
        for (lb, s) in lits:
            guarded = any(ok is not None and g.edge_dominates(ok[0], ok[1], lb) for (vb, ok) in vcalls)
            kop = s["ops"][0] if s.get("ops") else {}
            literal_k = kop.get("o") == "const" and kop.get("int") in (1, 2) and name in ("or", "and")
            # copying k (and a same-length / mapped collection) from an existing valid threshold
            parent = F.fns.get(p.split("::{closure")[0], {}).get("name") or ""
            asserted = name in ("or_n", "and_n") and any(
                (c.get("def") or "").startswith("core::panicking::assert_failed") for (bb, c, t) in g.calls())
            from_self = asserted or parent in ("translate", "translate_ref", "translate_by_index", "map", "map_ref") or name in ("forget_maximum", "map", "map_ref", "translate", "translate_ref", "map_from_post_order_iter",
                                 "map_ref_from_post_order_iter", "into_sorted_bip67", "into_sorted_bip67_xonly",
                                 "translate_by_index", "map_ref_by_index") or name.startswith("{closure")
            chk.obligation(rid, guarded or literal_k or from_self, "Threshold|guard|" + short(p),
                           "the Threshold literal in %s is not preceded by a successful validate_k_n, is not the fixed "
                           "1-of-2 / 2-of-2, and the function is not a known k/n-preserving map" % short(p), s["sp"])
