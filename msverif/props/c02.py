"""C02 -- satisfiable with the caller's assets implies a satisfaction is found.

Structural clauses only (DESIGN.md C02): no canonical template missing, the
type system's `d` agrees with the satisfier's dissatisfaction templates, the
selection lattice tables are the specification's, every asset lookup is
forwarded, and malleable entry points reach the malleable internals."""

import itertools
import os
import sys

from .. import model, satmodel, modes, symx
from ..interp import Machine, Adt, Term, PyVec, Panic, some, NONE
from ..report import Unsupported
from . import c01

sys.path.insert(0, os.path.join(os.path.dirname(__file__), "..", ".."))
from spec import satisfaction as spec  # noqa: E402
from spec import types as tspec  # noqa: E402

LEVEL = "other"
SAT, WIT, PH = satmodel.SAT, satmodel.WIT, satmodel.PH

MODE_FILES = ["satisfy/mod.rs", "satisfy/sat_dissat.rs", "descriptor/mod.rs", "descriptor/bare.rs",
              "descriptor/segwitv0.rs", "descriptor/sh.rs", "descriptor/tr/mod.rs", "plan.rs",
              "psbt/mod.rs", "psbt/finalizer.rs", "miniscript/mod.rs"]


def sat_value(kind, size, has_sig, tag):
    if kind == "STACK":
        st = Adt(WIT, "Stack", {"0": PyVec([Adt(PH, "PushZero") for _ in range(size)])})
    else:
        st = Adt(WIT, kind.capitalize())
    return Adt(SAT, "Satisfaction", {
        "stack": st, "has_sig": has_sig,
        "absolute_timelock": some(Adt("A", "A", {"0": tag})),
        "relative_timelock": some(Adt("R", "R", {"0": tag}))})


KINDS = [("STACK", 1), ("STACK", 2), ("STACK", 3), ("UNAVAILABLE", 0), ("IMPOSSIBLE", 0)]


def describe(v):
    st = v.fields["stack"]
    k = st.variant.upper()
    size = len(st.fields["0"].items) if k == "STACK" else 0
    return (k, size, v.fields["has_sig"])


def provenance(res, a, b):
    """which input the result's (stack, abs, rel) triple comes from"""
    out = []
    for f in ("stack", "absolute_timelock", "relative_timelock"):
        if res.fields[f] == a.fields[f] and res.fields[f] != b.fields[f]:
            out.append("a")
        elif res.fields[f] == b.fields[f] and res.fields[f] != a.fields[f]:
            out.append("b")
        elif res.fields[f] == a.fields[f]:
            out.append("ab")
        else:
            out.append("-")
    return out


def check_minimum_tables(chk, F, P, rid, which=("minimum", "minimum_mall")):
    chk.rule(rid, "Satisfaction::minimum / minimum_mall as exact tables over (kind, size order, has_sig)^2 "
                  "equal the specification's selection rule; the chosen (stack, absolute, relative) triple "
                  "comes from one source")
    m = Machine(F, strict=True)
    for fn in which:
        path = P[fn]
        chk.saw(path)
        where = F.fns[path]["span"]
        oracle = spec.minimum_spec if fn == "minimum" else spec.minimum_mall_spec
        bad = 0
        for (ka, sa), ha, (kb, sb), hb in itertools.product(KINDS, (False, True), KINDS, (False, True)):
            a, b = sat_value(ka, sa, ha, 1), sat_value(kb, sb, hb, 2)
            da, db = describe(a), describe(b)
            try:
                r = m.call_path(path, [a, b])
            except Panic as p:
                chk.fail(rid, fn + "|panic", "%s(%s, %s) panics: %s" % (fn, da, db, p), where)
                continue
            except Unsupported as e:
                chk.fail(rid, fn + "|unanalysable", "unanalysable: %s" % e, where, kind="unanalysable")
                break
            want, whs = oracle(da, db)
            tie = (ka == kb == "STACK" and sa == sb) or (ka == kb and ka != "STACK")
            got_kind = r.fields["stack"].variant.upper()
            key = "%s|%s" % (fn, "cell")
            good = True
            msg = ""
            if want == "UNAVAILABLE":
                good = got_kind == "UNAVAILABLE" and r.fields["has_sig"] is False \
                    and r.fields["absolute_timelock"] == NONE and r.fields["relative_timelock"] == NONE
                msg = "expected UNAVAILABLE without locks"
            else:
                prov = provenance(r, a, b)
                srcs = set(x for x in prov if x in ("a", "b"))
                if len(srcs) > 1:
                    good = False
                    msg = "stack / absolute / relative lock come from different candidates %r" % (prov,)
                else:
                    src = (srcs.pop() if srcs else want)
                    if src != want and not tie:
                        good = False
                        msg = "chose candidate %s, specification chooses %s" % (src, want)
                    if r.fields["has_sig"] != whs:
                        good = False
                        msg += " has_sig=%s, specification %s" % (r.fields["has_sig"], whs)
            if not good:
                bad += 1
                if bad <= 3:
                    chk.fail(rid, key, "%s(a=%s, b=%s) -> %s: %s" % (fn, da, db, describe(r), msg), where,
                             detail={"a": da, "b": db, "result": repr(r)})
            else:
                chk.ok(rid)
        chk.sample({"table": fn, "cells": 100})


def check_combine(chk, F, P, rid):
    chk.rule(rid + "c", "Witness::combine: IMPOSSIBLE absorbs, then UNAVAILABLE, else concatenation in order")
    m = Machine(F, strict=True)
    path = P["combine"]
    where = F.fns[path]["span"]
    chk.saw(path)

    def w(kind, mark):
        if kind == "STACK":
            return Adt(WIT, "Stack", {"0": PyVec([Adt(PH, mark)])})
        return Adt(WIT, kind.capitalize())
    for ka in ("STACK", "UNAVAILABLE", "IMPOSSIBLE"):
        for kb in ("STACK", "UNAVAILABLE", "IMPOSSIBLE"):
            try:
                r = m.call_path(path, [w(ka, "PushZero"), w(kb, "PushOne")])
            except (Unsupported, Panic) as e:
                chk.fail(rid + "c", "combine|unanalysable", "unanalysable: %s" % e, where, kind="unanalysable")
                return
            want = spec.combine_spec(ka, kb)
            got = r.variant.upper()
            good = got == want
            if good and want == "STACK":
                good = [x.variant for x in r.fields["0"].items] == ["PushZero", "PushOne"]
            chk.obligation(rid + "c", good, "combine|%s,%s" % (ka, kb),
                           "Witness::combine(%s, %s) = %r, specification %s" % (ka, kb, r, want), where)


def check_dissat_vs_types(chk, F, P):
    """one belief, two sites: where the type system says `d`, the satisfier has a dissatisfaction"""
    rid = "R02.1x"
    chk.rule(rid, "cross-table: a fragment the library types as dissatisfiable (`d`) has a non-IMPOSSIBLE "
                  "dissatisfaction template in sat_dissat (given dissatisfactions of its `d` children)")
    from . import c05
    m = Machine(F, strict=True)
    c05.restrict_domains()
    where = F.fns[P["sat_dissat"]]["span"]
    for v in model.variants(F):
        rule, child_fields = tspec.TYPE_CHECK_DISPATCH[v]
        # does the library ever type this variant `d`?
        can_d = None
        try:
            if rule in ("TRUE", "FALSE"):
                t = m.eval(F.thir(c05.CP + "Correctness::" + rule)["body"], {})
                can_d = t.fields["dissatisfiable"]
            elif not child_fields:
                t = m.call_path(c05.CP + "Correctness::" + rule, [])
                can_d = t.fields["dissatisfiable"]
            elif rule == "threshold":
                can_d = True
            else:
                can_d = False
                for args in itertools.product(c05.ALL_CORR, repeat=len(child_fields)):
                    k, val = c05.call(m, c05.CP + "Correctness::" + rule, list(args))
                    if k == "ok" and val.fields["dissatisfiable"]:
                        can_d = True
                        break
        except Unsupported as e:
            chk.fail(rid, v + "|unanalysable", "unanalysable: %s" % e, kind="unanalysable")
            continue
        try:
            res, mm = satmodel.run_variant(F, v, True, P=P, k=1 if "Multi" in v or v == "Thresh" else 2)
        except Unsupported as e:
            chk.fail(rid, v + "|unanalysable", "unanalysable: %s" % e, where, kind="unanalysable")
            continue
        for conds, r in res:
            s, d = c01.sd_parts(r)
            if d is None:
                continue
            gd = satmodel.nf_sat(d)
            if can_d:
                chk.obligation(rid, gd != spec.IMPOSSIBLE, v,
                               "Terminal::%s is typed dissatisfiable by Correctness::%s but its dissatisfaction "
                               "template in sat_dissat is IMPOSSIBLE: the satisfier cannot take branches the "
                               "type system promises exist" % (v, rule), where)
            else:
                chk.ok(rid)
            break


def check_forwarding(chk, F):
    rid = "R02.4"
    chk.rule(rid, "every Satisfier method is overridden and forwarded by each forwarding impl (&S, &mut S, "
                  "tuples); the blanket AssetProvider impl maps each provider_* to its namesake lookup")
    tr = "miniscript::satisfy::Satisfier"
    if tr not in F.traits:
        chk.fail(rid, "trait", "trait Satisfier not found", kind="unanalysable")
        return
    methods = [i["name"] for i in F.traits[tr]["items"] if i["kind"] == "Fn"]
    chk.floor(rid, "Satisfier methods", len(methods), 14)
    fwd = [i for i in F.impls if i["trait"] == tr and (i["self_ty"].startswith("&") or i["self_ty"].startswith("("))
           and i["self_ty"] != "()"]
    chk.floor(rid, "forwarding Satisfier impls", len(fwd), 10)
    for imp in fwd:
        have = {it["name"]: it["path"] for it in imp["items"]}
        for mname in methods:
            key = "%s|%s" % (imp["self_ty"], mname)
            if mname not in have:
                chk.fail(rid, key, "impl Satisfier for %s does not override %s: the default returns "
                         "None/false and the wrapped satisfier's assets are lost" % (imp["self_ty"], mname),
                         imp["span"])
                continue
            chk.saw(have[mname])
            calls = [c for c in symx.callsites(F, have[mname]) if c["trait"] == tr]
            names = set(c["name"] for c in calls)
            chk.obligation(rid, names == {mname}, key,
                           "impl Satisfier for %s: %s forwards to %s (must forward to %s only)"
                           % (imp["self_ty"], mname, sorted(names), mname), F.fns[have[mname]]["span"])
    # blanket AssetProvider for T: Satisfier
    ap = "plan::AssetProvider"
    if ap not in F.traits:
        chk.fail(rid, "AssetProvider", "trait AssetProvider not found", kind="unanalysable")
        return
    pmethods = [i["name"] for i in F.traits[ap]["items"] if i["kind"] == "Fn"]
    chk.floor(rid, "AssetProvider methods", len(pmethods), 13)
    blanket = [i for i in F.impls if i["trait"] == ap and i["self_ty"] == "T"]
    if len(blanket) != 1:
        chk.fail(rid, "blanket", "expected one blanket impl AssetProvider for T, found %d" % len(blanket),
                 kind="unanalysable")
        return
    have = {it["name"]: it["path"] for it in blanket[0]["items"]}
    for pm in pmethods:
        want = pm.replace("provider_", "")
        key = "AssetProvider for T|" + pm
        if pm not in have:
            chk.fail(rid, key, "blanket impl AssetProvider for T: Satisfier does not override %s (default "
                     "false/None: the satisfier's assets are invisible to planning)" % pm, blanket[0]["span"])
            continue
        calls = [c for c in symx.callsites(F, have[pm]) if c["trait"] == tr]
        names = set(c["name"] for c in calls)
        chk.obligation(rid, names == {want}, key,
                       "blanket AssetProvider::%s calls Satisfier::%s, must call Satisfier::%s"
                       % (pm, sorted(names), want), F.fns[have[pm]]["span"])
    chk.sample({"forwarding_impls": [i["self_ty"] for i in fwd], "methods": methods})


# ---- R02.9 the map satisfiers ---------------------------------------------------------------------------------------------

def check_map_satisfiers(chk, F):
    from ..interp import Machine, Adt, Panic, some, NONE
    from ..builtins import deref, PyMap
    R = "R02.9"
    chk.rule(R, "the Satisfier impls for maps (BTreeMap / HashMap keyed by key, by (key, leaf), by key hash, by (key hash, leaf)): "
                "a look-up returns the signature (and key) stored for exactly the asked key / leaf - hash-keyed maps are asked "
                "with the HASH160 of the key's context serialization - and None for every other key, leaf or hash")
    imps = [i for i in F.impls if (i["trait"] or "").endswith("Satisfier") and (i.get("self_ty") or "").startswith("std::collections::")]
    if len(imps) < 8:
        chk.fail(R, "anchor", "expected 8 map impls of Satisfier, found %d" % len(imps), kind="unanalysable")
        return
    m = Machine(F, strict=True)
    h = m.hooks

    def tph(m_, a, c):
        return ("h160", deref(a[1]).variant, deref(a[0]))
    h["ToPublicKey::to_pubkeyhash"] = tph
    h["miniscript::ToPublicKey::to_pubkeyhash"] = tph
    h["ToPublicKey::to_public_key"] = lambda m_, a, c: ("pk", deref(a[0]))
    h["ToPublicKey::to_x_only_pubkey"] = lambda m_, a, c: ("xonly", deref(a[0]))
    n = 0
    for imp in imps:
        st = imp["self_ty"]
        items = {it["name"]: it["path"] for it in imp["items"]}
        chk.saw(*items.values())
        kind = "key" if "<Pk, bitcoin::ecdsa::Signature>" in st else \
            "key-leaf" if "<(Pk, bitcoin::TapLeafHash), bitcoin::taproot::Signature>" in st else \
            "hash" if ", (Pk, bitcoin::ecdsa::Signature)>" in st else "hash-leaf"
        EH = lambda k: ("h160", "Ecdsa", k)
        SH = lambda k: ("h160", "Schnorr", k)
        if kind == "key":
            mp = PyMap([("A", "sA"), ("B", "sB")])
            table = [("lookup_ecdsa_sig", ["A"], some("sA")), ("lookup_ecdsa_sig", ["B"], some("sB")), ("lookup_ecdsa_sig", ["C"], NONE)]
        elif kind == "key-leaf":
            mp = PyMap([(("A", "L1"), "t1"), (("A", "L2"), "t2"), (("B", "L1"), "t3")])
            table = [("lookup_tap_leaf_script_sig", ["A", "L1"], some("t1")), ("lookup_tap_leaf_script_sig", ["A", "L2"], some("t2")),
                     ("lookup_tap_leaf_script_sig", ["B", "L1"], some("t3")), ("lookup_tap_leaf_script_sig", ["B", "L2"], NONE),
                     ("lookup_tap_leaf_script_sig", ["C", "L1"], NONE)]
        elif kind == "hash":
            mp = PyMap([(EH("A"), ("A", "sA")), (EH("B"), ("B", "sB"))])
            table = [("lookup_ecdsa_sig", ["A"], some("sA")), ("lookup_ecdsa_sig", ["C"], NONE),
                     ("lookup_raw_pkh_pk", [EH("B")], some(("pk", "B"))), ("lookup_raw_pkh_pk", [EH("C")], NONE),
                     ("lookup_raw_pkh_pk", [SH("B")], NONE),
                     ("lookup_raw_pkh_ecdsa_sig", [EH("A")], some((("pk", "A"), "sA"))), ("lookup_raw_pkh_ecdsa_sig", [EH("C")], NONE)]
        else:
            mp = PyMap([((SH("A"), "L1"), ("A", "t1")), ((SH("A"), "L2"), ("A", "t2")), ((SH("B"), "L1"), ("B", "t3"))])
            table = [("lookup_tap_leaf_script_sig", ["A", "L2"], some("t2")), ("lookup_tap_leaf_script_sig", ["B", "L2"], NONE),
                     ("lookup_tap_leaf_script_sig", ["C", "L1"], NONE),
                     ("lookup_raw_pkh_tap_leaf_script_sig", [(SH("B"), "L1")], some((("xonly", "B"), "t3"))),
                     ("lookup_raw_pkh_tap_leaf_script_sig", [(SH("B"), "L2")], NONE),
                     ("lookup_raw_pkh_tap_leaf_script_sig", [(EH("A"), "L1")], NONE),
                     # the key behind a hash: what completes the key push of a raw-pkh tapscript leaf
                     ("lookup_raw_pkh_x_only_pk", [SH("B")], some(("xonly", "B"))), ("lookup_raw_pkh_x_only_pk", [SH("A")], some(("xonly", "A"))),
                     ("lookup_raw_pkh_x_only_pk", [SH("C")], NONE), ("lookup_raw_pkh_x_only_pk", [EH("A")], NONE)]
        short = ("BTreeMap" if "BTreeMap" in st else "HashMap") + "/" + kind
        for name, args, want in table:
            key = "%s|%s|%s" % (short, name, ",".join(repr(x) for x in args))
            if name not in items:
                chk.fail(R, key, "%s does not implement %s (the default answers None)" % (short, name), where="src/miniscript/satisfy/mod.rs")
                continue
            n += 1
            try:
                r = m.call_callee({"def": items[name], "resolved": items[name], "name": name, "targs": ["PK"]}, [mp] + list(args))
                chk.obligation(R, repr(deref(r)) == repr(want), key, "%s gives %r, expected %r" % (key, r, want),
                               where="src/miniscript/satisfy/mod.rs")
            except Unsupported as e:
                chk.fail(R, "unanalysable:" + key, "unanalysable: %s" % e, where=e.where, kind="unanalysable")
            except Panic as e:
                chk.fail(R, key, "panic: %s" % e, where="src/miniscript/satisfy/mod.rs")
    chk.floor(R, "look-up cases", n, 40)


# ---- R02.10 lock times as satisfiers ---------------------------------------------------------------------------------------------

def check_lock_satisfiers(chk, F):
    from . import c14
    from ..interp import Panic
    rid = "R02.10"
    chk.rule(rid, "the lock-time types used as satisfiers (Sequence, RelLockTime, relative::LockTime for check_older; "
                  "absolute::LockTime for check_after) answer true exactly when the value the *caller holds* (the input's "
                  "nSequence / the transaction's nLockTime) implies the lock the *script asks for*: same unit and at least as "
                  "large (BIP-68 / BIP-65), in particular for every value strictly above the requested one; a sequence with "
                  "the disable flag offers no relative lock (grid of held x requested values in both units)")
    TR = "miniscript::satisfy::Satisfier<Pk>"
    ty = {"Sequence": "bitcoin::Sequence", "RelLockTime": "primitives::relative_locktime::RelLockTime",
          "relative::LockTime": "bitcoin::relative::LockTime", "absolute::LockTime": "bitcoin::absolute::LockTime"}
    paths = {}
    for nm, t in ty.items():
        meth = "check_after" if nm == "absolute::LockTime" else "check_older"
        p = "<%s as %s>::%s" % (t, TR, meth)
        if p not in F.bodies:
            chk.fail(rid, "anchor|" + nm, "%s not found" % p, kind="unanalysable")
            return
        paths[nm] = p
    chk.saw(*paths.values())
    m = Machine(F, strict=True)
    c14.lock_hooks(m)
    rl = [a for a in F.adts if a.endswith("relative_locktime::RelLockTime")][0]
    TYPE, DIS = 1 << 22, 1 << 31
    n_cases = 0
    try:
        for nm in ("Sequence", "RelLockTime", "relative::LockTime"):
            bad = []
            for req in (5, 144, 5 | TYPE, 65535):
                helds = sorted({max((req & 0xffff) + d, 1) | (req & TYPE) for d in (-1, 0, 1, 100)} | {(req & 0xffff) | ((req & TYPE) ^ TYPE), 0xffff | (req & TYPE)})
                if nm == "Sequence":
                    helds += [req | DIS, 0xffffffff, 0xfffffffe]
                for held in helds:
                    if nm == "Sequence":
                        recv = held
                    elif nm == "RelLockTime":
                        recv = Adt(rl, "RelLockTime", {"0": held})
                    else:
                        recv = ("rel", held)
                    got = m.call_callee({"def": paths[nm], "resolved": paths[nm], "name": "check_older", "targs": ["PK"]}, [recv, ("rel", req)])
                    want = (held & DIS) == 0 and (held & TYPE) == (req & TYPE) and (req & 0xffff) <= (held & 0xffff)
                    n_cases += 1
                    if got is not want:
                        bad.append("holding %#x, asked for older(%#x): %r, BIP-68 says %r" % (held, req, got, want))
            chk.obligation(rid, not bad, nm, "%d case(s); first: %s" % (len(bad), bad[0] if bad else ""), where="src/miniscript/satisfy/mod.rs",
                           detail=bad[:8])
        bad = []
        for req in (100, 500000100, 1, 499999999, 500000000):
            for held in sorted({max(req + d, 0) for d in (-1, 0, 1, 1000)} | {0, 499999999, 500000000, 0xffffffff, (req + 500000000) if req < 500000000 else req - 500000000}):
                got = m.call_callee({"def": paths["absolute::LockTime"], "resolved": paths["absolute::LockTime"], "name": "check_after", "targs": ["PK"]}, [held, req])
                want = (req < 500000000) == (held < 500000000) and req <= held
                n_cases += 1
                if got is not want:
                    bad.append("holding %d, asked for after(%d): %r, BIP-65 says %r" % (held, req, got, want))
        chk.obligation(rid, not bad, "absolute::LockTime", "%d case(s); first: %s" % (len(bad), bad[0] if bad else ""),
                       where="src/miniscript/satisfy/mod.rs", detail=bad[:8])
    except Unsupported as e:
        chk.fail(rid, "unanalysable", "unanalysable: %s" % e, where=e.where, kind="unanalysable")
    except Panic as e:
        chk.fail(rid, "panic", "panic: %s" % e, where="src/miniscript/satisfy/mod.rs")
    chk.floor(rid, "grid points", n_cases, 100)


def run(chk):
    F = chk.facts()
    chk.explanation = (
        "Decides structural necessary conditions of completeness, not the search itself: (R02.1) no "
        "specification template is IMPOSSIBLE/UNAVAILABLE when all assets are present; (R02.1x) the typing "
        "table's `d` agrees with the satisfier's dissatisfaction templates; (R02.2) minimum_mall, minimum and "
        "combine as exact tables; (R02.3 via thresh templates) k=n routed to the conjunction fold; (R02.4) "
        "asset-lookup forwarding completeness; (R02.5) malleable entry points reach malleable internals.")
    chk.trusted = ["spec/satisfaction.py", "factgen THIR; msverif.interp"]
    chk.assumptions = ["completeness of the witness search beyond these tables is not decided"]
    try:
        P = satmodel.paths(F)
    except KeyError as e:
        chk.fail("R02.1", "anchors", "missing anchor: %s" % e, kind="unanalysable")
        return
    c01.check_templates(chk, F, P, True, rid="R02.1", mode="complete")
    c01.check_templates(chk, F, P, False, rid="R02.1", mode="complete")
    check_dissat_vs_types(chk, F, P)
    check_minimum_tables(chk, F, P, "R02.2", which=("minimum_mall", "minimum"))
    check_combine(chk, F, P, "R02.2")
    check_forwarding(chk, F)
    c01.check_has_sig(chk, F, P, rid="R02.6")
    n = modes.check_modes(chk, F, "R02.5", MODE_FILES)
    chk.floor("R02.5", "mode-specific call sites", n, 70)
    from . import e2e
    chk.guard("R02.7", "e2e", e2e.check, chk, F, "R02.7", "complete",
              "end to end on a bounded family (~60 scripts x every subset of their keys x preimage sets x locks met or not): whenever a canonical satisfaction exists with the owned assets and met locks, the malleable satisfier returns a satisfaction, and so does the non-malleable one for scripts typed non-malleable")
    # the planner finds a key among the caller's Assets by is_key_direct_child_of: a wrong refusal there reports a
    # spendable output as unspendable (rule shared with C17)
    from ..report import RuleAlias
    from . import c17
    chk.guard("R02.8", "asset-key-matching", c17.check_key_source_table,
              RuleAlias(chk, {"R17.6": "R02.8"}, "Assets key matching: a key source signs for exactly its own path and its direct "
                                                 "children (exhaustive table on short paths; rule shared with C17)"), F)
    chk.guard("R02.9", "map-satisfiers", check_map_satisfiers, chk, F)
    chk.guard("R02.10", "lock-satisfiers", check_lock_satisfiers, chk, F)
    # ... and the satisfier a PSBT is finalized with answers the same questions from the transaction (shared with C14)
    from . import c14
    chk.guard("R02.11", "psbt-locks", c14.check_locks, RuleAlias(chk, {"R14.1": "R02.11"}, "PsbtInputSatisfier::check_older / "
              "check_after: a lock the transaction meets is found"), F)
    # what the template builders emit the same satisfier completes, raw key hashes in tapscript included (shared with C17)
    chk.guard("R02.12", "template-completable", c17.check_template_completable, chk, F, "R02.12")
    # two parts of one spending path that ask for the same lock stay spendable: the lock merge keeps the later of two
    # locks of one unit, equal ones included (rule shared with C03 / C17)
    from . import c03
    chk.guard("R02.13", "lock-merge", c03.check_lock_merge, chk, F, "R02.13")
