"""C06 -- static types predict what fragments do when executed.

Decided on a bounded family: every candidate fragment built from a leaf set by wrapper chains (length <= 2), every
binary / ternary combinator over a set of typed sub-fragments of every base type, and thresholds, is typed by the
library's own rules (Miniscript::from_tree -> from_ast -> Type::type_check, evaluated from the typed syntax tree;
that these rules equal the specification's table is C05).  For every fragment the library accepts, the
specification's Script (spec/script.py; the library's encoder emits it: C04) is executed by the reference executor
(spec/msexec.py) on every input stack up to length 3 over an alphabet of {0, 1, 2, valid / foreign signatures, keys,
right / wrong preimages, junk} (plus all single substitutions of the canonical witnesses), above two marker elements,
and the label predictions of the Miniscript specification are checked (spec/typesem.py):

R06.1  base type: B / K push exactly one value on top of the unconsumed input (a number / a key), V pushes nothing and
       never ends dissatisfied, W preserves the top element
R06.2  z / o: consumes exactly 0 / 1 elements on every non-aborting input; n: satisfied only with >= 1 consumed
       element and a non-zero top
R06.3  u: satisfied => exactly 1;  d: some signature-free input leaves 0
R06.4  s: every success checked a signature;  f (no dissatisfaction): no signature-free input leaves 0
R06.5  composition: canonical satisfactions / dissatisfactions of accepted fragments leave non-zero / zero
R06.6  the public cast constructors Type::cast_* give the labels type_check gives (shared with C08 R08.3)
R06.7  the contexts admit exactly the fragments / key kinds that can execute under their script rules (shared with C12)
R06.8  the typed leaf constructors attach the labels type_check gives (shared with C05)"""

import itertools
import os
import sys

from ..interp import Machine, Adt, Term, PyVec, Panic
from ..report import Unsupported
from .. import textmodel as tm, model

sys.path.insert(0, os.path.join(os.path.dirname(__file__), "..", "..", "spec"))
import typesem as TS  # noqa: E402
import msexec as X  # noqa: E402

LEVEL = "other"
MS = model.MS
CTX = {"segwitv0": "miniscript::context::Segwitv0", "tap": "miniscript::context::Tap",
       # (the two pre-segwit contexts are used by C08's compiler rule only: C06's families are segwit v0 / tapscript)
       "legacy": "miniscript::context::Legacy", "bare": "miniscript::context::BareCtx"}
WR = "asc dvjntlu".replace(" ", "")


def leaves(ctx):
    ls = ["0", "1", "pk_k(A)", "pk_h(A)", "pk(A)", "pkh(A)", "older(5)", "after(9)", "sha256(H)", "hash160(G)"]
    # boundary locks: whatever value the library admits as a lock must behave as its type says (a zero lock leaves an
    # empty vector on the stack, values with the disable flag / beyond 2^31 do not check anything)
    ls += ["older(0)", "after(0)", "older(1)", "after(1)", "older(2147483647)", "after(2147483647)", "older(2147483648)",
           "after(2147483648)", "older(4194305)", "older(65535)", "after(500000000)"]
    ls += ["multi(1,A,B)", "multi(2,A,B,C)", "sortedmulti(2,C,A,B)"] if ctx != "tap" else \
        ["multi_a(1,A,B)", "multi_a(2,A,B,C)", "sortedmulti_a(1,B,A)", "sortedmulti_a(2,C,A,B)"]
    return ls


def wrap(w, x):
    return (w + x) if (":" in x.split("(")[0]) else (w + ":" + x)


def candidates(ctx, tier):
    ls = leaves(ctx)
    out = list(ls)
    for x in ls:
        for w in WR:
            out.append(wrap(w, x))
            for w2 in WR:
                out.append(wrap(w2, wrap(w, x)))
    subs = ["pk(A)", "pk(B)", "pk_k(B)", "pk_h(B)", "v:pk(B)", "s:pk(B)", "a:pk(B)", "older(5)", "v:older(5)", "sha256(H)",
            "a:sha256(H)", "0", "1", "n:older(5)", "j:pk(B)", "dv:older(5)", "v:sha256(H)", "sdv:older(5)", "sln:older(5)",
            "vc:pk_h(B)", "a:0",
            # the largest lock values: a B fragment must be usable wherever B is allowed (numeric opcodes read 4 bytes)
            "after(2147483647)", "after(2147483648)", "a:after(2147483648)"]
    subs.append("multi(1,B,C)" if ctx != "tap" else "multi_a(1,B,C)")
    for op in ("and_v", "and_b", "or_b", "or_c", "or_d", "or_i"):
        for x, y in itertools.product(subs, repeat=2):
            y2 = y.replace("(B)", "(C)").replace("(H)", "(G)") if x == y else y
            out.append("%s(%s,%s)" % (op, x, y2))
    tern = ["pk(A)", "pk(B)", "pk(C)", "v:pk(B)", "older(5)", "0", "1", "pk_k(C)", "sha256(H)"]
    for x, y, z in itertools.product(tern[:5] if tier == "quick" else tern, repeat=3):
        out.append("andor(%s,%s,%s)" % (x, y, z))
    ws = ["s:pk(B)", "a:pk(C)", "sln:older(5)", "a:sha256(H)", "sdv:older(5)", "a:0", "a:1"]
    for k in (1, 2, 3):
        for a, b in itertools.product(ws, repeat=2):
            out.append("thresh(%d,pk(A),%s,%s)" % (k, a, b))
        for a in ws:
            if k <= 2:
                out.append("thresh(%d,pk(A),%s)" % (k, a))
    out.append("thresh(1,pk(A))")
    out.append("thresh(2,older(5),s:pk(B),a:pk(C))")
    for k in (1, 2):
        out += ["thresh(%d,l:older(5),s:pk(B))" % k, "thresh(%d,u:older(5),s:pk(B),a:pk(C))" % k,
                "thresh(%d,or_i(older(5),0),a:sha256(H))" % k, "thresh(%d,pk(A),sl:older(5))" % k]
    seen, res = set(), []
    for t in out:
        if t not in seen:
            seen.add(t)
            res.append(t)
    return res


class Typer(object):
    def __init__(self, F):
        self.F = F
        m = Machine(F, strict=True, max_depth=80)
        m.text_keys = True
        self.m = m
        self.ft = tm.from_tree_path(F, MS)
        self.root = F.fn("root", file="expression/mod.rs")

    def type_of(self, text, ctx):
        F, m = self.F, self.m
        tr = tm.parse_tree(F, m, text)
        if tr.variant != "Ok":
            return None
        ri = m.call_path(self.root, [tr.fields["0"]])
        st = "miniscript::private::Miniscript<std::string::String, %s>" % CTX[ctx]
        r = m.call_callee({"def": "expression::FromTree::from_tree", "resolved": self.ft, "name": "from_tree",
                           "trait": "expression::FromTree",
                           "resolved_container": "miniscript::<impl expression::FromTree for miniscript::private::Miniscript<Pk, Ctx>>",
                           "self_ty": st, "targs": [st]}, [ri])
        if not (isinstance(r, Adt) and r.variant == "Ok"):
            return None
        ty = r.fields["0"].fields["ty"]
        corr, mall = ty.fields["corr"], ty.fields["mall"]
        inp = corr.fields["input"].variant
        return {
            "base": corr.fields["base"].variant,
            "z": inp == "Zero", "o": inp in ("One", "OneNonZero"), "n": inp in ("OneNonZero", "AnyNonZero"),
            "d": bool(corr.fields["dissatisfiable"]), "u": bool(corr.fields["unit"]),
            "s": bool(mall.fields["signed"]), "f": mall.fields["dissat"].variant == "None",
        }


def _work(args):
    from .. import facts
    F = facts.load()
    ctx, texts, maxlen = args
    T_ = Typer(F)
    out = []
    typed = 0
    runs = 0
    for text in texts:
        try:
            labels = T_.type_of(text, ctx)
        except Unsupported as e:
            out.append((ctx, text, None, ["unanalysable: %s" % e]))
            continue
        except Panic as e:
            out.append((ctx, text, None, ["panic while typing: %s" % e]))
            continue
        if labels is None:
            continue
        typed += 1
        ast = X.parse(text)
        n_runs, n_sat, n_dis, fails = TS.check(ast, ctx, labels, maxlen)
        runs += n_runs
        if fails:
            out.append((ctx, text, labels, fails))
    return ctx, typed, runs, out


RULE = {"canonical": "R06.5", "B": "R06.1", "V": "R06.1", "K": "R06.1", "W": "R06.1", "z": "R06.2", "o": "R06.2", "n": "R06.2", "u": "R06.3",
        "d": "R06.3", "s": "R06.4", "f": "R06.4"}


def run(chk):
    import multiprocessing as mp
    F = chk.facts()
    chk.explanation = __doc__
    chk.trusted = ["spec/typesem.py (label meanings), spec/msexec.py (Script semantics, consensus rules + MINIMALIF in "
                   "tapscript), spec/script.py", "C05 (typing rules == specification), C04 (encoder == templates)",
                   "rustc THIR; msverif evaluator"]
    chk.rule("R06.1", "base types B / V / K / W describe the stack shape after execution")
    chk.rule("R06.2", "z / o / n describe the consumed input")
    chk.rule("R06.3", "u: satisfied leaves exactly 1; d: a signature-free dissatisfaction exists")
    chk.rule("R06.4", "s: success needs a checked signature; f: no signature-free way to leave 0")
    chk.rule("R06.5", "composition: the specification's canonical satisfaction of every accepted B / W fragment leaves a "
                      "non-zero value and its canonical dissatisfaction leaves 0 (the shapes the combinators assume)")
    TS.selftest()
    T_ = Typer(F)
    chk.saw(T_.ft, F.fn("type_check", file="miniscript/types/mod.rs"))
    jobs = []
    nproc = min(16, os.cpu_count() or 4)
    for ctx in ("segwitv0", "tap"):
        cs = candidates(ctx, chk.tier)
        k = nproc // 2
        for i in range(k):
            jobs.append((ctx, cs[i::k], 3 if chk.tier == "quick" else 4))
    with mp.Pool(nproc) as pool:
        results = pool.map(_work, jobs, chunksize=1)
    typed = runs = 0
    bad = {}
    for ctx, t, r, out in results:
        typed += t
        runs += r
        for (c, text, labels, fails) in out:
            for msg in fails:
                lab = msg.split(":")[0]
                if lab in ("unanalysable", "panic while typing"):
                    chk.fail("R06.1", "unanalysable:%s|%s" % (c, text), msg, kind="unanalysable")
                    continue
                rule = RULE.get(lab, "R06.1")
                bad.setdefault((rule, lab, c), []).append((text, msg))
    for (rule, lab, c), items in sorted(bad.items()):
        chk.fail(rule, "%s|%s" % (lab, c), "%d fragment(s) whose `%s` label is contradicted by execution; first: %s: %s"
                 % (len(items), lab, items[0][0], items[0][1]), where="src/miniscript/types/correctness.rs",
                 detail=items[:12])
    for rule in ("R06.1", "R06.2", "R06.3", "R06.4", "R06.5"):
        if not any(k[0] == rule for k in bad):
            chk.ok(rule)
    # R06.6: labels can also be produced through the public cast constructors (Type::cast_*), which the compiler uses
    # instead of type_check; they must be the labels type_check gives the same fragment (rule shared with C08)
    from . import c08
    from ..report import RuleAlias
    chk.guard("R06.6", "casts", c08.check_casts, RuleAlias(chk, {"R08.3": "R06.6"}, "the wrapper labels produced by "
              "Type::cast_* are the ones type_check assigns (and R06.1-R06.5 judge)"), F)
    # R06.7: a fragment is only typed within a context (from_ast runs the context's per-node check): the context must
    # admit exactly the fragments whose opcodes and key kinds exist under its script rules, otherwise a fragment that
    # aborts on every stack (CHECKMULTISIG in tapscript, CHECKSIGADD before it) gets a type (rule shared with C12)
    from . import c12
    chk.guard("R06.7", "context-tables", c12.check_context_tables, RuleAlias(chk, {"R12.2c": "R06.7"}, "per-context node checks "
              "admit exactly the fragments and key kinds that can execute under the context's script rules"), F)
    # R06.8: parser, script decoder and compiler build their leaves with typed constructors that attach labels without
    # running type_check: those labels must be the ones judged above (rule shared with C05 / C09 / C12)
    from . import ctors
    chk.guard("R06.8", "typed-constructors", ctors.check_typed_constructors, chk, F, "R06.8")
    chk.extra["R06_typed_fragments"] = typed
    chk.extra["R06_executions"] = runs
    chk.floor("R06.1", "well-typed fragments", typed, 800)
    chk.floor("R06.1", "non-aborting executions", runs, 100000)
