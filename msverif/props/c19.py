"""C19 -- equality, ordering and hashing are structural and mutually consistent.

Structural clauses (DESIGN.md C19): for hand-written Eq/Ord/Hash/Clone impls, every payload and the arity of
every variant is compared / hashed / ordered / cloned, decided by evaluating the impl bodies on one-level
model values whose payloads are opaque constants (payload coverage as a decision table over
variant x field), and Eq, Ord, Hash agree on which payloads they see."""

import itertools

from .. import model, symx
from ..interp import Machine, Adt, Term, PyVec, Panic, ORDERING
from ..report import Unsupported

LEVEL = "other"
T = model.TERMINAL

# hand-written impls expected on the census types; anything else derived
EXPECTED_HAND = {
    "descriptor::tr::Tr": {"Clone", "PartialEq", "Eq", "PartialOrd", "Ord", "Hash"},
    "miniscript::decode::Terminal": {"Clone", "PartialEq", "Eq", "PartialOrd", "Ord", "Hash"},
    "miniscript::private::Miniscript": {"Clone", "PartialEq", "Eq", "PartialOrd", "Ord", "Hash"},
    "policy::concrete::Policy": {"PartialOrd", "Ord"},
    "policy::semantic::Policy": {"PartialOrd", "Ord"},
}
CENSUS_TYPES = [
    "miniscript::private::Miniscript", "miniscript::decode::Terminal", "descriptor::Descriptor",
    "descriptor::bare::Bare", "descriptor::bare::Pkh", "descriptor::segwitv0::Wpkh", "descriptor::segwitv0::Wsh",
    "descriptor::sh::Sh", "descriptor::sh::ShInner", "descriptor::tr::Tr", "descriptor::tr::taptree::TapTree",
    "primitives::threshold::Threshold", "policy::concrete::Policy", "policy::semantic::Policy",
    "primitives::absolute_locktime::AbsLockTime", "primitives::relative_locktime::RelLockTime",
    "validation::ValidationParams", "miniscript::types::Type", "miniscript::types::extra_props::ExtData",
    "miniscript::satisfy::Placeholder",
]
TRAITS = {"std::cmp::PartialEq": "PartialEq", "std::cmp::Eq": "Eq", "std::cmp::PartialOrd": "PartialOrd",
          "std::cmp::Ord": "Ord", "std::hash::Hash": "Hash", "std::clone::Clone": "Clone"}


def census(chk, F):
    rid = "R19.1"
    chk.rule(rid, "derive census: Eq/Ord/Hash/Clone of the value types are derived (consistent by construction) "
                  "except the audited hand-written impls, each of which is analysed by R19.2-R19.6")
    n = 0
    for ty in CENSUS_TYPES:
        if ty not in F.adts:
            chk.fail(rid, ty + "|missing", "type %s not found" % ty, kind="unanalysable")
            continue
        hand = set()
        have = set()
        for i in F.impls:
            if i["self_adt"] == ty and i["trait"] in TRAITS and not i["self_ty"].startswith("&"):
                have.add(TRAITS[i["trait"]])
                if not i["derived"]:
                    hand.add(TRAITS[i["trait"]])
        n += 1
        want = EXPECTED_HAND.get(ty, set())
        chk.obligation(rid, hand == want, ty,
                       "%s has hand-written impls %s; audited set is %s (a new hand-written Eq/Ord/Hash/Clone "
                       "must be analysed)" % (ty, sorted(hand), sorted(want)), F.adts[ty]["span"])
        if "PartialEq" in have and "Hash" in have:
            # Eq and Hash must both be derived or both hand-written and analysed
            chk.obligation(rid, ("PartialEq" in hand) == ("Hash" in hand), ty + "|eq-hash",
                           "%s mixes derived and hand-written PartialEq/Hash" % ty, F.adts[ty]["span"])
    chk.floor(rid, "census types", n, 20)


# ------------------------------------------------------------------ model values
def leaf_ms(tag="t"):
    return Adt(model.MS, "Miniscript", {"node": Adt(T, "True"), "ty": Term("ty"), "ext": Term("ext"), "phantom": ()})


def abslock(n):
    return Adt("primitives::absolute_locktime::AbsLockTime", "AbsLockTime",
               {"0": Adt("bitcoin::absolute::LockTime", "LockTime", {"0": n})})


def rellock(n):
    return Adt("primitives::relative_locktime::RelLockTime", "RelLockTime",
               {"0": Adt("bitcoin::Sequence", "Sequence", {"0": n})})


def payload_fields(F, variant):
    """[(field name, kind)] kind in key/hash/abs/rel/thresh_keys/thresh_nodes/child"""
    v = [x for x in F.adts[T]["variants"] if x["name"] == variant][0]
    out = []
    for fd in v["fields"]:
        ty = fd["ty"]
        if ty.startswith("std::sync::Arc<"):
            out.append((fd["name"], "child"))
        elif ty.startswith("primitives::threshold::Threshold<std::sync::Arc"):
            out.append((fd["name"], "thresh_nodes"))
        elif ty.startswith("primitives::threshold::Threshold<Pk"):
            out.append((fd["name"], "thresh_keys"))
        elif "AbsLockTime" in ty:
            out.append((fd["name"], "abs"))
        elif "RelLockTime" in ty:
            out.append((fd["name"], "rel"))
        elif ty == "Pk":
            out.append((fd["name"], "key"))
        else:
            out.append((fd["name"], "hash"))
    return out


def mk_term(F, variant, alt=None, n=2, k=1):
    """a one-level Terminal value; `alt` = (field, what) perturbs one payload"""
    fields = {}
    for name, kind in payload_fields(F, variant):
        a = alt is not None and alt[0] == name
        what = alt[1] if a else None
        if kind == "child":
            fields[name] = leaf_ms()
        elif kind == "thresh_nodes":
            kk = k + 1 if what == "k" else k
            nn = n + 1 if what == "n" else n
            fields[name] = model.threshold(kk, [leaf_ms() for _ in range(nn)])
        elif kind == "thresh_keys":
            kk = k + 1 if what == "k" else k
            nn = n + 1 if what == "n" else n
            keys = ["K%d" % i for i in range(nn)]
            if what == "key":
                keys[-1] = "KX"
            fields[name] = model.threshold(kk, keys)
        elif kind == "abs":
            fields[name] = abslock(what if isinstance(what, int) else 500)
        elif kind == "rel":
            fields[name] = rellock(what if isinstance(what, int) else 5)
        elif kind == "key":
            fields[name] = "KX" if a else "K0"
        else:
            fields[name] = "HX" if a else "H0"
    return Adt(T, variant, fields)


def perturbations(F, variant):
    out = []
    for name, kind in payload_fields(F, variant):
        if kind == "child":
            continue
        if kind == "thresh_nodes":
            out += [(name, "k"), (name, "n")]
        elif kind == "thresh_keys":
            out += [(name, "k"), (name, "n"), (name, "key")]
        elif kind == "abs":
            out += [(name, 500 ^ (1 << b)) for b in range(0, 31)]
        elif kind == "rel":
            out += [(name, 5 ^ (1 << b)) for b in range(0, 32)]
        else:
            out.append((name, "x"))
    return out


def impl_method(F, adt, trait, name):
    for i in F.impls_of(trait=trait, self_adt=adt):
        if i["self_ty"].startswith("&"):
            continue
        for it in i["items"]:
            if it["name"] == name:
                return it["path"]
    raise KeyError("impl %s for %s::%s" % (trait, adt, name))


def run_hash(m, path, v):
    h = PyVec([])
    m.call_path(path, [v, h])
    return tuple(h.items)


def check_terminal(chk, F):
    rid = "R19.2"
    chk.rule(rid, "Terminal: Eq, Ord and Hash see every payload (keys, hashes, lock times, threshold k, arity n) "
                  "of every variant and distinguish variants; decided on one-level model values by evaluating "
                  "the hand-written impl bodies")
    try:
        eqp = impl_method(F, T, "std::cmp::PartialEq", "eq")
        cmpp = impl_method(F, T, "std::cmp::Ord", "cmp")
        hashp = impl_method(F, T, "std::hash::Hash", "hash")
        clonep = impl_method(F, T, "std::clone::Clone", "clone")
    except KeyError as e:
        chk.fail(rid, "anchors", "missing anchor %s" % e, kind="unanalysable")
        return
    chk.saw(eqp, cmpp, hashp, clonep)
    m = Machine(F, strict=True)
    variants = model.variants(F)
    chk.floor(rid, "Terminal variants", len(variants), 30)

    def ev(fn, *args):
        try:
            return ("ok", fn(*args))
        except Panic as p:
            return ("panic", str(p))

    for v in variants:
        base = mk_term(F, v)
        where_eq, where_cmp, where_hash = F.fns[eqp]["span"], F.fns[cmpp]["span"], F.fns[hashp]["span"]
        try:
            r = ev(m.call_path, eqp, [base, mk_term(F, v)])
            chk.obligation(rid, r == ("ok", True), "eq|%s|same" % v, "%s == identical copy gives %r" % (v, r), where_eq)
            r = ev(m.call_path, cmpp, [base, mk_term(F, v)])
            chk.obligation(rid, r[0] == "ok" and r[1].variant == "Equal", "cmp|%s|same" % v,
                           "cmp(%s, identical copy) gives %r" % (v, r), where_cmp)
            h0 = ev(run_hash, m, hashp, base)
            for pert in perturbations(F, v):
                other = mk_term(F, v, alt=pert)
                tag = "%s|%s:%s" % (v, pert[0], pert[1] if not isinstance(pert[1], int) else "bit")
                desc = "%s values differing only in %s (%r)" % (v, {"k": "the threshold k", "n": "the number of "
                        "children/keys", "key": "one key", "x": "the payload"}.get(pert[1], "the lock-time value"), pert[1])
                r = ev(m.call_path, eqp, [base, other])
                chk.obligation(rid, r == ("ok", False), "eq|" + tag,
                               "== returns %r for %s: structurally different values compare equal" % (r[1], desc),
                               where_eq, detail={"a": repr(base), "b": repr(other)})
                r = ev(m.call_path, eqp, [other, base])
                chk.obligation(rid, r == ("ok", False), "eq-sym|" + tag,
                               "== (arguments swapped) returns %r for %s" % (r[1], desc), where_eq)
                r1 = ev(m.call_path, cmpp, [base, other])
                r2 = ev(m.call_path, cmpp, [other, base])
                good = r1[0] == "ok" and r2[0] == "ok" and r1[1].variant != "Equal" and \
                    {r1[1].variant, r2[1].variant} == {"Less", "Greater"}
                chk.obligation(rid, good, "cmp|" + tag,
                               "cmp gives %s / %s for %s: ordering does not distinguish values that differ (or is "
                               "not antisymmetric, or panics)" % (show(r1), show(r2), desc), where_cmp,
                               detail={"a": repr(base), "b": repr(other)})
                h1 = ev(run_hash, m, hashp, other)
                chk.obligation(rid, h0[0] == "ok" and h1[0] == "ok" and h0[1] != h1[1], "hash|" + tag,
                               "hash feeds identical data for %s" % desc, where_hash)
            # clone
            c = ev(m.call_path, clonep, [base])
            chk.obligation("R19.6", c[0] == "ok" and c[1] == base, "clone|" + v,
                           "Terminal::clone of %s yields %r" % (v, c[1]), F.fns[clonep]["span"])
        except Unsupported as e:
            chk.fail(rid, v + "|unanalysable", "unanalysable: %s" % e, kind="unanalysable")
    # distinct variants
    try:
        reps = {v: mk_term(F, v) for v in variants}
        for a, b in itertools.combinations(variants, 2):
            r = ev(m.call_path, eqp, [reps[a], reps[b]])
            chk.obligation(rid, r == ("ok", False), "eq|variants|%s,%s" % (a, b),
                           "%s == %s gives %r" % (a, b, r), F.fns[eqp]["span"])
            r1 = ev(m.call_path, cmpp, [reps[a], reps[b]])
            r2 = ev(m.call_path, cmpp, [reps[b], reps[a]])
            good = r1[0] == "ok" and r2[0] == "ok" and {r1[1].variant, r2[1].variant} == {"Less", "Greater"}
            # aliases sharing a fragment name are ordered by their children; both being leaves here is fine
            chk.obligation(rid, good, "cmp|variants|%s,%s" % (a, b),
                           "cmp(%s, %s) = %s, reversed %s: different fragments must be strictly and "
                           "antisymmetrically ordered" % (a, b, show(r1), show(r2)), F.fns[cmpp]["span"])
    except Unsupported as e:
        chk.fail(rid, "variants|unanalysable", "unanalysable: %s" % e, kind="unanalysable")
    chk.sample({"type": "Terminal", "experiments": "same / per-payload perturbation / variant pairs"})


def show(r):
    if r[0] == "ok":
        return r[1].variant if isinstance(r[1], Adt) else repr(r[1])
    return "panic(%s)" % r[1][:60]


def check_miniscript_delegation(chk, F):
    rid = "R19.3"
    chk.rule(rid, "Miniscript::{eq, cmp, hash} delegate to the node only (type and ext data are functions of it)")
    MSA = model.MS
    for trait, name in (("std::cmp::PartialEq", "eq"), ("std::cmp::Ord", "cmp"), ("std::hash::Hash", "hash")):
        try:
            p = impl_method(F, MSA, trait, name)
        except KeyError as e:
            chk.fail(rid, name, "missing anchor %s" % e, kind="unanalysable")
            continue
        chk.saw(p)
        body = F.thir(p)["body"]
        fields = set(n["name"] for n in symx.find_nodes(body, lambda n: n.get("k") == "field"))
        calls = [c for c in symx.callsites(F, p) if c["name"] == name]
        chk.obligation(rid, fields == {"node"} and len(calls) == 1, name,
                       "Miniscript::%s reads fields %s and makes %d delegating calls (expected: node only, 1)"
                       % (name, sorted(fields), len(calls)), F.fns[p]["span"])


def check_tr(chk, F):
    rid = "R19.4"
    chk.rule(rid, "Tr: eq, cmp, hash and clone use exactly {internal_key, tree}; spend_info (a cache) is the only "
                  "skipped field and no function other than constructors writes the two identity fields")
    TR = "descriptor::tr::Tr"
    if TR not in F.adts:
        chk.fail(rid, "Tr", "Tr not found", kind="unanalysable")
        return
    allf = set(f["name"] for f in F.adts[TR]["variants"][0]["fields"])
    ident = allf - {"spend_info"}
    chk.obligation(rid, ident == {"internal_key", "tree"}, "fields",
                   "Tr has fields %s; identity fields expected {internal_key, tree} + cache spend_info" % sorted(allf),
                   F.adts[TR]["span"])
    # decided by evaluating the impls on model values that differ in exactly one field
    from ..interp import some, NONE
    TAPTREE = "descriptor::tr::taptree::TapTree"

    def tree(names):
        return some(Adt(TAPTREE, "TapTree", {"depths_leaves": PyVec([(1, n) for n in names])}))

    def mk(key="K", tr=("l0", "l1"), cache="cache0"):
        return Adt(TR, "Tr", {"internal_key": key, "tree": tree(tr) if tr is not None else NONE, "spend_info": Term(cache)})
    base = mk()
    variants = {"internal_key": mk(key="L"), "tree": mk(tr=("l0", "l2")), "tree-none": mk(tr=None), "spend_info": mk(cache="cache1")}
    try:
        eqp = impl_method(F, TR, "std::cmp::PartialEq", "eq")
        cmpp = impl_method(F, TR, "std::cmp::Ord", "cmp")
        hashp = impl_method(F, TR, "std::hash::Hash", "hash")
        clonep = impl_method(F, TR, "std::clone::Clone", "clone")
    except KeyError as e:
        chk.fail(rid, "anchors", "missing anchor %s" % e, kind="unanalysable")
        return
    chk.saw(eqp, cmpp, hashp, clonep)
    m = Machine(F, strict=True)
    from ..interp import ok as _ok
    m.hooks["std::sync::Mutex::<T>::lock"] = lambda m_, a, c: _ok(NONE)      # the cache: empty (its content is not identity)
    m.hooks["std::sync::Mutex::<T>::new"] = lambda m_, a, c: Term("fresh-mutex", a[0])
    try:
        h0 = run_hash(m, hashp, base)
        for fld, v in variants.items():
            differs = fld != "spend_info"
            e = m.call_path(eqp, [base, v])
            chk.obligation(rid, bool(e) == (not differs), "eq|" + fld, "Tr::eq of two values differing only in %s is %r; identity is "
                           "exactly {internal_key, tree}" % (fld, e), F.fns[eqp]["span"])
            c1, c2 = m.call_path(cmpp, [base, v]).variant, m.call_path(cmpp, [v, base]).variant
            good = (c1 == "Equal" and c2 == "Equal") if not differs else ({c1, c2} == {"Less", "Greater"})
            chk.obligation(rid, good, "cmp|" + fld, "Tr::cmp of two values differing only in %s gives %s / %s" % (fld, c1, c2),
                           F.fns[cmpp]["span"])
            h1 = run_hash(m, hashp, v)
            chk.obligation(rid, (h1 == h0) == (not differs), "hash|" + fld, "Tr::hash of two values differing only in %s feeds %s "
                           "streams" % (fld, "equal" if h1 == h0 else "different"), F.fns[hashp]["span"])
        c = m.call_path(clonep, [base])
        chk.obligation(rid, isinstance(c, Adt) and repr(c.fields["internal_key"]) == repr(base.fields["internal_key"]) and
                       repr(c.fields["tree"]) == repr(base.fields["tree"]), "clone", "Tr::clone yields %r" % (c,), F.fns[clonep]["span"])
    except (Unsupported, Panic) as e:
        chk.fail(rid, "unanalysable", "unanalysable: %s" % e, kind="unanalysable")
    # writers of the identity fields
    writers = set()
    for p, b in F.bodies.items():
        if b.get("thir") is None or "::tests::" in p or "::test::" in p:
            continue
        for n in symx.find_nodes(b["thir"]["body"], lambda n: n.get("k") in ("assign", "assign_op")):
            lhs = n["l"]
            while lhs.get("k") in ("deref",):
                lhs = lhs["e"]
            if lhs.get("k") == "field" and lhs["name"] in ident and F.ty(lhs["e"]["ty"]).replace("&mut ", "").replace("&", "").startswith(TR):
                writers.add(p)
    chk.obligation(rid, not writers, "writers", "functions assign Tr's identity fields after construction: %s "
                   "(the cached spend info would go stale)" % sorted(writers))


def check_policy_ord(chk, F):
    rid = "R19.5"
    chk.rule(rid, "policy Ord (concrete and semantic): different variants are strictly ordered, equal values "
                  "compare Equal, and every payload (key, lock time, hash, threshold k, arity) is compared")
    for adt in ("policy::concrete::Policy", "policy::semantic::Policy"):
        try:
            cmpp = impl_method(F, adt, "std::cmp::Ord", "cmp")
            eqp = impl_method(F, adt, "std::cmp::PartialEq", "eq")
        except KeyError as e:
            chk.fail(rid, adt, "missing anchor %s" % e, kind="unanalysable")
            continue
        chk.saw(cmpp)
        m = Machine(F, strict=True)
        variants = F.adts[adt]["variants"]

        def mk(v, alt=None):
            fields = {}
            for fd in v["fields"]:
                ty = fd["ty"]
                a = alt is not None and alt[0] == fd["name"]
                what = alt[1] if a else None
                if ty == "Pk":
                    fields[fd["name"]] = "KX" if a else "K0"
                elif "AbsLockTime" in ty:
                    fields[fd["name"]] = abslock(what if isinstance(what, int) else 500)
                elif "RelLockTime" in ty:
                    fields[fd["name"]] = rellock(what if isinstance(what, int) else 5)
                elif ty.startswith("primitives::threshold::Threshold"):
                    kk = 2 if what == "k" else 1
                    nn = 3 if what == "n" else 2
                    fields[fd["name"]] = model.threshold(kk, [leaf_policy(adt) for _ in range(nn)])
                elif ty.startswith("std::vec::Vec<(usize, std::sync::Arc"):
                    nn = 3 if what == "n" else 2
                    w = 2 if what == "w" else 1
                    fields[fd["name"]] = PyVec([(w, leaf_policy(adt)) for _ in range(nn)])
                elif ty.startswith("std::vec::Vec<std::sync::Arc"):
                    nn = 3 if what == "n" else 2
                    fields[fd["name"]] = PyVec([leaf_policy(adt) for _ in range(nn)])
                else:
                    fields[fd["name"]] = "HX" if a else "H0"
            return Adt(adt, v["name"], fields)

        def perts(v):
            out = []
            for fd in v["fields"]:
                ty = fd["ty"]
                if "AbsLockTime" in ty:
                    out += [(fd["name"], 500 ^ (1 << b)) for b in range(31)]
                elif "RelLockTime" in ty:
                    out += [(fd["name"], 5 ^ (1 << b)) for b in range(32)]
                elif ty.startswith("primitives::threshold::Threshold"):
                    out += [(fd["name"], "k"), (fd["name"], "n")]
                elif ty.startswith("std::vec::Vec<(usize"):
                    out += [(fd["name"], "n"), (fd["name"], "w")]
                elif ty.startswith("std::vec::Vec<"):
                    out += [(fd["name"], "n")]
                else:
                    out.append((fd["name"], "x"))
            return out
        try:
            for v in variants:
                base = mk(v)
                r = m.call_path(cmpp, [base, mk(v)])
                chk.obligation(rid, r.variant == "Equal", "%s|%s|same" % (adt, v["name"]),
                               "cmp of identical %s::%s gives %s" % (adt, v["name"], r.variant), F.fns[cmpp]["span"])
                for pert in perts(v):
                    other = mk(v, pert)
                    tag = "%s|%s|%s:%s" % (adt, v["name"], pert[0], pert[1] if not isinstance(pert[1], int) else "bit")
                    try:
                        r1 = m.call_path(cmpp, [base, other])
                        r2 = m.call_path(cmpp, [other, base])
                        good = {r1.variant, r2.variant} == {"Less", "Greater"}
                        msg = "%s / %s" % (r1.variant, r2.variant)
                    except Panic as p:
                        good, msg = False, "panic: %s" % p
                    chk.obligation(rid, good, tag,
                                   "cmp of %s::%s values differing only in %s=%r gives %s (must be strictly, "
                                   "antisymmetrically ordered; == says different)" % (adt, v["name"], pert[0], pert[1], msg),
                                   F.fns[cmpp]["span"])
            for va, vb in itertools.combinations(variants, 2):
                try:
                    r1 = m.call_path(cmpp, [mk(va), mk(vb)])
                    r2 = m.call_path(cmpp, [mk(vb), mk(va)])
                    good = {r1.variant, r2.variant} == {"Less", "Greater"}
                    msg = "%s / %s" % (r1.variant, r2.variant)
                except Panic as p:
                    good, msg = False, "panic: %s" % p
                chk.obligation(rid, good, "%s|variants|%s,%s" % (adt, va["name"], vb["name"]),
                               "cmp(%s, %s) = %s" % (va["name"], vb["name"], msg), F.fns[cmpp]["span"])
        except Unsupported as e:
            chk.fail(rid, adt + "|unanalysable", "unanalysable: %s" % e, kind="unanalysable")


def leaf_policy(adt):
    return Adt(adt, "Trivial", {})


def check_ms_clone(chk, F):
    rid = "R19.6"
    chk.rule(rid, "Clone for Terminal / Miniscript rebuilds the same variant with the same payloads and children "
                  "in order (clone == original on one-level model values)")
    try:
        clonep = impl_method(F, model.MS, "std::clone::Clone", "clone")
    except KeyError as e:
        chk.fail(rid, "Miniscript::clone", "missing anchor %s" % e, kind="unanalysable")
        return
    chk.saw(clonep)
    m = Machine(F, strict=True)

    def distinct_children(t):
        # give children distinguishable payloads so that order matters
        i = 0
        for name, val in t.fields.items():
            if isinstance(val, Adt) and val.path == model.MS:
                val.fields["node"] = Adt(T, "PkK", {"0": "C%d" % i})
                i += 1
            elif isinstance(val, Adt) and val.path == model.THRESH:
                for c in val.fields["inner"].items:
                    if isinstance(c, Adt) and c.path == model.MS:
                        c.fields["node"] = Adt(T, "PkK", {"0": "C%d" % i})
                        i += 1
        return t
    for v in model.variants(F):
        t = distinct_children(mk_term(F, v, n=3, k=2))
        ms = Adt(model.MS, "Miniscript", {"node": t, "ty": Term("ty0"), "ext": Term("ext0"), "phantom": ()})
        try:
            c = m.call_path(clonep, [ms])
            # ty/ext may be recomputed or copied; the node must be identical
            good = isinstance(c, Adt) and c.path == model.MS and strip(c.fields["node"]) == strip(t)
            chk.obligation(rid, good, "Miniscript::clone|" + v,
                           "Miniscript::clone of a %s node yields %r" % (v, c.fields.get("node") if isinstance(c, Adt) else c),
                           F.fns[clonep]["span"], detail={"original": repr(t), "clone": repr(c)})
        except Panic as p:
            chk.fail(rid, "Miniscript::clone|" + v, "clone panics: %s" % p, F.fns[clonep]["span"])
        except Unsupported as e:
            chk.fail(rid, "Miniscript::clone|%s|unanalysable" % v, "unanalysable: %s" % e, kind="unanalysable")
    # Terminal has its own hand-written Clone (the node alone, children cloned through Miniscript::clone)
    try:
        tclone = impl_method(F, T, "std::clone::Clone", "clone")
    except KeyError as e:
        chk.fail(rid, "Terminal::clone", "missing anchor %s" % e, kind="unanalysable")
        return
    chk.saw(tclone)
    for v in model.variants(F):
        t = distinct_children(mk_term(F, v, n=3, k=2))
        try:
            c = m.call_path(tclone, [t])
            good = isinstance(c, Adt) and c.path == T and strip(c) == strip(t)
            chk.obligation(rid, good, "Terminal::clone|" + v, "Terminal::clone of a %s node yields %r" % (v, c),
                           F.fns[tclone]["span"], detail={"original": repr(t), "clone": repr(c)})
        except Panic as p:
            chk.fail(rid, "Terminal::clone|" + v, "clone panics: %s" % p, F.fns[tclone]["span"])
        except Unsupported as e:
            chk.fail(rid, "Terminal::clone|%s|unanalysable" % v, "unanalysable: %s" % e, kind="unanalysable")


def strip(t):
    """Terminal value with children reduced to their nodes (ignore cached ty/ext)"""
    if isinstance(t, Adt) and t.path == model.MS:
        return strip(t.fields["node"])
    if isinstance(t, Adt):
        return Adt(t.path, t.variant, {k: strip(v) for k, v in t.fields.items()})
    if isinstance(t, PyVec):
        return PyVec([strip(x) for x in t.items])
    return t


def run(chk):
    F = chk.facts()
    chk.explanation = (
        "Derived impls are structural by construction (census R19.1). For the hand-written impls (Terminal, "
        "Miniscript, Tr, policy Ord) the coverage clause is decided: evaluating the impl bodies on one-level model "
        "values with opaque payload constants shows that ==, cmp and hash each distinguish every payload field "
        "(keys, hashes, every bit of a lock time, threshold k, arity n) of every variant and every pair of "
        "variants, that cmp is antisymmetric and Equal only on identical values, and that clone rebuilds the "
        "same node. Whole-tree behaviour follows from the pre-order zip once per-node comparison and arity are "
        "covered.")
    chk.trusted = ["factgen THIR; msverif.interp"]
    chk.assumptions = ["key / hash types' own Eq/Ord/Hash are structural (opaque constants)",
                       "deep trees: decided for one level + arity; deeper nesting follows from the generic pre-order traversal"]
    census(chk, F)
    check_terminal(chk, F)
    check_miniscript_delegation(chk, F)
    check_tr(chk, F)
    check_policy_ord(chk, F)
    check_ms_clone(chk, F)
    from . import wholedesc
    chk.guard("R19.7", "whole-descriptors", wholedesc.check_identity, chk, F, "R19.7")
    # Eq / Ord / Hash of Miniscript and the policies compare pre- / post-order traversals, evaluated above through the
    # analyser's model of the iterators: the model is the source's behaviour (rule shared with C20)
    from . import c20
    from ..report import RuleAlias
    chk.guard("R19.8", "tree-iterators", c20.check_tree_iterators, RuleAlias(chk, {"R20.10": "R19.8"}, "the traversals "
              "equality, ordering and hashing compare"), F)
