"""C03 -- non-malleable satisfactions cannot be altered by third parties.

Structural clauses (DESIGN.md C03): the selection logic is the specification's
non-malleable algorithm and is the one bound in non-malleable mode."""

import itertools
import os
import sys

from .. import model, satmodel, symx
from ..interp import Machine, Adt, Term, PyVec, Panic, explore, NONE, some
from ..report import Unsupported
from . import c01, c02

sys.path.insert(0, os.path.join(os.path.dirname(__file__), "..", ".."))
from spec import satisfaction as spec  # noqa: E402

LEVEL = "other"
SAT, WIT, PH = satmodel.SAT, satmodel.WIT, satmodel.PH


def check_binding(chk, F, P):
    rid = "R03.3"
    chk.rule(rid, "sat_dissat binds the non-malleable selectors (minimum, thresh) when malleable=false and "
                  "the malleable ones when malleable=true, for every fragment with a choice")
    where = F.fns[P["sat_dissat"]]["span"]
    n = 0
    for v in model.variants(F):
        for mall in (False, True):
            try:
                res, m = satmodel.run_variant(F, v, mall, P=P, k=2 if v == "Thresh" else 1)
            except Unsupported as e:
                chk.fail(rid, v + "|unanalysable", "unanalysable: %s" % e, where, kind="unanalysable")
                continue
            for conds, r in res:
                sel = satmodel.selectors(r) if not isinstance(r, tuple) else set()
                want = {"minimum_mall", "thresh_mall"} if mall else {"minimum", "thresh"}
                if sel:
                    n += 1
                    chk.obligation(rid, sel <= want, "%s|mall=%s" % (v, mall),
                                   "sat_dissat(%s, malleable=%s) selects with %s (allowed: %s)"
                                   % (v, mall, sorted(sel), sorted(want)), where)
    chk.floor(rid, "fragments with a selection", n, 12)


def check_timelocks(chk, F, P):
    rid = "R03.2"
    chk.rule(rid, "after/older: met lock -> empty witness carrying that lock; unmet lock -> IMPOSSIBLE iff "
                  "the root is signed, else UNAVAILABLE; the root-signed flag is the script's `s` type bit")
    where = F.fns[P["sat_dissat"]]["span"]
    for v, field in (("After", "absolute_timelock"), ("Older", "relative_timelock")):
        for met in (True, False):
            try:
                res, m = satmodel.run_variant(F, v, False, P=P, locks_met=met)
            except Unsupported as e:
                chk.fail(rid, v + "|unanalysable", "unanalysable: %s" % e, where, kind="unanalysable")
                continue
            seen = set()
            for conds, r in res:
                s, d = c01.sd_parts(r)
                if s is None:
                    chk.fail(rid, v + "|shape", "unexpected %r" % (r,), where)
                    continue
                rhs = [dd for t, dd in conds if t == Term("root_has_sig")]
                g = satmodel.nf_sat(s)
                other = "relative_timelock" if field == "absolute_timelock" else "absolute_timelock"
                if met:
                    good = g == [] and s.fields[field] == some(Term("locktime")) and s.fields[other] == NONE \
                        and s.fields["has_sig"] is False
                    chk.obligation(rid, good, "%s|met" % v,
                                   "%s with the lock met yields %r with %s=%r (expected empty witness carrying "
                                   "the fragment's own lock)" % (v, g, field, s.fields[field]), where)
                else:
                    if not rhs:
                        chk.fail(rid, "%s|unmet|flag" % v, "unmet-lock result does not depend on root_has_sig", where)
                        continue
                    want = spec.IMPOSSIBLE if rhs[0] else satmodel.UNAVAILABLE
                    seen.add(rhs[0])
                    chk.obligation(rid, g == want and s.fields[field] == NONE, "%s|unmet|root_has_sig=%s" % (v, rhs[0]),
                                   "%s with the lock unmet and root_has_sig=%s yields %r, specification %s"
                                   % (v, rhs[0], g, want), where)
                chk.obligation(rid, satmodel.nf_sat(d) == spec.IMPOSSIBLE, "%s|dissat" % v,
                               "%s has a dissatisfaction %r" % (v, satmodel.nf_sat(d)), where)
            if not met:
                chk.obligation(rid, seen == {True, False}, "%s|unmet|paths" % v,
                               "unmet %s must branch on root_has_sig both ways (saw %r)" % (v, seen), where)
    # root_has_sig argument provenance: Miniscript::{satisfy, satisfy_malleable, build_template*} pass ty.mall.signed
    cnt = 0
    for name in ("satisfy", "satisfy_malleable", "build_template", "build_template_mall"):
        try:
            p = F.fn(name, file="miniscript/mod.rs", container="Miniscript")
        except KeyError as e:
            chk.fail(rid, "provenance|" + name, "missing anchor %s" % e, kind="unanalysable")
            continue
        chk.saw(p)
        for cs in symx.callsites(F, p):
            if cs["name"] in ("satisfy", "satisfy_mall", "build_template", "build_template_mall") \
                    and "Satisfaction" in (cs["container"] or ""):
                pn = symx.param_names(F, cs["callee"])
                if "root_has_sig" not in pn:
                    chk.fail(rid, "provenance|%s" % name, "%s has no root_has_sig parameter" % cs["callee"],
                             kind="unanalysable")
                    continue
                a = symx.strip_expr(cs["args"][pn.index("root_has_sig")])
                chain = []
                while a.get("k") == "field":
                    chain.append(a["name"])
                    a = symx.strip_expr(a["e"])
                good = chain == ["signed", "mall", "ty"] and a.get("name") == "self"
                cnt += 1
                chk.obligation(rid, good, "provenance|%s" % name,
                               "Miniscript::%s passes %s of %s as root_has_sig (expected self.ty.mall.signed)"
                               % (name, ".".join(reversed(chain)), a.get("name")), cs["sp"])
    chk.floor(rid, "root_has_sig call sites", cnt, 4)


def thresh_spec(k, dissats, sats):
    """Non-malleable threshold selection, stated as properties of the result (not as the library's
    sorting code): returns the set of acceptable outcomes.
       dissats/sats: [(kind, size, has_sig)]"""
    n = len(sats)
    avail = [i for i in range(n) if sats[i][0] == "STACK"]
    not_imposs = [i for i in range(n) if sats[i][0] != "IMPOSSIBLE"]
    if len(not_imposs) < k:
        return {"IMPOSSIBLE"}
    # children a third party can satisfy without a signature
    free = [i for i in range(n) if sats[i][0] != "IMPOSSIBLE" and not sats[i][2]]
    if len(free) > k:
        return {"UNAVAILABLE"}
    return {"SELECT"}


def check_thresh_algorithm(chk, F, P, tier):
    rid = "R03.4"
    chk.rule(rid, "Satisfaction::thresh (non-malleable) on n=3: IMPOSSIBLE when fewer than k children can be "
                  "satisfied by anyone; UNAVAILABLE when more than k children are satisfiable without a "
                  "signature; otherwise every signature-free satisfiable child is among the k satisfied ones, "
                  "exactly k are satisfied, the rest dissatisfied, in child order")
    m = Machine(F, strict=True)
    path = P["thresh"]
    chk.saw(path)
    where = F.fns[path]["span"]
    n = 3
    sat_kinds = [("STACK", 1, False), ("STACK", 2, True), ("STACK", 3, True), ("UNAVAILABLE", 0, False),
                 ("IMPOSSIBLE", 0, False)]
    if tier == "thorough":
        sat_kinds += [("STACK", 2, False), ("UNAVAILABLE", 0, True)]

    def mk(kind, size, hs, mark):
        if kind == "STACK":
            st = Adt(WIT, "Stack", {"0": PyVec([Adt(PH, "Pubkey", {"0": Term(mark), "1": size})])})
        else:
            st = Adt(WIT, kind.capitalize())
        return Adt(SAT, "Satisfaction", {"stack": st, "has_sig": hs, "absolute_timelock": NONE,
                                         "relative_timelock": NONE})
    bad = 0
    cells = 0
    for k in (1, 2):
        for combo in itertools.product(sat_kinds, repeat=n):
            dissats = [mk("STACK", 1, False, "D%d" % i) for i in range(n)]
            sats = [mk(c[0], c[1], c[2], "S%d" % i) for i, c in enumerate(combo)]
            try:
                r = m.call_path(path, [k, n, PyVec(dissats), PyVec(sats)])
            except Panic as p:
                # an assertion inside thresh: a reachable one is a finding for C11; for C03 it is no witness
                continue
            except Unsupported as e:
                chk.fail(rid, "thresh|unanalysable", "unanalysable: %s" % e, where, kind="unanalysable")
                return
            cells += 1
            want = thresh_spec(k, [("STACK", 1, False)] * n, list(combo))
            got = r.fields["stack"]
            gk = got.variant.upper()
            good = True
            msg = ""
            if "IMPOSSIBLE" in want or "UNAVAILABLE" in want:
                good = gk in want
                msg = "expected %s" % sorted(want)
            else:
                if gk == "STACK":
                    marks = [x.fields["0"].op for x in got.fields["0"].items
                             if isinstance(x, Adt) and x.variant == "Pubkey"]
                    # child order: last child first (bottom), first child on top
                    order_ok = [mk_[1:] for mk_ in marks] == [str(i) for i in reversed(range(n))]
                    chosen = [int(x[1:]) for x in marks if x.startswith("S")]
                    free = [i for i in range(n) if combo[i][0] != "IMPOSSIBLE" and not combo[i][2]]
                    good = order_ok and len(chosen) == k and all(i in chosen for i in free if combo[i][0] == "STACK") \
                        and all(combo[i][0] == "STACK" for i in chosen)
                    msg = "selected children %r (order ok=%s), signature-free satisfiable children %r" % (chosen, order_ok, free)
                elif gk == "UNAVAILABLE":
                    # allowed when some chosen child's witness is unavailable to us
                    good = any(c[0] == "UNAVAILABLE" for c in combo)
                    msg = "UNAVAILABLE although all needed witnesses are available"
                else:
                    good = False
                    msg = "IMPOSSIBLE although k children are satisfiable"
            if not good:
                bad += 1
                if bad <= 3:
                    chk.fail(rid, "thresh|cell", "thresh(k=%d, sats=%r) -> %r: %s" % (k, combo, got, msg), where)
            else:
                chk.ok(rid)
    chk.sample({"table": "thresh non-malleable", "cells": cells})


def run(chk):
    F = chk.facts()
    chk.explanation = (
        "Decides that the selection logic used in non-malleable mode is the specification's non-malleable "
        "algorithm: (R03.1) exact table of Satisfaction::minimum, (R03.2) time-lock availability rule and the "
        "provenance of root_has_sig, (R03.3) selector binding per mode for every fragment, (R03.4) the "
        "threshold selection on n=3 as properties of the result, (R03.5) the malleability typing table is "
        "C05's. Does not decide the universally quantified absence of an alternative witness.")
    chk.trusted = ["spec/satisfaction.py", "factgen THIR; msverif.interp"]
    chk.assumptions = ["the specification's non-malleable satisfaction algorithm is sufficient (sipa's argument)",
                       "malleability typing is the specification's (decided by C05)"]
    try:
        P = satmodel.paths(F)
    except KeyError as e:
        chk.fail("R03.1", "anchors", "missing anchor: %s" % e, kind="unanalysable")
        return
    c02.check_minimum_tables(chk, F, P, "R03.1", which=("minimum",))
    check_timelocks(chk, F, P)
    check_binding(chk, F, P)
    check_thresh_algorithm(chk, F, P, chk.tier)
    c01.check_has_sig(chk, F, P, rid="R03.6")
    from . import e2e
    chk.guard("R03.7", "e2e", e2e.check, chk, F, "R03.7", "nonmall",
              "end to end on a bounded family (~60 scripts x asset subsets): no single or double third-party edit (drop / insert / replace with 0, 1, revealed preimages, keys, zeros, junk, signatures already present) of a witness returned in non-malleable mode is accepted by the reference execution under MINIMALIF + NULLFAIL")
    # the non-malleable entry points of every output type (get_satisfaction, plan_satisfaction, satisfy, finalize ...)
    # must not route into a malleable internal: who-calls-whom rule over all mode-specific call sites (shared with C02)
    from .. import modes
    n = modes.check_modes(chk, F, "R03.8", c02.MODE_FILES)
    chk.floor("R03.8", "mode-specific call sites", n, 70)


# ---- R03.9 merging the locks of one spending path -----------------------------------------------------------------------------------

def check_lock_merge(chk, F, rid="R03.9"):
    import itertools
    from ..interp import Machine, Adt, Term, PyVec, Panic, some, NONE
    from .. import builtins as B
    from ..builtins import deref
    chk.rule(rid, "RelLockTime::max / AbsLockTime::max return the later of two locks of one unit (either of two equal ones) and "
                  "None exactly when the units differ; Satisfaction::concatenate_rev - the join of two parts of one spending "
                  "path - reports the later lock of each kind, keeps a lock only one part has, and is IMPOSSIBLE exactly when a "
                  "part is IMPOSSIBLE or two locks of one kind differ in unit (so two equal locks on one path stay available, "
                  "and the non-malleable chooser does not prefer a branch with an extra signature because of them)")
    try:
        rmax = [q for q in F.fns if q.endswith("RelLockTime::max")][0]
        amax = [q for q in F.fns if q.endswith("AbsLockTime::max")][0]
        cat = F.fn("concatenate_rev", file="satisfy/mod.rs")
    except (IndexError, KeyError) as e:
        chk.fail(rid, "anchor", "RelLockTime::max / AbsLockTime::max / concatenate_rev not found: %r" % (e,), kind="unanalysable")
        return
    chk.saw(rmax, amax, cat)
    RL = [a for a in F.adts if a.endswith("relative_locktime::RelLockTime")][0]
    AL = [a for a in F.adts if a.endswith("absolute_locktime::AbsLockTime")][0]
    TYPE = 1 << 22

    def pcmp(m_, a, c):
        x, y = deref(a[0]), deref(a[1])
        if isinstance(x, tuple) and isinstance(y, tuple) and x[0] == y[0] and x[0] in ("rel", "abs"):
            if x[0] == "rel":
                if (x[1] & TYPE) != (y[1] & TYPE):
                    return NONE
                u, v = x[1] & 0xffff, y[1] & 0xffff
            else:
                if (x[1] < 500000000) != (y[1] < 500000000):
                    return NONE
                u, v = x[1], y[1]
            return some(Adt(B.ORDERING, "Less" if u < v else ("Greater" if u > v else "Equal"), {}))
        return B.NOT_HANDLED
    hooks = {"std::cmp::PartialOrd::partial_cmp": pcmp,
             "bitcoin::Sequence::to_relative_lock_time": lambda m_, a, c: some(("rel", deref(a[0]))) if (deref(a[0]) & (1 << 31)) == 0 else NONE}
    m = Machine(F, strict=True, hooks=hooks)

    def rel(n):
        return Adt(RL, "RelLockTime", {"0": n})

    def ab(n):
        return Adt(AL, "AbsLockTime", {"0": ("abs", n)})

    def val(v):
        v = deref(v)
        x = deref(v.fields["0"])
        return x[1] if isinstance(x, tuple) else x
    n = 0
    try:
        rels = [5, 9, 9 | (1 << 16), 65535, 5 | TYPE, 9 | TYPE]
        abss = [100, 101, 499999999, 500000000, 500000007]
        for (mk, fn_, vals, unit, num) in ((rel, rmax, rels, lambda x: x & TYPE, lambda x: x & 0xffff),
                                           (ab, amax, abss, lambda x: x >= 500000000, lambda x: x)):
            bad = []
            for x, y in itertools.product(vals, repeat=2):
                r = m.call_path(fn_, [mk(x), mk(y)])
                n += 1
                if unit(x) != unit(y):
                    good = r.variant == "None"
                else:
                    good = r.variant == "Some" and num(val(r.fields["0"])) == max(num(x), num(y)) and val(r.fields["0"]) in (x, y)
                if not good:
                    bad.append("max(%d, %d) = %r" % (x, y, r))
            chk.obligation(rid, not bad, fn_.rsplit("::", 2)[-2] + "::max", "%d pair(s); first: %s" % (len(bad), bad[0] if bad else ""),
                           F.fns[fn_]["span"], detail=bad[:8])
        # concatenate_rev
        WIT = satmodel.WIT
        SATN = satmodel.SAT

        def sat(stack, r_, a_, sig=False):
            st = Adt(WIT, "Impossible", {}) if stack is None else Adt(WIT, "Stack", {"0": PyVec(list(stack))})
            return Adt(SATN, "Satisfaction", {"stack": st, "has_sig": sig, "relative_timelock": NONE if r_ is None else some(rel(r_)),
                                              "absolute_timelock": NONE if a_ is None else some(ab(a_))})
        bad = []
        ropts = [None, 5, 9, 5 | TYPE]
        aopts = [None, 100, 500000007]
        for (r1, a1), (r2, a2) in itertools.product(itertools.product(ropts, aopts), repeat=2):
            for imp in (None, 1, 2):
                s1 = sat(None if imp == 1 else ["x1"], r1, a1, sig=True)
                s2 = sat(None if imp == 2 else ["x2"], r2, a2)
                r = m.call_callee({"def": cat, "resolved": cat, "name": "concatenate_rev", "targs": ["PK"]}, [s1, s2])
                n += 1
                conflict = (r1 is not None and r2 is not None and (r1 & TYPE) != (r2 & TYPE)) or \
                    (a1 is not None and a2 is not None and (a1 >= 500000000) != (a2 >= 500000000))
                st = deref(r.fields["stack"])
                if imp is not None or conflict:
                    if st.variant != "Impossible":
                        bad.append("parts (%s,%s)+(%s,%s)%s: %s, expected IMPOSSIBLE" % (r1, a1, r2, a2, " one part impossible" if imp else "", st.variant))
                    continue
                wr = None if r1 is None and r2 is None else max(x for x in (r1, r2) if x is not None)
                wa = None if a1 is None and a2 is None else max(x for x in (a1, a2) if x is not None)
                gr = r.fields["relative_timelock"]
                ga = r.fields["absolute_timelock"]
                gotr = None if gr.variant == "None" else val(gr.fields["0"])
                gota = None if ga.variant == "None" else val(ga.fields["0"])
                if st.variant != "Stack" or gotr != wr or gota != wa or r.fields["has_sig"] is not True:
                    bad.append("parts (%s,%s)+(%s,%s): witness %s, locks (%s,%s), has_sig %r; expected a stack with locks (%s,%s)"
                               % (r1, a1, r2, a2, st.variant, gotr, gota, r.fields["has_sig"], wr, wa))
        chk.obligation(rid, not bad, "concatenate_rev", "%d case(s); first: %s" % (len(bad), bad[0] if bad else ""), F.fns[cat]["span"], detail=bad[:8])
    except Unsupported as e:
        chk.fail(rid, "unanalysable", "unanalysable: %s" % e, where=e.where, kind="unanalysable")
    except Panic as e:
        chk.fail(rid, "panic", "panic: %s" % e, where="src/miniscript/satisfy/mod.rs")
    chk.floor(rid, "cases", n, 400)


_run0 = run


def run(chk):
    _run0(chk)
    chk.guard("R03.9", "lock-merge", check_lock_merge, chk, chk.facts())
    # non-malleability of a script with a repeated key does not follow from its type: the sane parameters refuse such
    # scripts through has_repeated_keys, which must see every repetition (rule shared with C12)
    from . import c12
    chk.guard("R03.10", "defect-predicates", c12.check_defect_predicates, chk, chk.facts(), "R03.10")
    # the non-malleable chooser drops a signature-free alternative only when its lock is really out of reach: the satisfier a
    # PSBT is finalized with must report every lock the transaction meets (BIP-68 / BIP-65 tables shared with C14 / C02)
    from . import c14
    from ..report import RuleAlias
    chk.guard("R03.11", "psbt-locks", c14.check_locks, RuleAlias(chk, {"R14.1": "R03.11"}, "PsbtInputSatisfier::check_older / "
              "check_after: a lock the transaction meets is reported as met (a lock wrongly reported unmet under a signed root "
              "makes the non-malleable satisfier spend a signature where the time-lock path would do)"), chk.facts())
