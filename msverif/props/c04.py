"""C04 -- script encoding and decoding are inverse and canonical; size predicted exactly.

Structural clauses (DESIGN.md C04): writer template = specification; size function is the length
homomorphism of the writer; the lexer's table is total over the writer's alphabet, splits exactly the
fused opcodes, rejects exactly the non-minimal VERIFY forms; decoder passes the validation gates."""

import os
import re
import sys

from .. import model, scriptmodel, symx, linform
from ..interp import Machine, Adt, Term, PyVec, PyIter, Panic, explore, ok, err, RESULT
from ..report import Unsupported

sys.path.insert(0, os.path.join(os.path.dirname(__file__), "..", ".."))
from spec import script as spec  # noqa: E402

LEVEL = "other"
NARY = ("Thresh", "Multi", "SortedMulti", "MultiA", "SortedMultiA")


def spec_tokens(v, n):
    if v == "Thresh":
        return spec.thresh_tmpl(n)
    if v in ("Multi", "SortedMulti"):
        return spec.multi_tmpl(n)
    if v in ("MultiA", "SortedMultiA"):
        return spec.multi_a_tmpl(n)
    return spec.TEMPLATES[v]


def tokens_match(v, got, want):
    """compare extracted tokens with the oracle's; returns (ok, message)"""
    if len(got) != len(want):
        return False, "length %d vs %d" % (len(got), len(want))
    for i, (g, w) in enumerate(zip(got, want)):
        if w[0] == "key":
            if g[0] != "key":
                return False, "token %d is %r, expected a key push" % (i, g)
            kind, kr = g[1], g[2]
            if kr is None:
                return False, "token %d: key provenance unknown %r" % (i, g)
            want_sort = {"SortedMulti": "sorted67", "SortedMultiA": "sorted67x"}.get(v, "plain")
            if kr[0] != want_sort or kr[1] != w[1]:
                return False, "token %d pushes key %r, expected key #%d (%s)" % (i, kr, w[1], want_sort)
            want_kind = "key_full" if v in ("Multi", "SortedMulti") else "key_ctx"
            if kind != want_kind:
                return False, "token %d uses %s serialisation, expected %s" % (i, kind, want_kind)
        elif tuple(g) != tuple(w):
            return False, "token %d is %r, specification %r" % (i, g, w)
    return True, ""


def extract_all(chk, F, P, rid, n=3):
    out = {}
    where = F.fns[P["encode"]]["span"]
    for v in model.variants(F):
        try:
            res, m = scriptmodel.run_encode(F, v, n=n, P=P)
        except Unsupported as e:
            chk.fail(rid, v + "|unanalysable", "unanalysable: %s" % e, where, kind="unanalysable")
            continue
        chk.saw(*m.called)
        goodp = []
        for conds, r in res:
            if isinstance(r, tuple) and r and r[0] == "panic":
                # debug_assert!(Ctx::sig_type() == ..) in the multi arms: the asserted belief is a
                # context precondition (C12); follow the non-panicking path
                continue
            goodp.append(scriptmodel.nf_tokens(r))
        if len(goodp) != 1 or goodp[0] is None:
            chk.fail(rid, v + "|paths", "encode(%s) has %d non-panicking symbolic paths (expected 1)"
                     % (v, len(goodp)), where, kind="unanalysable")
            continue
        out[v] = goodp[0]
    return out


def check_templates(chk, F, P):
    rid = "R04.1"
    chk.rule(rid, "the opcode/push template emitted by Terminal::encode for every fragment equals the "
                  "specification's script template (children in order, keys in order / BIP67-sorted)")
    where = F.fns[P["encode"]]["span"]
    toks = extract_all(chk, F, P, rid)
    for v, got in sorted(toks.items()):
        want = spec_tokens(v, 3)
        good, msg = tokens_match(v, got, want)
        chk.obligation(rid, good, v, "encode(%s): %s; emitted %r" % (v, msg, got), where,
                       detail={"variant": v, "got": repr(got), "want": repr(want)})
        if v in ("AndOr", "Sha256", "MultiA"):
            chk.sample({"variant": v, "template": [spec.OPNAME.get(t[1], t[1]) if t[0] == "op" else t for t in got]})
    chk.floor(rid, "Terminal variants", len(toks), 30)
    return toks


def size_atom(t):
    s = repr(t)
    if isinstance(t, Term) and t.op == "call":
        name = str(t.args[0])
        if name.endswith("::pk_len"):
            return "pklen"
        if name.endswith("script_num_size"):
            a = t.args[1]
            if isinstance(a, int):
                return {1: spec.script_num_size(a)}
            sa = repr(a)
            if "locktime" in sa:
                return "numsize(locktime)"
            if re.fullmatch(r"(cast\()?k(, '?\w+'?\))?", sa) or sa == "k":
                return "numsize(k)"
            return "numsize(%s)" % sa
    if isinstance(t, Term) and t.op in ("into", "cast") and "has_free_verify" in s:
        # usize::from(!sub.ext.has_free_verify)
        inner = t.args[0]
        if isinstance(inner, Term) and inner.op == "not":
            return "verify_unfused"
    if isinstance(t, Term) and t.op == "call" and "From" in str(t.args[0]) and "has_free_verify" in s:
        inner = t.args[1]
        if isinstance(inner, Term) and inner.op == "not":
            return "verify_unfused"
    return None


def template_size(tokens):
    """length homomorphism of a template, children excluded"""
    f = {}
    for t in tokens:
        if t[0] == "op":
            f = linform.add(f, {1: 1})
        elif t[0] == "num":
            if isinstance(t[1], int):
                f = linform.add(f, {1: spec.script_num_size(t[1])})
            else:
                f = linform.add(f, {"numsize(%s)" % t[1]: 1})
        elif t[0] == "push":
            f = linform.add(f, {1: t[1] + 1})
        elif t[0] == "keyhash":
            f = linform.add(f, {1: 21})
        elif t[0] == "key":
            f = linform.add(f, {"pklen": 1})
        elif t[0] == "verify":
            f = linform.add(f, {"verify_unfused": 1})
        elif t[0] == "child":
            pass
        else:
            raise Unsupported("token %r" % (t,))
    return f


def check_script_size(chk, F, P, toks_by_n):
    rid = "R04.2"
    chk.rule(rid, "Miniscript::script_size's per-fragment term is the length image of the encoder's template "
                  "(opcode 1, hash push 21/33, number push script_num_size, key Ctx::pk_len, v: 0 when fused)")
    try:
        ss = F.fn("script_size", file="miniscript/mod.rs", container="Miniscript")
        poi = F.fn("pre_order_iter", file="iter/tree.rs")
    except KeyError as e:
        chk.fail(rid, "anchors", "missing anchor: %s" % e, kind="unanalysable")
        return
    chk.saw(ss)
    where = F.fns[ss]["span"]
    for n, toks in sorted(toks_by_n.items()):
        for v in model.variants(F):
            if n != 3 and v not in NARY:
                continue
            if v not in toks:
                continue
            t = model.terminal(F, v, n=n, sym_k=True)
            ms = model.miniscript(t)

            def unint(p, callee):
                tr = callee.get("trait") or ""
                if tr.endswith("ScriptContext") and not callee.get("resolved"):
                    return True
                return p.endswith("script_num_size")
            m = Machine(F, strict=False, hooks={poi: lambda mm, a, c: PyIter([ms])}, uninterpreted=unint)
            try:
                res = explore(m, lambda: m.call_path(ss, [ms]))
            except Unsupported as e:
                chk.fail(rid, v + "|unanalysable", "unanalysable: %s" % e, where, kind="unanalysable")
                continue
            if len(res) != 1:
                chk.fail(rid, v + "|paths", "script_size(%s): %d symbolic paths" % (v, len(res)), where,
                         kind="unanalysable")
                continue
            try:
                got = linform.lin(res[0][1], size_atom)
                want = template_size(toks[v])
            except (linform.NotLinear, Unsupported) as e:
                chk.fail(rid, v + "|form", "size expression not linear: %s" % e, where, kind="unanalysable")
                continue
            # numsize(n) for concrete n was folded on both sides
            key = "%s|n=%d" % (v, n) if v in NARY else v
            chk.obligation(rid, got == want, key,
                           "script_size(%s) = %s but the encoder's template has length %s"
                           % (v, linform.show(got), linform.show(want)), where,
                           detail={"variant": v, "n": n, "script_size": linform.show(got), "template": linform.show(want)})
            if v in ("Thresh", "Multi", "OrD") and n == 3:
                chk.sample({"variant": v, "script_size": linform.show(got)})


def check_num_size(chk, F):
    rid = "R04.2n"
    chk.rule(rid, "script_num_size equals the minimal number-push size on all boundary values")
    try:
        p = F.fn("script_num_size", file="lib.rs")
    except KeyError as e:
        chk.fail(rid, "anchor", "missing anchor %s" % e, kind="unanalysable")
        return
    chk.saw(p)
    m = Machine(F, strict=True)
    vals = set()
    for b in (0, 1, 16, 17, 0x7f, 0x80, 0x7fff, 0x8000, 0x7fffff, 0x800000, 0x7fffffff, 0x80000000, 0xffffffff):
        for d in (-1, 0, 1):
            if b + d >= 0:
                vals.add(b + d)
    for x in sorted(vals):
        try:
            got = m.call_path(p, [x])
        except (Unsupported, Panic) as e:
            chk.fail(rid, "unanalysable", "unanalysable: %s" % e, kind="unanalysable")
            return
        chk.obligation(rid, got == spec.script_num_size(x), "script_num_size",
                       "script_num_size(%d) = %r, a minimal push needs %d bytes" % (x, got, spec.script_num_size(x)),
                       F.fns[p]["span"])


def check_pk_len(chk, F):
    rid = "R04.2k"
    chk.rule(rid, "Ctx::pk_len is 1 + serialized key length for the key kind of each context "
                  "(34/66 Legacy+Bare, 34 Segwitv0, 33 Tap)")
    want = {"Legacy": {True: 66, False: 34}, "BareCtx": {True: 66, False: 34},
            "Segwitv0": {True: 34, False: 34}, "Tap": {True: 33, False: 33}}
    cnt = 0
    for ctx, tab in want.items():
        ps = [p for p in F.fn("pk_len", file="miniscript/context.rs", allow_many=True)
              if ("::%s as " % ctx) in p]
        if len(ps) != 1:
            chk.fail(rid, ctx + "|anchor", "pk_len for %s not found" % ctx, kind="unanalysable")
            continue
        chk.saw(ps[0])
        for unc in (True, False):
            m = Machine(F, strict=False, hooks={"MiniscriptKey::is_uncompressed": lambda mm, a, c, u=unc: u})
            try:
                got = m.call_path(ps[0], [Term("pk")])
            except (Unsupported, Panic) as e:
                chk.fail(rid, ctx + "|unanalysable", "unanalysable: %s" % e, kind="unanalysable")
                continue
            if ctx in ("Segwitv0", "Tap") and unc:
                # uncompressed keys are not allowed in these contexts (C12): any value is fine
                chk.ok(rid)
                continue
            cnt += 1
            chk.obligation(rid, got == tab[unc], "%s|uncompressed=%s" % (ctx, unc),
                           "%s::pk_len(uncompressed=%s) = %r, key push is %d bytes" % (ctx, unc, got, tab[unc]),
                           F.fns[ps[0]]["span"])
    chk.floor(rid, "pk_len cells", cnt, 6)


# ---------------------------------------------------------------- lexer
OPC = "bitcoin::Opcode"
INS = "bitcoin::script::Instruction"


def lex_run(F, lexp, instrs):
    """evaluate lex on a script given as an instruction list -> ('ok', [token names]) | ('err', variant)"""
    def instr_iter(m, a, c):
        return PyIter([ok(i) for i in instrs])
    hooks = {
        "bitcoin::Script::instructions_minimal": instr_iter,
        "bitcoin::Script::len": lambda m, a, c: len(instrs),
        "bitcoin::script::PushBytes::as_bytes": lambda m, a, c: a[0],
        "bitcoin::script::read_scriptint": read_scriptint,
        "<bitcoin::script::PushBytes as std::borrow::ToOwned>::to_owned": lambda m, a, c: a[0],
    }
    m = Machine(F, strict=True, hooks=hooks)
    r = m.call_path(lexp, [Term("script")])
    if r.variant == "Ok":
        out = []
        for t in r.fields["0"].items:
            if t.variant == "Num":
                out.append("Num(%d)" % t.fields["0"])
            elif t.fields:
                out.append("%s[%d]" % (t.variant, len(t.fields["0"].items)))
            else:
                out.append(t.variant)
        return "ok", out
    return "err", r.fields["0"].variant


def read_scriptint(m, a, c):
    b = a[0].items if isinstance(a[0], PyVec) else a[0]
    ERR = "bitcoin::script::Error"
    if len(b) == 0:
        return ok(0)
    if len(b) > 4:
        return err(Adt(ERR, "NumericOverflow"))
    last = b[-1]
    if (last & 0x7f) == 0 and (len(b) <= 1 or (b[-2] & 0x80) == 0):
        return err(Adt(ERR, "NonMinimalPush"))
    v = 0
    for i, x in enumerate(b):
        v |= x << (8 * i)
    if last & 0x80:
        v &= ~(0x80 << (8 * (len(b) - 1)))
        v = -v
    return ok(v)


def try_into_hook(m, a, c):
    """<&[u8] as TryInto<[u8; N]>>::try_into"""
    targs = c.get("targs") or []
    mm = re.search(r"\[u8; (\d+)\]", " ".join(targs))
    b = a[0]
    if not mm or not isinstance(b, PyVec):
        raise Unsupported("try_into %r" % (targs,))
    n = int(mm.group(1))
    return ok(PyVec(list(b.items))) if len(b.items) == n else err(Adt("std::array::TryFromSliceError", "TryFromSliceError"))


def check_lexer(chk, F, emitted_ops):
    rid = "R04.3"
    chk.rule(rid, "lexer table: total over the encoder's opcode alphabet, opcode -> token(s) as specified, fused "
                  "...VERIFY opcodes split into [X, Verify], a separate VERIFY after a fusable opcode rejected, "
                  "every other opcode rejected, push classes 20/32/33/65 distinct, numbers minimal and non-negative")
    try:
        lexp = F.fn("lex", file="miniscript/lex.rs")
    except KeyError as e:
        chk.fail(rid, "anchor", "missing anchor %s" % e, kind="unanalysable")
        return
    chk.saw(lexp)
    where = F.fns[lexp]["span"]
    from .. import builtins
    builtins.TRAIT_TABLE[("std::convert::TryInto", "try_into")] = try_into_hook
    builtins.SEMANTIC_FIRST.add(("std::convert::TryInto", "try_into"))

    def op(code):
        return Adt(INS, "Op", {"0": Adt(OPC, "Opcode", {"code": code})})

    def push(nbytes, fill=1):
        return Adt(INS, "PushBytes", {"0": PyVec([fill] * nbytes)})
    try:
        # (a)+(b): every opcode byte
        for code in range(256):
            if 0x01 <= code <= 0x4e:
                continue  # push opcodes never appear as Instruction::Op
            k, r = lex_run(F, lexp, [op(code)])
            want = spec.LEX.get(code)
            if want is None:
                chk.obligation(rid, k == "err", "opcode|%#04x" % code,
                               "opcode %#04x is outside Miniscript but lexes to %r" % (code, r), where)
            else:
                chk.obligation(rid, k == "ok" and r == want, "opcode|%s" % spec.OPNAME.get(code, hex(code)),
                               "opcode %s lexes to %r, specification %r" % (spec.OPNAME.get(code, hex(code)), r, want),
                               where)
        # totality over what the encoder emits (incl. fused forms)
        alphabet = set(emitted_ops) | set(spec.FUSED[x] for x in emitted_ops if x in spec.FUSED)
        for code in sorted(alphabet):
            k, r = lex_run(F, lexp, [op(code)])
            chk.obligation(rid, k == "ok", "alphabet|%s" % spec.OPNAME.get(code, hex(code)),
                           "the encoder emits opcode %s which the lexer rejects (%r)" % (spec.OPNAME.get(code, hex(code)), r),
                           where)
        # (c) non-minimal VERIFY
        for code in sorted(spec.LEX):
            if code == spec.OP["VERIFY"]:
                continue
            k, r = lex_run(F, lexp, [op(code), op(spec.OP["VERIFY"])])
            name = spec.OPNAME.get(code, hex(code))
            if code in spec.NON_MINIMAL_VERIFY_AFTER:
                chk.obligation(rid, k == "err" and r == "NonMinimalVerify", "nonminimal|%s" % name,
                               "`%s VERIFY` (two opcodes) is accepted by the lexer as %r although the fused opcode "
                               "%sVERIFY exists: a non-canonical script decodes" % (name, r, name), where,
                               detail={"opcode": name, "lexed": r})
            else:
                chk.obligation(rid, k == "ok" and r == spec.LEX[code] + ["Verify"], "verify-after|%s" % name,
                               "`%s VERIFY` lexes to %r (%s)" % (name, r, k), where)
        # (d) pushes
        for nbytes, tok in ((20, "Hash20[20]"), (32, "Bytes32[32]"), (33, "Bytes33[33]"), (65, "Bytes65[65]")):
            k, r = lex_run(F, lexp, [push(nbytes)])
            chk.obligation(rid, k == "ok" and r == [tok], "push|%d" % nbytes,
                           "a %d-byte push lexes to %r, expected %s" % (nbytes, r, tok), where)
        for data, want in (([17], ("ok", ["Num(17)"])), ([0x80, 0x00], ("ok", ["Num(128)"])),
                           ([0xff, 0xff, 0xff, 0x7f], ("ok", ["Num(2147483647)"])),
                           ([0x81], ("err", "NegativeInt")), ([0x05, 0x00], ("err", "InvalidInt")),
                           ([1, 2, 3, 4, 5], ("err", "InvalidInt")), ([0x00], ("err", "InvalidInt"))):
            k, r = lex_run(F, lexp, [Adt(INS, "PushBytes", {"0": PyVec(list(data))})])
            chk.obligation(rid, (k, r) == want, "pushnum|%s" % bytes(data).hex(),
                           "push %s lexes to %s %r, expected %r" % (bytes(data).hex(), k, r, want), where)
    except (Unsupported, Panic) as e:
        chk.fail(rid, "lex|unanalysable", "unanalysable: %s" % e, where, kind="unanalysable")
    finally:
        builtins.TRAIT_TABLE.pop(("std::convert::TryInto", "try_into"), None)
    # (e) iteration is instructions_minimal
    names = [c["callee"] for c in symx.callsites(F, lexp)]
    chk.obligation(rid, "bitcoin::Script::instructions_minimal" in names and "bitcoin::Script::instructions" not in names,
                   "iteration", "lex must iterate with Script::instructions_minimal (rejects non-minimal pushes)", where)
    chk.sample({"lexer": "256 opcodes, %d VERIFY pairs, push classes" % len(spec.LEX)})


def check_sizes_shared(chk, F):
    """R04.1 + R04.2 for use by other properties (C09 relies on script_size in every limit and weight)"""
    P = scriptmodel.paths(F)
    toks = check_templates(chk, F, P)
    toks17 = {}
    for v in NARY:
        res, m = scriptmodel.run_encode(F, v, n=17, P=P)
        good = [scriptmodel.nf_tokens(r) for c, r in res if not (isinstance(r, tuple) and r and r[0] == "panic")]
        if len(good) == 1:
            toks17[v] = good[0]
    check_script_size(chk, F, P, {3: toks, 17: toks17})
    check_num_size(chk, F)


# ---- R04.6 the context's key pushes ------------------------------------------------------------------------------------

def check_key_pushes(chk, F):
    from ..interp import Machine, Adt, Term, PyVec, Panic
    from ..builtins import deref
    rid = "R04.6"
    chk.rule(rid, "MsKeyBuilder::push_ms_key / push_ms_key_hash (the pushes Terminal::encode uses for keys) and "
                  "ToPublicKey::to_pubkeyhash: in an ECDSA context the key is pushed in its own serialization (33 bytes when "
                  "compressed, 65 when not) and hashed over those same bytes; in the Schnorr context the 32-byte x-only "
                  "serialization is pushed / hashed; decided on a compressed and an uncompressed key by evaluating the "
                  "functions with byte-form models of rust-bitcoin's key serializers")
    try:
        pmk = [q for q in F.fn("push_ms_key", file="util.rs", allow_many=True) if " as " in q or "Builder" in q]
        pmh = [q for q in F.fn("push_ms_key_hash", file="util.rs", allow_many=True) if " as " in q or "Builder" in q]
    except KeyError as e:
        chk.fail(rid, "anchor", "missing %s" % e, kind="unanalysable")
        return
    pmk = [q for q in pmk if q in F.bodies]
    pmh = [q for q in pmh if q in F.bodies]
    tph = [q for q in F.fns if q.endswith("ToPublicKey::to_pubkeyhash") and q in F.bodies]
    if len(pmk) != 1 or len(pmh) != 1 or len(tph) != 1:
        chk.fail(rid, "anchor", "push_ms_key / push_ms_key_hash / to_pubkeyhash bodies: %r %r %r" % (pmk, pmh, tph), kind="unanalysable")
        return
    chk.saw(pmk[0], pmh[0], tph[0])

    def form(pk, which):
        """bytes of a key in a given form; `own` = by its compressed flag"""
        pk = deref(pk)
        name, comp = pk.fields["inner"], pk.fields["compressed"]
        if which == "own":
            which = "compressed" if comp else "uncompressed"
        return ("bytes", name, which)
    m = Machine(F, strict=True)
    h = m.hooks
    h["bitcoin::script::Builder::push_key"] = lambda m_, a, c: PyVec(list(deref(a[0]).items) + [form(a[1], "own")])
    h["bitcoin::script::Builder::push_slice"] = lambda m_, a, c: PyVec(list(deref(a[0]).items) + [deref(a[1])])
    h["bitcoin::PublicKey::to_bytes"] = lambda m_, a, c: form(a[0], "own")
    h["bitcoin::PublicKey::pubkey_hash"] = lambda m_, a, c: ("hash160", form(a[0], "own"))
    h["bitcoin::secp256k1::PublicKey::serialize"] = lambda m_, a, c: ("bytes", deref(a[0]), "compressed")
    h["bitcoin::secp256k1::PublicKey::serialize_uncompressed"] = lambda m_, a, c: ("bytes", deref(a[0]), "uncompressed")
    h["bitcoin::XOnlyPublicKey::serialize"] = lambda m_, a, c: ("bytes", deref(a[0])[1], "x-only")
    h["bitcoin::secp256k1::XOnlyPublicKey::serialize"] = h["bitcoin::XOnlyPublicKey::serialize"]
    h["ToPublicKey::to_public_key"] = lambda m_, a, c: deref(a[0])
    h["ToPublicKey::to_x_only_pubkey"] = lambda m_, a, c: ("xonly", deref(a[0]).fields["inner"])
    for nm in ("bitcoin::PubkeyHash::hash", "bitcoin::hashes::Hash::hash", "bitcoin::bitcoin_hashes::Hash::hash",
               "bitcoin::hashes::hash160::Hash::hash", "bitcoin::bitcoin_hashes::hash160::Hash::hash"):
        h[nm] = lambda m_, a, c: ("hash160", deref(a[0]))
    h["<bitcoin::PubkeyHash as bitcoin::bitcoin_hashes::Hash>::hash"] = lambda m_, a, c: ("hash160", deref(a[0]))
    CTXS = {"Legacy": "ecdsa", "Segwitv0": "ecdsa", "BareCtx": "ecdsa", "Tap": "schnorr"}
    SIG = {"ecdsa": "Ecdsa", "schnorr": "Schnorr"}
    for ctx, kind in CTXS.items():
        ctxp = "miniscript::context::" + ctx
        for kname, comp in (("K", True), ("U", False)):
            key = Adt("bitcoin::PublicKey", "PublicKey", {"compressed": comp, "inner": kname})
            want_bytes = ("bytes", kname, "x-only") if kind == "schnorr" else ("bytes", kname, "compressed" if comp else "uncompressed")
            try:
                r = m.call_callee({"def": pmk[0], "resolved": pmk[0], "name": "push_ms_key", "targs": ["bitcoin::PublicKey", ctxp]},
                                  [PyVec([]), key])
                got = list(deref(r).items)
                chk.obligation(rid, got == [want_bytes], "push_ms_key|%s|%s" % (ctx, "compressed" if comp else "uncompressed"),
                               "push_ms_key in %s pushes %r for a %s key, expected %r" % (ctx, got, "compressed" if comp else "uncompressed", want_bytes),
                               F.fns[pmk[0]]["span"])
                r = m.call_callee({"def": pmh[0], "resolved": pmh[0], "name": "push_ms_key_hash", "targs": ["bitcoin::PublicKey", ctxp]},
                                  [PyVec([]), key])
                got = list(deref(r).items)
                chk.obligation(rid, got == [("hash160", want_bytes)], "push_ms_key_hash|%s|%s" % (ctx, "compressed" if comp else "uncompressed"),
                               "push_ms_key_hash in %s pushes %r, expected the HASH160 of %r" % (ctx, got, want_bytes), F.fns[pmh[0]]["span"])
            except (Unsupported, Panic) as e:
                chk.fail(rid, "unanalysable:%s|%s" % (ctx, kname), "unanalysable: %s" % e, where=getattr(e, "where", ""), kind="unanalysable")
    for kind in ("ecdsa", "schnorr"):
        for kname, comp in (("K", True), ("U", False)):
            key = Adt("bitcoin::PublicKey", "PublicKey", {"compressed": comp, "inner": kname})
            want_bytes = ("bytes", kname, "x-only") if kind == "schnorr" else ("bytes", kname, "compressed" if comp else "uncompressed")
            try:
                r = m.call_callee({"def": tph[0], "resolved": tph[0], "name": "to_pubkeyhash", "targs": ["bitcoin::PublicKey"]},
                                  [key, Adt("miniscript::context::SigType", SIG[kind], {})])
                chk.obligation(rid, deref(r) == ("hash160", want_bytes), "to_pubkeyhash|%s|%s" % (kind, kname),
                               "to_pubkeyhash(%s) of a %s key hashes %r, expected %r" % (kind, "compressed" if comp else "uncompressed", deref(r), want_bytes),
                               F.fns[tph[0]]["span"])
            except (Unsupported, Panic) as e:
                chk.fail(rid, "unanalysable:to_pubkeyhash|%s|%s" % (kind, kname), "unanalysable: %s" % e, where=getattr(e, "where", ""), kind="unanalysable")
    # the key types' own conversions (what `to_public_key` / `to_x_only_pubkey` were taken to be above)
    m2 = Machine(F, strict=True)
    h2 = m2.hooks
    h2["bitcoin::PublicKey::new"] = lambda m_, a, c: Adt("bitcoin::PublicKey", "PublicKey", {"compressed": True, "inner": deref(a[0])})
    h2["bitcoin::PublicKey::from_slice"] = lambda m_, a, c: Adt("std::result::Result", "Ok", {"0": ("key-from-bytes", [deref(x) for x in deref(a[0]).items])})
    h2["bitcoin::secp256k1::XOnlyPublicKey::serialize"] = lambda m_, a, c: PyVec([("xbyte", deref(a[0]), i) for i in range(32)])
    h2["bitcoin::XOnlyPublicKey::serialize"] = h2["bitcoin::secp256k1::XOnlyPublicKey::serialize"]
    for nm in ("<bitcoin::secp256k1::XOnlyPublicKey as std::convert::From<bitcoin::secp256k1::PublicKey>>::from",
               "<bitcoin::XOnlyPublicKey as std::convert::From<bitcoin::secp256k1::PublicKey>>::from",
               "bitcoin::secp256k1::XOnlyPublicKey::from", "bitcoin::XOnlyPublicKey::from"):
        h2[nm] = lambda m_, a, c: ("xonly-of", deref(a[0]))
    from .. import builtins as B_
    saved_from = B_.TRAIT_TABLE.get(("std::convert::From", "from"))

    def from_hook(m_, a, c):
        st = " ".join([c.get("self_ty") or ""] + (c.get("targs") or []))
        if "XOnlyPublicKey" in st:
            return ("xonly-of", deref(a[0]))
        return saved_from(m_, a, c) if saved_from else B_.NOT_HANDLED
    B_.TRAIT_TABLE[("std::convert::From", "from")] = from_hook
    try:
        imps = {i.get("self_adt") or i.get("self_ty"): {it["name"]: it["path"] for it in i["items"]} for i in F.impls
                if (i["trait"] or "").endswith("ToPublicKey")}
        dflt = [q for q in F.fns if q.endswith("ToPublicKey::to_x_only_pubkey") and q in F.bodies and " as " not in q]
        FULL = Adt("bitcoin::PublicKey", "PublicKey", {"compressed": False, "inner": "S"})
        want_x = [2] + [("xbyte", "X", i) for i in range(32)]
        rows = [("bitcoin::PublicKey", "to_public_key", FULL, lambda r: repr(deref(r)) == repr(FULL), "the key itself"),
                ("bitcoin::secp256k1::PublicKey", "to_public_key", "S",
                 lambda r: isinstance(deref(r), Adt) and deref(r).fields == {"compressed": True, "inner": "S"}, "the compressed key of S"),
                ("bitcoin::XOnlyPublicKey", "to_public_key", "X", lambda r: deref(r) == ("key-from-bytes", want_x), "the key with bytes 02 || x"),
                ("bitcoin::XOnlyPublicKey", "to_x_only_pubkey", "X", lambda r: deref(r) == "X", "the key itself")]
        for ty, nm, val, good, what in rows:
            pth = imps.get(ty, {}).get(nm)
            if pth is None or pth not in F.bodies:
                chk.fail(rid, "anchor|%s|%s" % (ty, nm), "<%s as ToPublicKey>::%s not found" % (ty, nm), kind="unanalysable")
                continue
            chk.saw(pth)
            try:
                r = m2.call_path(pth, [val])
                chk.obligation(rid, good(r), "%s|%s" % (ty.split("::")[-1], nm), "<%s>::%s gives %r, expected %s" % (ty, nm, r, what), F.fns[pth]["span"])
            except (Unsupported, Panic) as e:
                chk.fail(rid, "unanalysable:%s|%s" % (ty, nm), "unanalysable: %s" % e, where=getattr(e, "where", ""), kind="unanalysable")
        if len(dflt) == 1:
            m2.hooks["ToPublicKey::to_public_key"] = lambda m_, a, c: Adt("bitcoin::PublicKey", "PublicKey", {"compressed": True, "inner": ("inner-of", deref(a[0]))})
            try:
                r = m2.call_callee({"def": dflt[0], "resolved": dflt[0], "name": "to_x_only_pubkey", "targs": ["PK"]}, ["KEY"])
                chk.obligation(rid, deref(r) == ("xonly-of", ("inner-of", "KEY")), "default|to_x_only_pubkey",
                               "the default to_x_only_pubkey gives %r, expected the x-only key of to_public_key().inner" % (r,), F.fns[dflt[0]]["span"])
            except (Unsupported, Panic) as e:
                chk.fail(rid, "unanalysable:default|to_x_only_pubkey", "unanalysable: %s" % e, where=getattr(e, "where", ""), kind="unanalysable")
        else:
            chk.fail(rid, "anchor|default to_x_only_pubkey", "ToPublicKey::to_x_only_pubkey default not found", kind="unanalysable")
        for ty in ("bitcoin::PublicKey", "bitcoin::secp256k1::PublicKey", "bitcoin::XOnlyPublicKey", "descriptor::key::DefiniteDescriptorKey"):
            for nm in ("to_sha256", "to_hash256", "to_ripemd160", "to_hash160"):
                pth = imps.get(ty, {}).get(nm)
                if pth is None or pth not in F.bodies:
                    chk.fail(rid, "anchor|%s|%s" % (ty, nm), "<%s as ToPublicKey>::%s not found" % (ty, nm), kind="unanalysable")
                    continue
                try:
                    r = m2.call_path(pth, ["HASH"])
                    chk.obligation(rid, deref(r) == "HASH", "%s|%s" % (ty.split("::")[-1], nm), "<%s>::%s(h) gives %r, expected h" % (ty, nm, r), F.fns[pth]["span"])
                except (Unsupported, Panic) as e:
                    chk.fail(rid, "unanalysable:%s|%s" % (ty, nm), "unanalysable: %s" % e, where=getattr(e, "where", ""), kind="unanalysable")
    finally:
        if saved_from is None:
            B_.TRAIT_TABLE.pop(("std::convert::From", "from"), None)
        else:
            B_.TRAIT_TABLE[("std::convert::From", "from")] = saved_from


def run(chk):
    F = chk.facts()
    chk.explanation = (
        "Decides structural necessary conditions, not round-trips on byte strings: (R04.1) the script template "
        "emitted by Terminal::encode for each of the 30 fragments (extracted symbolically) equals the "
        "specification's; (R04.2) Miniscript::script_size is the length homomorphism of that template, "
        "script_num_size and Ctx::pk_len tables; (R04.3) the lexer's table over all 256 opcodes, fused VERIFY "
        "splitting, non-minimal VERIFY rejection, push classes; (R04.4) decoder coverage and validation gates.")
    chk.trusted = ["spec/script.py (opcode values, templates)", "factgen THIR; msverif.interp",
                   "model of bitcoin::script::read_scriptint and Builder::push_* as token constructors"]
    chk.assumptions = ["rust-bitcoin's Builder / instructions_minimal behave as documented",
                       "n-ary templates extracted for n=3 (and n=17 for size classes)"]
    try:
        P = scriptmodel.paths(F)
    except KeyError as e:
        chk.fail("R04.1", "anchors", "missing anchor: %s" % e, kind="unanalysable")
        return
    toks = check_templates(chk, F, P)
    toks17 = {}
    for v in NARY:
        try:
            res, m = scriptmodel.run_encode(F, v, n=17, P=P)
            good = [scriptmodel.nf_tokens(r) for c, r in res if not (isinstance(r, tuple) and r and r[0] == "panic")]
            if len(good) == 1:
                toks17[v] = good[0]
        except Unsupported as e:
            chk.fail("R04.2", v + "|n=17|unanalysable", "unanalysable: %s" % e, kind="unanalysable")
    check_script_size(chk, F, P, {3: toks, 17: toks17})
    check_num_size(chk, F)
    check_pk_len(chk, F)
    emitted = set(t[1] for ts in toks.values() for t in ts if t[0] == "op")
    check_lexer(chk, F, emitted)
    from . import decoder
    decoder.check_decoder(chk, F)
    # the decoder builds its leaves with the typed constructors (expr_raw_pkh for every key-hash leaf ...): a leaf carrying
    # another type than type_check gives it makes the decoder accept scripts that are not miniscripts (shared with C05)
    from . import ctors
    chk.guard("R04.7", "typed-constructors", ctors.check_typed_constructors, chk, F, "R04.7")
    chk.guard("R04.5", "decoder-canonical", decoder.check_decoder_canonical, chk, F)
    chk.guard("R04.6", "key-pushes", check_key_pushes, chk, F)
    # the other size prediction: ExtData::pk_cost (what the per-context size limits and the compiler read) is the length of
    # the same template, across the OP_16 / one-byte-push boundary of k and n (rule shared with C09)
    from . import c09
    chk.guard("R04.8", "pk-cost", c09.check_script_accounting, chk, F, "R04.8")
