"""C18 -- policy transformations preserve meaning.

Decided by evaluating the policy algorithms from their typed syntax trees on every policy of a bounded family and
comparing with an independent truth-table oracle (spec/policy_sem.py).  Family: atoms {3 keys, 2 height locks, a time
lock, 2 absolute locks of each unit, a hash, TRIVIAL, UNSATISFIABLE}; all thresholds k-of-n (n <= 3) over atoms; all
thresholds (n <= 3) over a mixed alphabet of atoms and representative depth-1 thresholds (and / or / thresh with
constants, singletons, repeated atoms).

R18.1  normalized(p) has p's truth table, is idempotent, and is in the promised normal form
R18.2  sorted(p) has p's truth table, is idempotent and independent of the order of children
R18.3  at_age / at_lock_time(p, x) have the truth table of p with exactly the unmet locks replaced by false
R18.4  n_keys / minimum_n_keys equal the key count / the fewest true keys over satisfying assignments
R18.5  entails(p, q) == Some(truth-table implication) on all pairs of a sub-family
R18.6  Concrete::lift(p) has p's truth table; check_timelocks fails exactly when some satisfying path needs both a
       height and a time lock of one kind"""

import itertools
import os
import sys

from ..interp import Machine, Adt, Term, PyVec, Panic, ok, err, some, NONE, dcopy
from ..report import Unsupported
from .. import model
from . import c14

sys.path.insert(0, os.path.join(os.path.dirname(__file__), "..", "..", "spec"))
import policy_sem as PS  # noqa: E402

LEVEL = "other"
ONLY = os.environ.get("C18_ONLY", "")
SP = "policy::semantic::Policy"
CP = "policy::concrete::Policy"
TF = PS.TYPE_FLAG

A, B, C = ("key", "A"), ("key", "B"), ("key", "C")
O5, O9, OT = ("older", 5), ("older", 9), ("older", 5 | TF)
A10, A20, AT = ("after", 10), ("after", 20), ("after", 500000010)
H = ("hash", "Sha256", "H")
T_, F_ = ("T",), ("F",)


def lockpaths(F):
    a = [x for x in F.adts if x.endswith("absolute_locktime::AbsLockTime")][0]
    r = [x for x in F.adts if x.endswith("relative_locktime::RelLockTime")][0]
    return a, r


def to_lib(F, p, adt=SP):
    a, r = lockpaths(F)
    t = p[0]
    if t == "T":
        return Adt(adt, "Trivial", {})
    if t == "F":
        return Adt(adt, "Unsatisfiable", {})
    if t == "key":
        return Adt(adt, "Key", {"0": p[1]})
    if t == "hash":
        return Adt(adt, p[1], {"0": p[2]})
    if t == "older":
        return Adt(adt, "Older", {"0": Adt(r, "RelLockTime", {"0": p[1]})})
    if t == "after":
        return Adt(adt, "After", {"0": Adt(a, "AbsLockTime", {"0": p[1]})})
    if t == "thresh":
        return Adt(adt, "Thresh", {"0": model.threshold(p[1], [to_lib(F, s, adt) for s in p[2]])})
    if t == "and":
        return Adt(adt, "And", {"0": PyVec([to_lib(F, s, adt) for s in p[1]])})
    if t == "or":
        return Adt(adt, "Or", {"0": PyVec([(1, to_lib(F, s, adt)) for s in p[1]])})
    raise ValueError(p)


def from_lib(v):
    x = v.variant
    if x == "Trivial":
        return T_
    if x == "Unsatisfiable":
        return F_
    if x == "Key":
        return ("key", v.fields["0"])
    if x in ("Sha256", "Hash256", "Ripemd160", "Hash160"):
        return ("hash", x, v.fields["0"])
    if x == "Older":
        return ("older", v.fields["0"].fields["0"])
    if x == "After":
        return ("after", v.fields["0"].fields["0"])
    if x == "Thresh":
        th = v.fields["0"]
        return ("thresh", th.fields["k"], [from_lib(s) for s in th.fields["inner"].items])
    raise ValueError(v)


L0 = [A, B, C, O5, O9, OT, A10, AT, H, T_, F_]


def family(tier):
    out = list(L0)
    for n in (1, 2, 3):
        for subs in itertools.product(L0 if n < 3 else [A, B, O5, OT, A10, T_, F_], repeat=n):
            for k in range(1, n + 1):
                out.append(("thresh", k, list(subs)))
    l1 = [("thresh", 2, [A, B]), ("thresh", 1, [A, B]), ("thresh", 1, [A, T_]), ("thresh", 2, [A, F_]),
          ("thresh", 2, [A, B, C]), ("thresh", 2, [A, T_]), ("thresh", 1, [F_, F_]), ("thresh", 1, [A]),
          ("thresh", 2, [T_, T_]), ("thresh", 1, [O5, B]), ("thresh", 2, [O5, O9]), ("thresh", 2, [A, T_, F_]),
          ("thresh", 2, [A, A]), ("thresh", 1, [OT, O5])]
    alpha = [A, B, T_, F_, O5] + l1
    for subs in itertools.product(alpha, repeat=2):
        for k in (1, 2):
            out.append(("thresh", k, list(subs)))
    step = 1 if tier != "quick" else 5
    for i, subs in enumerate(itertools.product(alpha, repeat=3)):
        if i % step:
            continue
        if not any(s[0] == "thresh" for s in subs):
            continue
        for k in (1, 2, 3):
            out.append(("thresh", k, list(subs)))
    # constants in every position next to sub-policies over *distinct* keys (no key counted twice)
    D = ("key", "D")
    xs = [A, ("thresh", 2, [A, B]), ("thresh", 2, [A, B, C]), ("thresh", 3, [A, B, C]), ("thresh", 1, [A, B])]
    for x in xs:
        inners = []
        for cst in (F_, T_):
            inners += [("thresh", 2, [cst, x]), ("thresh", 2, [x, cst]), ("thresh", 1, [cst, x]), ("thresh", 1, [x, cst]),
                       ("thresh", 2, [cst, x, O5]), ("thresh", 3, [cst, O5, x])]
        for inner in inners:
            out += [("thresh", 1, [inner, D]), ("thresh", 2, [inner, D]), ("thresh", 1, [D, inner]), ("thresh", 2, [inner, D, O9]),
                    ("thresh", 1, [inner, ("thresh", 2, [D, O9])])]
    # a few deeper ones
    d2 = ("thresh", 2, [("thresh", 1, [A, ("thresh", 2, [B, C])]), ("thresh", 2, [("thresh", 2, [A, B]), C]), O5])
    out += [d2, ("thresh", 1, [d2, T_]), ("thresh", 2, [d2, F_, A]), ("thresh", 3, [("thresh", 1, [("thresh", 1, [A, B]), C]), B, ("thresh", 2, [("thresh", 2, [A, B]), C])])]
    return out


AGES = [4, 5, 9, 0xffff, 5 | TF, 4 | TF]
TIMES = [9, 10, 20, 499999999, 500000010, 500000009]


class Lib(object):
    def __init__(self, F):
        self.F = F
        m = Machine(F, strict=True, max_depth=80)
        m.text_keys = True
        c14.lock_hooks(m)
        self.m = m
        fn = lambda n, c=None: F.fn(n, file="policy/semantic.rs", container=c)
        self.p = {n: F.fn(n, file="policy/semantic.rs") for n in
                  ("normalized", "sorted", "at_age", "at_lock_time", "n_keys", "minimum_n_keys", "entails")}

    def call(self, name, p, *extra):
        v = to_lib(self.F, p)
        r = self.m.call_callee({"def": self.p[name], "resolved": self.p[name], "name": name,
                                "targs": ["std::string::String"]}, [v] + list(extra))
        return r


_LIB = {}


def lib(F):
    if "l" not in _LIB:
        _LIB["l"] = Lib(F)
    return _LIB["l"]


def _work(args):
    from .. import facts
    F = facts.load()
    L = lib(F)
    chunk, = args
    out = []     # (rule, key, message)
    n = 0
    for p in chunk:
        key = repr(p)
        try:
            # R18.1
            r = from_lib(L.call("normalized", p))
            n += 1
            if not PS.equivalent(r, p):
                out.append(("R18.1", "meaning", key, "normalized gives %r with a different truth table" % (r,)))
            else:
                if not PS.is_normal(r):
                    out.append(("R18.1", "normal-form", key, "normalized gives %r which is not in normal form" % (r,)))
                r2 = from_lib(L.call("normalized", r))
                if r2 != r:
                    out.append(("R18.1", "idempotent", key, "normalized twice gives %r then %r" % (r, r2)))
            # R18.2
            s = from_lib(L.call("sorted", p))
            n += 1
            if not PS.equivalent(s, p):
                out.append(("R18.2", "meaning", key, "sorted gives %r with a different truth table" % (s,)))
            else:
                s2 = from_lib(L.call("sorted", s))
                if s2 != s:
                    out.append(("R18.2", "idempotent", key, "sorted twice gives %r then %r" % (s, s2)))
                if p[0] == "thresh":
                    rev = ("thresh", p[1], list(reversed(p[2])))
                    s3 = from_lib(L.call("sorted", rev))
                    if s3 != s:
                        out.append(("R18.2", "order", key, "sorted depends on child order: %r vs %r" % (s, s3)))
            # R18.3
            if any(a[0] == "older" for a in PS.atoms(p)):
                for age in AGES:
                    g = from_lib(L.call("at_age", p, ("rel", age)))
                    n += 1
                    if not PS.equivalent(g, PS.at_age(p, age)):
                        out.append(("R18.3", "at_age", key, "at_age(%#x) gives %r, expected the table of %r"
                                    % (age, g, PS.at_age(p, age))))
                        break
            if any(a[0] == "after" for a in PS.atoms(p)):
                for t in TIMES:
                    g = from_lib(L.call("at_lock_time", p, t))
                    n += 1
                    if not PS.equivalent(g, PS.at_lock_time(p, t)):
                        out.append(("R18.3", "at_lock_time", key, "at_lock_time(%d) gives %r, expected the table of %r"
                                    % (t, g, PS.at_lock_time(p, t))))
                        break
            # R18.4
            nk = L.call("n_keys", p)
            if nk != PS.n_keys(p):
                out.append(("R18.4", "n_keys", key, "n_keys %r, expected %r" % (nk, PS.n_keys(p))))
            mk = L.call("minimum_n_keys", p)
            mk = mk.fields["0"] if mk.variant == "Some" else None
            n += 2
            want = PS.min_keys(p)
            if mk != want:
                keys = [a for a in PS.atoms(p) if a[0] == "key"]
                rep = PS.n_keys(p) != len(keys)
                out.append(("R18.4", "minimum_n_keys-repeated" if rep else "minimum_n_keys", key,
                            "minimum_n_keys %r, fewest true keys over satisfying assignments %r" % (mk, want)))
        except Unsupported as e:
            out.append(("R18.1", "unanalysable", key, "unanalysable: %s" % e))
            break
        except Panic as e:
            out.append(("R18.1", "panic", key, "panic: %s" % e))
    return n, out


def _entail_work(args):
    from .. import facts
    F = facts.load()
    L = lib(F)
    pairs, = args
    out = []
    n = 0
    for p, q in pairs:
        try:
            r = L.call("entails", p, to_lib(F, q))
            n += 1
            got = r.fields["0"] if r.variant == "Some" else None
            want = PS.implies(p, q)
            if got is not want:
                norm = PS.is_normal(p) and PS.is_normal(q) and p[0] not in () and q[0] not in ()
                out.append(("R18.5", "entails" if norm else "entails-unnormalized", "%r |- %r" % (p, q),
                            "entails gives %r, truth-table implication is %r" % (got, want)))
        except Unsupported as e:
            out.append(("R18.5", "unanalysable", "%r |- %r" % (p, q), "unanalysable: %s" % e))
            break
        except Panic as e:
            out.append(("R18.5", "panic", "%r |- %r" % (p, q), "panic: %s" % e))
    return n, out


ENTAIL_SET = [A, B, T_, F_, O5, ("thresh", 2, [A, B]), ("thresh", 1, [A, B]), ("thresh", 2, [A, B, C]),
              ("thresh", 1, [A, T_]), ("thresh", 2, [A, F_]), ("thresh", 2, [A, ("thresh", 1, [B, C])]),
              ("thresh", 1, [("thresh", 2, [A, B]), C]), ("thresh", 1, [A, O5]), ("thresh", 2, [A, O5]),
              ("thresh", 3, [A, B, C]), ("thresh", 1, [A, B, C]), ("thresh", 2, [("thresh", 1, [A, B]), ("thresh", 1, [B, C])]),
              ("thresh", 1, [F_, A]), ("thresh", 2, [T_, A]), ("thresh", 1, [A, A]), ("thresh", 2, [A, A]),
              ("thresh", 2, [("thresh", 2, [A, B]), ("thresh", 1, [C, O5]), H])]


def report(chk, results, rules):
    grouped = {}
    total = 0
    for n, out in results:
        total += n
        for (rule, kind, key, msg) in out:
            grouped.setdefault((rule, kind), []).append((key, msg))
    for (rule, kind), items in sorted(grouped.items()):
        key0, msg0 = items[0]
        chk.fail(rule, kind, "%d case(s); first: %s: %s" % (len(items), key0, msg0), where="src/policy/semantic.rs",
                 detail=items[:10], kind="unanalysable" if kind == "unanalysable" else "violation")
    for r in rules:
        if not any(k[0] == r for k in grouped):
            chk.ok(r)
    return total


def check_normalized_small(chk, F, rule):
    """normalized() keeps the truth table, on the depth-1 part of the family (used by C07: every lift ends with
    normalized())"""
    chk.rule(rule, "Semantic::normalized, which every lift applies last, keeps the truth table (all k-of-n thresholds, "
                   "n <= 3, over atoms incl. constants, plus nested representatives)")
    L = lib(F)
    full = family("quick")
    fam = [p for p in full if p[0] != "thresh" or all(s[0] != "thresh" for s in p[2])][:1200]
    # nested thresholds next to constants: where flattening and constant folding interact
    fam += [p for p in full if p[0] == "thresh" and any(s[0] == "thresh" for s in p[2])
            and any(s[0] in ("T", "F") or (s[0] == "thresh" and any(x[0] in ("T", "F") for x in s[2])) for s in p[2])][:1500]
    fam += [("thresh", 2, [("thresh", 2, [A, B]), ("thresh", 1, [A, T_]), O5]),
            ("thresh", 3, [A, ("thresh", 2, [O5, O9]), ("thresh", 2, [A, B])]),
            ("thresh", 1, [("thresh", 1, [A, B]), ("thresh", 2, [B, F_])])]
    bad = []
    for p in fam:
        try:
            r = from_lib(L.call("normalized", p))
        except Unsupported as e:
            chk.fail(rule, "unanalysable", "unanalysable: %s" % e, kind="unanalysable")
            return
        except Panic as e:
            bad.append((repr(p), "panic: %s" % e))
            continue
        if not PS.equivalent(r, p):
            bad.append((repr(p), "normalized gives %r with a different truth table" % (r,)))
    chk.obligation(rule, not bad, "normalized", "%d policies; first: %r" % (len(bad), bad[:1]), where="src/policy/semantic.rs",
                   detail=bad[:10])
    chk.floor(rule, "policies normalized", len(fam), 1000)


def check_semantic(chk, F):
    import multiprocessing as mp
    chk.rule("R18.1", "normalized: same truth table, idempotent, normal form (no constants or singleton thresholds below "
                      "the root, no and-in-and / or-in-or) on every policy of the family")
    chk.rule("R18.2", "sorted: same truth table, idempotent, independent of child order")
    chk.rule("R18.3", "at_age / at_lock_time: the truth table of the policy with exactly the unmet locks set to false, for "
                      "ages / times below, at and above every lock and of the other unit")
    chk.rule("R18.4", "n_keys and minimum_n_keys equal the oracle's counts")
    PS.selftest()
    L = lib(F)
    chk.saw(*L.p.values())
    fam = family(chk.tier)
    nproc = min(16, os.cpu_count() or 4)
    chunks = [fam[i::nproc * 4] for i in range(nproc * 4)]
    with mp.Pool(nproc) as pool:
        results = pool.map(_work, [(c,) for c in chunks], chunksize=1)
    total = report(chk, results, ["R18.1", "R18.2", "R18.3", "R18.4"])
    chk.extra["R18_policies"] = len(fam)
    chk.extra["R18_evaluations"] = total
    chk.floor("R18.1", "policies evaluated", len(fam), 3000)
    chk.rule("R18.5", "entails(p, q) == Some(p => q by truth table) on all ordered pairs of a sub-family")
    pairs = [(p, q) for p in ENTAIL_SET for q in ENTAIL_SET]
    chunks = [pairs[i::nproc] for i in range(nproc)]
    with mp.Pool(nproc) as pool:
        results = pool.map(_entail_work, [(c,) for c in chunks], chunksize=1)
    report(chk, results, ["R18.5"])
    chk.floor("R18.5", "pairs", len(pairs), 400)


# ---- R18.6 concrete policies ------------------------------------------------------------------------------------

def concrete_family():
    atoms = [A, B, O5, OT, A10, AT, H]
    out = list(atoms) + [T_, F_]
    for x, y in itertools.product(atoms, repeat=2):
        out.append(("and", [x, y]))
        out.append(("or", [x, y]))
    mids = [("and", [O5, A]), ("or", [O5, OT]), ("and", [O5, OT]), ("or", [A10, B]), ("and", [A10, AT]), ("or", [A, B]),
            ("thresh", 2, [O5, OT, A]), ("thresh", 1, [O5, OT, A]), ("thresh", 2, [A, B, O5]), ("or", [AT, A10])]
    alpha = [A, O5, OT, A10, AT] + mids
    for x, y in itertools.product(alpha, repeat=2):
        out.append(("and", [x, y]))
        out.append(("or", [x, y]))
    for subs in itertools.product([A, B, O5, OT, A10, AT, ("or", [O5, OT]), ("and", [A, OT])], repeat=3):
        for k in (1, 2, 3):
            out.append(("thresh", k, list(subs)))
    return out


def _concrete_work(args):
    from .. import facts
    F = facts.load()
    chunk, = args
    m = Machine(F, strict=True, max_depth=80)
    m.text_keys = True
    c14.lock_hooks(m)
    lift = [it["path"] for i in F.impls if (i["trait"] or "").endswith("Liftable") and i["self_adt"] == CP
            for it in i["items"] if it["name"] == "lift"][0]
    ct = F.fn("check_timelocks", file="policy/concrete.rs")
    out = []
    n = 0
    for p in chunk:
        key = repr(p)
        try:
            v = to_lib(F, p, CP)
            r = m.call_callee({"def": ct, "resolved": ct, "name": "check_timelocks", "targs": ["std::string::String"]}, [dcopy(v)])
            n += 1
            got = r.variant == "Err"
            want = PS.mixed_locks(p)
            if got != want:
                out.append(("R18.6", "check_timelocks", key, "check_timelocks %s, a path mixing units of one lock kind %s"
                            % ("fails" if got else "passes", "exists" if want else "does not exist")))
            if not got:
                r = m.call_callee({"def": lift, "resolved": lift, "name": "lift", "targs": ["std::string::String"]}, [dcopy(v)])
                n += 1
                if r.variant != "Ok":
                    out.append(("R18.6", "lift", key, "lift fails: %r" % (r,)))
                elif not PS.equivalent(from_lib(r.fields["0"]), p):
                    out.append(("R18.6", "lift", key, "lift gives %r with a different truth table" % (from_lib(r.fields["0"]),)))
        except Unsupported as e:
            out.append(("R18.6", "unanalysable", key, "unanalysable: %s" % e))
            break
        except Panic as e:
            out.append(("R18.6", "panic", key, "panic: %s" % e))
    return n, out


def check_concrete(chk, F):
    import multiprocessing as mp
    chk.rule("R18.6", "concrete policies: check_timelocks fails exactly when some satisfying path (and = all, or = one, "
                      "thresh = any k) needs a height and a time lock of the same kind; lift keeps the truth table")
    fam = concrete_family()
    nproc = min(16, os.cpu_count() or 4)
    chunks = [fam[i::nproc * 2] for i in range(nproc * 2)]
    with mp.Pool(nproc) as pool:
        results = pool.map(_concrete_work, [(c,) for c in chunks], chunksize=1)
    report(chk, results, ["R18.6"])
    chk.floor("R18.6", "concrete policies", len(fam), 1000)


def run(chk):
    F = chk.facts()
    chk.explanation = __doc__
    chk.trusted = ["spec/policy_sem.py (truth tables; atoms independent)", "rust-bitcoin lock-time comparison modelled on "
                   "consensus encodings", "rustc THIR; msverif evaluator"]
    if not ONLY or "1" in ONLY:
        chk.guard("R18.1", "semantic", check_semantic, chk, F)
    if not ONLY or "6" in ONLY:
        chk.guard("R18.6", "concrete", check_concrete, chk, F)
    if not ONLY or "8" in ONLY:
        # the miniscript-side twin of check_timelocks: which children's time-lock summaries a fragment joins on one path
        # (lift_check and the sane parser refuse scripts by it; shared with C12)
        from . import limits as _limits
        chk.guard("R18.8", "timelock-composition", _limits.check_timelock_composition, chk, F, "R18.8")
    if not ONLY or "7" in ONLY:
        # every policy function of this property folds over rtl_post_order_iter / pre_order_iter, evaluated above through
        # the analyser's model of them: the model is the source's behaviour (rule shared with C20)
        from . import c20
        from ..report import RuleAlias
        chk.guard("R18.7", "tree-iterators", c20.check_tree_iterators, RuleAlias(chk, {"R20.10": "R18.7"}, "the traversal "
                  "the policy functions fold over"), F)
