"""C17 -- spending plans are faithful to the satisfier and report exact time locks.

Structural clauses (DESIGN.md C17): plans use the same template builders as the satisfier, Plan::satisfy
assembles what the direct path assembles, every Satisfaction value takes (stack, absolute, relative) from one
source, into_plan copies the locks, announced sizes count what is produced."""

from .. import symx, satmodel, modes, model
from ..interp import Machine, Adt, Term, PyVec, Panic, explore, some, NONE
from ..report import Unsupported
from . import assembly, c01, c02

LEVEL = "other"
SAT = satmodel.SAT


def check_plan_structure(chk, F):
    rid = "R17.1"
    chk.rule(rid, "direct satisfaction is defined as template completion (build_template[_mall] then try_completing) "
                  "and plans are built from the same templates: into_plan[_mall] dispatch to plan_satisfaction[_mall], "
                  "which call build_template[_mall] / best_tap_spend; a plan exists iff the template is a Stack and "
                  "copies absolute -> absolute, relative -> relative")
    # Satisfaction::satisfy = build_template(..).try_completing(..)
    for nm, want in (("satisfy", "build_template"), ("satisfy_mall", "build_template_mall")):
        try:
            p = F.fn(nm, file="satisfy/mod.rs", container="Satisfaction<std::vec::Vec<u8>>")
        except KeyError as e:
            chk.fail(rid, nm + "|anchor", "missing %s" % e, kind="unanalysable")
            continue
        chk.saw(p)
        names = [c["name"] for c in symx.callsites(F, p)]
        chk.obligation(rid, want in names and "try_completing" in names, "Satisfaction::" + nm,
                       "Satisfaction::%s calls %s; expected %s followed by try_completing" % (nm, names, want), F.fns[p]["span"])
    # plan_satisfaction of script wrappers calls the Miniscript template builder
    for adt, file in (("Bare", "descriptor/bare.rs"), ("Wsh", "descriptor/segwitv0.rs"), ("Sh", "descriptor/sh.rs")):
        for nm, want in (("plan_satisfaction", "build_template"), ("plan_satisfaction_mall", "build_template_mall")):
            try:
                p = F.fn(nm, file=file, container="::" + adt + "<")
            except KeyError as e:
                chk.fail(rid, "%s::%s|anchor" % (adt, nm), "missing %s" % e, kind="unanalysable")
                continue
            names = [c["name"] for c in symx.callsites(F, p)]
            chk.obligation(rid, want in names or nm in names, "%s::%s" % (adt, nm),
                           "%s::%s calls %s; expected %s" % (adt, nm, names, want), F.fns[p]["span"])
    # into_plan: Stack -> Ok(Plan{template: stack, locks copied}); else Err(self)
    for nm in ("into_plan", "into_plan_mall"):
        try:
            p = F.fn(nm, file="descriptor/mod.rs")
        except KeyError as e:
            chk.fail(rid, nm + "|anchor", "missing %s" % e, kind="unanalysable")
            continue
        chk.saw(p)
        plans = symx.find_nodes(F.thir(p)["body"], lambda n: n.get("k") == "adt" and n.get("adt") == "plan::Plan")
        good = len(plans) == 1
        msg = "%d Plan literals" % len(plans)
        if good:
            fields = {f["name"]: f["e"] for f in plans[0]["fields"]}
            for lock in ("absolute_timelock", "relative_timelock"):
                src = [n["name"] for n in symx.find_nodes(fields.get(lock, {}), lambda n: n.get("k") == "field")]
                if src[:1] != [lock]:
                    good = False
                    msg = "Plan.%s is built from %s" % (lock, src)
            tsrc = symx.strip_expr(fields.get("template", {}))
            if tsrc.get("name") != "stack":
                good = False
                msg = "Plan.template is %r" % (tsrc.get("name"),)
        chk.obligation(rid, good, nm + "|plan-literal",
                       "Descriptor::%s: %s (the plan must carry the chosen witness template and its own absolute / "
                       "relative lock)" % (nm, msg), F.fns[p]["span"])


def check_provenance(chk, F, P):
    rid = "R17.3"
    chk.rule(rid, "field provenance: every Satisfaction built by minimum / minimum_mall / concatenate_rev / the or_i, d: "
                  "struct updates / try_completing takes (stack, absolute_timelock, relative_timelock) from one source "
                  "(or the max of both in concatenate_rev, impossible on mixed units)")
    c02.check_minimum_tables(chk, F, P, rid, which=("minimum", "minimum_mall"))
    # concatenate_rev: locks = max of both, same kind with same kind
    m = Machine(F, strict=False,
                hooks={},
                uninterpreted=lambda p, c: c.get("name") == "max" and ("LockTime" in (c.get("container") or "") or "LockTime" in (c.get("def") or "")))

    def val(tag):
        return Adt(SAT, "Satisfaction", {
            "stack": Adt(satmodel.WIT, "Stack", {"0": PyVec([Term("w" + tag)])}), "has_sig": False,
            "absolute_timelock": some(Term("abs" + tag)), "relative_timelock": some(Term("rel" + tag))})
    try:
        res = explore(m, lambda: m.call_path(P["concatenate_rev"], [val("1"), val("2")]))
    except Unsupported as e:
        chk.fail(rid, "concatenate_rev|unanalysable", "unanalysable: %s" % e, kind="unanalysable")
        return
    ok_paths = 0
    for conds, r in res:
        if not isinstance(r, Adt):
            continue
        st = r.fields["stack"]
        if st.variant == "Impossible":
            continue
        ok_paths += 1
        a, rl = repr(r.fields["absolute_timelock"]), repr(r.fields["relative_timelock"])
        good = "abs1" in a and "abs2" in a and "rel" not in a and "rel1" in rl and "rel2" in rl and "abs" not in rl
        chk.obligation(rid, good, "concatenate_rev|locks",
                       "concatenate_rev combines locks as absolute=%s relative=%s; expected max(abs1, abs2) / max(rel1, rel2)"
                       % (a, rl), F.fns[P["concatenate_rev"]]["span"])
        items = st.fields["0"].items
        chk.obligation(rid, [repr(i) for i in items] == ["w2", "w1"], "concatenate_rev|order",
                       "x.concatenate_rev(y) stacks %r; expected y's witness below x's" % (items,), F.fns[P["concatenate_rev"]]["span"])
    chk.obligation(rid, ok_paths >= 1, "concatenate_rev|paths", "no non-impossible path through concatenate_rev")
    # mixed units -> impossible: a None from max must give IMPOSSIBLE
    imp = [r for c, r in res if isinstance(r, Adt) and r.fields["stack"].variant == "Impossible"]
    chk.obligation(rid, len(imp) >= 2, "concatenate_rev|mixed", "concatenate_rev must return IMPOSSIBLE when either lock "
                   "pair cannot be merged (found %d such paths)" % len(imp), F.fns[P["concatenate_rev"]]["span"])
    # try_completing copies the locks
    try:
        tc = F.fn("try_completing", file="satisfy/mod.rs")
        lits = symx.find_nodes(F.thir(tc)["body"], lambda n: n.get("k") == "adt" and n.get("adt") == SAT)
        good = False
        for l in lits:
            f = {x["name"]: x["e"] for x in l["fields"]}
            srcs = {k: [n.get("name") for n in symx.find_nodes(v, lambda n: n.get("k") in ("var", "upvar"))] for k, v in f.items()}
            good = srcs.get("absolute_timelock") == ["absolute_timelock"] and srcs.get("relative_timelock") == ["relative_timelock"]
        chk.obligation(rid, good, "try_completing|locks", "try_completing must copy absolute / relative locks unchanged", F.fns[tc]["span"])
    except KeyError as e:
        chk.fail(rid, "try_completing|anchor", "missing %s" % e, kind="unanalysable")
    # templates with locks: the satisfaction of every fragment carries the locks of exactly the children it uses
    check_template_locks(chk, F, P, rid)


def check_template_locks(chk, F, P, rid):
    where = F.fns[P["sat_dissat"]]["span"]
    for v in ("DupIf", "OrI", "AndV", "AndB", "Alt", "Verify", "NonZero"):
        try:
            res, m = satmodel.run_variant(F, v, True, P=P, locks=True)
        except Unsupported as e:
            chk.fail(rid, "locks|%s|unanalysable" % v, "unanalysable: %s" % e, where, kind="unanalysable")
            continue
        for conds, r in res:
            s, d = c01.sd_parts(r)
            if s is None:
                continue
            for tag, x in (("sat", s), ("dissat", d)):
                xs = list(x.args) if isinstance(x, Term) and x.op in ("minimum", "minimum_mall") else [x]
                for y in xs:
                    if not (isinstance(y, Adt) and y.path == SAT) or y.fields["stack"].variant != "Stack":
                        continue
                    used = set()
                    for a in y.fields["stack"].fields["0"].items:
                        n = satmodel.nf_atom(a)
                        if isinstance(n, tuple) and n[0] in ("S", "D"):
                            used.add("%s(%d)" % (n[0], n[1]))
                    for lock in ("absolute_timelock", "relative_timelock"):
                        txt = repr(y.fields[lock])
                        import re
                        have = set("%s(%s)" % (mm.group(1), mm.group(2)) for mm in re.finditer(r"(?:abs|rel)_([SD])\((\d+)\)", txt))
                        chk.obligation(rid, have == used, "locks|%s|%s|%s" % (v, tag, lock),
                                       "the %s of %s uses the witnesses of %s but reports the %s of %s"
                                       % (tag, v, sorted(used), lock, sorted(have)), where)


def check_key_source_table(chk, F):
    rid = "R17.6"
    chk.rule(rid, "Assets key matching: is_key_direct_child_of(key, source) holds exactly when the source path equals "
                  "the key's full derivation path or is its direct parent; exhaustive over all paths of length <= 3 over "
                  "two child numbers (and never panics)")
    try:
        p = F.fn("is_key_direct_child_of", file="plan.rs")
        fdp = [x for x in F.fn("full_derivation_paths", file="descriptor/key.rs", allow_many=True)
               if "DefiniteDescriptorKey" in x][0]
    except (KeyError, IndexError) as e:
        chk.fail(rid, "anchors", "missing %s" % e, kind="unanalysable")
        return
    chk.saw(p)
    import itertools
    paths = [list(t) for n in range(0, 4) for t in itertools.product((0, 1), repeat=n)]
    hooks = {
        "bitcoin::bip32::DerivationPath::len": lambda m, a, c: len(a[0].items),
        "bitcoin::bip32::DerivationPath::is_empty": lambda m, a, c: len(a[0].items) == 0,
    }
    bad = 0
    for kp in paths:
        for sp in paths:
            h = dict(hooks)
            h[fdp] = lambda m, a, c, kp=kp: PyVec([PyVec(list(kp))])
            m = Machine(F, strict=False, hooks=h)
            try:
                r = m.call_path(p, [Term("key"), PyVec(list(sp))])
            except Panic as e:
                bad += 1
                if bad <= 3:
                    chk.fail(rid, "panic", "is_key_direct_child_of(key path %r, source %r) panics: %s" % (kp, sp, e),
                             F.fns[p]["span"])
                continue
            except Unsupported as e:
                chk.fail(rid, "unanalysable", "unanalysable: %s" % e, F.fns[p]["span"], kind="unanalysable")
                return
            want = (kp == sp) or (len(kp) >= 1 and kp[:-1] == sp)
            if r != want:
                bad += 1
                if bad <= 3:
                    chk.fail(rid, "table", "is_key_direct_child_of(key path m/%s, source m/%s) = %r; a key source signs "
                             "for its own path and its direct children only (expected %r)"
                             % ("/".join(map(str, kp)), "/".join(map(str, sp)), r, want), F.fns[p]["span"])
            else:
                chk.ok(rid)
    chk.sample({"key-source table": "%d x %d path pairs" % (len(paths), len(paths))})


# ---- R17.9 completing a plan: placeholder -> witness element ---------------------------------------------------------------

def check_placeholder_completion(chk, F, rid="R17.9"):
    from ..interp import Machine, Adt, PyVec, Panic, some, NONE
    from ..builtins import deref
    chk.rule(rid, "Placeholder::satisfy_self (the step that turns a plan's template into the witness): every placeholder "
                  "becomes exactly the element it stands for - a key in its own serialization (x-only 32, compressed 33, "
                  "uncompressed 65 bytes), the signature / preimage the satisfier holds for that very key / hash / leaf, 32 "
                  "zero bytes, the empty and the one-byte vector, the leaf script, the control block - and None exactly when the "
                  "satisfier lacks it; decision table over all placeholder kinds x key forms x satisfier holdings")
    PH = "miniscript::satisfy::Placeholder"
    SST = "miniscript::satisfy::SchnorrSigType"
    ps = [q for q in F.fns if q.endswith("Placeholder::<Pk>::satisfy_self")]
    if len(ps) != 1:
        chk.fail(rid, "anchor", "Placeholder::satisfy_self not found", kind="unanalysable")
        return
    chk.saw(ps[0])
    holdings = {}

    def form(pk, which):
        pk = deref(pk)
        name, comp = pk.fields["inner"], pk.fields["compressed"]
        if which == "own":
            which = "compressed" if comp else "uncompressed"
        return ("bytes", name, which)
    m = Machine(F, strict=True)
    h = m.hooks
    h["bitcoin::PublicKey::to_bytes"] = lambda m_, a, c: form(a[0], "own")
    h["bitcoin::secp256k1::PublicKey::serialize"] = lambda m_, a, c: ("bytes", deref(a[0]), "compressed")
    h["bitcoin::XOnlyPublicKey::serialize"] = lambda m_, a, c: ("bytes", deref(a[0])[1], "x-only")
    h["bitcoin::secp256k1::XOnlyPublicKey::serialize"] = h["bitcoin::XOnlyPublicKey::serialize"]
    h["ToPublicKey::to_public_key"] = lambda m_, a, c: deref(a[0])
    h["ToPublicKey::to_x_only_pubkey"] = lambda m_, a, c: ("xonly", deref(a[0]).fields["inner"])
    for nm in ("bitcoin::ecdsa::Signature::to_vec", "bitcoin::taproot::Signature::to_vec"):
        h[nm] = lambda m_, a, c: ("sigbytes", deref(a[0]))
    h["bitcoin::Script::to_bytes"] = lambda m_, a, c: ("scriptbytes", deref(a[0]))
    h["bitcoin::ScriptBuf::to_bytes"] = h["bitcoin::Script::to_bytes"]
    h["bitcoin::taproot::ControlBlock::serialize"] = lambda m_, a, c: ("cbbytes", deref(a[0]))

    def look(name):
        def f(m_, a, c):
            k = tuple(repr(deref(x)) for x in a[1:])
            v = holdings.get((name, k))
            return some(v) if v is not None else NONE
        return f
    LOOKS = ("lookup_ecdsa_sig", "lookup_tap_key_spend_sig", "lookup_tap_leaf_script_sig", "lookup_raw_pkh_pk", "lookup_raw_pkh_ecdsa_sig",
             "lookup_raw_pkh_tap_leaf_script_sig", "lookup_raw_pkh_x_only_pk", "lookup_sha256", "lookup_hash256", "lookup_ripemd160",
             "lookup_hash160")
    for nm in LOOKS:
        h["Satisfier::" + nm] = look(nm)
        h["miniscript::satisfy::Satisfier::" + nm] = look(nm)

    def key(name, comp=True):
        return Adt("bitcoin::PublicKey", "PublicKey", {"compressed": comp, "inner": name})
    K, U = key("K"), key("U", False)
    LEAF = Term("leafhash")
    PKH = Term("pkh")

    def vecof(v):
        v = deref(v)
        return list(v.items) if isinstance(v, PyVec) else v
    cases = []
    # (name, placeholder, holdings, expected)
    cases.append(("Pubkey|x-only", Adt(PH, "Pubkey", {"0": K, "1": 33}), {}, ("bytes", "K", "x-only")))
    cases.append(("Pubkey|compressed", Adt(PH, "Pubkey", {"0": K, "1": 34}), {}, ("bytes", "K", "compressed")))
    cases.append(("Pubkey|uncompressed", Adt(PH, "Pubkey", {"0": U, "1": 66}), {}, ("bytes", "U", "uncompressed")))
    for pkv, nm, size in ((K, "compressed", 34), (U, "uncompressed", 66)):
        want = ("bytes", pkv.fields["inner"], nm)
        cases.append(("PubkeyHash|pk|" + nm, Adt(PH, "PubkeyHash", {"0": PKH, "1": size}),
                      {("lookup_raw_pkh_pk", (repr(PKH),)): pkv}, want))
        cases.append(("PubkeyHash|via-sig|" + nm, Adt(PH, "PubkeyHash", {"0": PKH, "1": size}),
                      {("lookup_raw_pkh_ecdsa_sig", (repr(PKH),)): (pkv, Term("sig"))}, want))
    cases.append(("PubkeyHash|unknown", Adt(PH, "PubkeyHash", {"0": PKH, "1": 34}), {}, None))
    # Tapscript: the hash commits to the 32-byte key, which only the x-only look-up can name
    cases.append(("PubkeyHash|x-only", Adt(PH, "PubkeyHash", {"0": PKH, "1": 33}),
                  {("lookup_raw_pkh_x_only_pk", (repr(PKH),)): ("xonly", "K")}, ("bytes", "K", "x-only")))
    cases.append(("PubkeyHash|x-only|full-key-held", Adt(PH, "PubkeyHash", {"0": PKH, "1": 33}),
                  {("lookup_raw_pkh_pk", (repr(PKH),)): K}, None))
    for v, lk in (("Sha256Preimage", "lookup_sha256"), ("Hash256Preimage", "lookup_hash256"), ("Ripemd160Preimage", "lookup_ripemd160"),
                  ("Hash160Preimage", "lookup_hash160")):
        cases.append((v + "|known", Adt(PH, v, {"0": "H"}), {(lk, (repr("H"),)): PyVec([7] * 32)}, [7] * 32))
        cases.append((v + "|other-hash", Adt(PH, v, {"0": "H"}), {(lk, (repr("G"),)): PyVec([7] * 32)}, None))
    cases.append(("EcdsaSigPk|held", Adt(PH, "EcdsaSigPk", {"0": K}), {("lookup_ecdsa_sig", (repr(K),)): Term("sigK")}, ("sigbytes", Term("sigK"))))
    cases.append(("EcdsaSigPk|other-key", Adt(PH, "EcdsaSigPk", {"0": K}), {("lookup_ecdsa_sig", (repr(U),)): Term("sigU")}, None))
    cases.append(("EcdsaSigPkHash|held", Adt(PH, "EcdsaSigPkHash", {"0": PKH}),
                  {("lookup_raw_pkh_ecdsa_sig", (repr(PKH),)): (K, Term("sigK"))}, ("sigbytes", Term("sigK"))))
    cases.append(("EcdsaSigPkHash|none", Adt(PH, "EcdsaSigPkHash", {"0": PKH}), {}, None))
    ss = Adt(SST, "ScriptSpend", {"leaf_hash": LEAF})
    ks = Adt(SST, "KeySpend", {"merkle_root": NONE})
    cases.append(("SchnorrSigPk|script|held", Adt(PH, "SchnorrSigPk", {"0": K, "1": ss, "2": 64}),
                  {("lookup_tap_leaf_script_sig", (repr(K), repr(LEAF))): Term("ssig")}, ("sigbytes", Term("ssig"))))
    cases.append(("SchnorrSigPk|script|only-key-spend-sig", Adt(PH, "SchnorrSigPk", {"0": K, "1": ss, "2": 64}),
                  {("lookup_tap_key_spend_sig", (repr(K),)): Term("ksig")}, None))
    cases.append(("SchnorrSigPk|key|held", Adt(PH, "SchnorrSigPk", {"0": K, "1": ks, "2": 64}),
                  {("lookup_tap_key_spend_sig", (repr(K),)): Term("ksig")}, ("sigbytes", Term("ksig"))))
    cases.append(("SchnorrSigPk|key|only-leaf-sig", Adt(PH, "SchnorrSigPk", {"0": K, "1": ks, "2": 64}),
                  {("lookup_tap_leaf_script_sig", (repr(K), repr(LEAF))): Term("ssig")}, None))
    cases.append(("SchnorrSigPkHash|held", Adt(PH, "SchnorrSigPkHash", {"0": PKH, "1": LEAF, "2": 64}),
                  {("lookup_raw_pkh_tap_leaf_script_sig", (repr((PKH, LEAF)),)): (Term("xk"), Term("ssig"))}, ("sigbytes", Term("ssig"))))
    cases.append(("HashDissatisfaction", Adt(PH, "HashDissatisfaction", {}), {}, [0] * 32))
    cases.append(("PushZero", Adt(PH, "PushZero", {}), {}, []))
    cases.append(("PushOne", Adt(PH, "PushOne", {}), {}, [1]))
    cases.append(("TapScript", Adt(PH, "TapScript", {"0": Term("leafscript")}), {}, ("scriptbytes", Term("leafscript"))))
    cases.append(("TapControlBlock", Adt(PH, "TapControlBlock", {"0": Term("cb")}), {}, ("cbbytes", Term("cb"))))
    # debug_assert!(len == size) lines measure opaque byte tokens: give them a length
    h["std::vec::Vec::<T, A>::len"] = lambda m_, a, c: B_NOT
    import msverif.builtins as BB
    B_NOT = BB.NOT_HANDLED

    def vlen(m_, a, c):
        v = deref(a[0])
        if isinstance(v, tuple) and v and v[0] == "bytes":
            return {"x-only": 32, "compressed": 33, "uncompressed": 65}[v[2]]
        if isinstance(v, tuple) and v and v[0] == "sigbytes":
            return 64
        return BB.NOT_HANDLED
    h["std::vec::Vec::<T, A>::len"] = vlen
    h["core::slice::<impl [T]>::len"] = vlen
    n = 0
    for name, ph, hold, want in cases:
        holdings.clear()
        holdings.update(hold)
        n += 1
        try:
            r = m.call_callee({"def": ps[0], "resolved": ps[0], "name": "satisfy_self", "targs": ["bitcoin::PublicKey", "SAT"]},
                              [ph, Term("satisfier")])
            got = None if r.variant == "None" else vecof(r.fields["0"])
            chk.obligation(rid, repr(got) == repr(want), name, "satisfy_self(%s) gives %r, expected %r" % (name, got, want), F.fns[ps[0]]["span"])
        except Unsupported as e:
            chk.fail(rid, "unanalysable:" + name, "unanalysable: %s" % e, where=e.where, kind="unanalysable")
        except Panic as e:
            chk.fail(rid, name, "panic: %s" % e, F.fns[ps[0]]["span"])
    chk.floor(rid, "placeholder cases", n, 25)


# ---- R17.17 what the template builders promise the same satisfier can deliver -----------------------------------------------

def check_template_completable(chk, F, rid="R17.17"):
    """the invariant behind `expect("the same satisfier should manage to complete the template")`"""
    from ..interp import Machine, Adt, PyVec, Panic, some, NONE
    from ..builtins import deref
    import msverif.builtins as BB
    chk.rule(rid, "every leaf builder of the satisfaction template (signature, pkh_public_key, pkh_signature, the four hash "
                  "preimages; ECDSA and Schnorr contexts) emits placeholders only for what the very look-ups it consulted can "
                  "deliver: with a satisfier holding exactly one look-up answer, whenever the builder returns a stack every "
                  "placeholder on it is completed by Placeholder::satisfy_self from that same satisfier, with the key in the "
                  "context's serialization (x-only 32 bytes in Tapscript) - so Satisfaction::satisfy's "
                  "`expect(\"the same satisfier should manage to complete the template\")` cannot fire and a spend the "
                  "caller holds everything for is found")
    PH = "miniscript::satisfy::Placeholder"
    WP = "miniscript::satisfy::Witness::<miniscript::satisfy::Placeholder<Pk>>::"
    try:
        ps = F.fn("satisfy_self", file="satisfy/mod.rs")
        builders = {nm: [q for q in F.fns if q == WP + nm][0] for nm in
                    ("signature", "pkh_public_key", "pkh_signature", "ripemd160_preimage", "hash160_preimage", "sha256_preimage",
                     "hash256_preimage")}
    except (KeyError, IndexError) as e:
        chk.fail(rid, "anchor", "missing anchor %s" % e, kind="unanalysable")
        return
    imps = [i for i in F.impls if (i["trait"] or "").endswith("AssetProvider") and (i.get("self_ty") or "") in ("T",)]
    if len(imps) != 1:
        chk.fail(rid, "anchor|blanket", "blanket impl AssetProvider for T: Satisfier not found", kind="unanalysable")
        return
    items = {it["name"]: it["path"] for it in imps[0]["items"]}
    chk.saw(ps, *builders.values())
    held = {}
    m = Machine(F, strict=True)
    h = m.hooks

    def look(name):
        def f(m_, a, c):
            k = tuple(repr(deref(x)) for x in a[1:])
            v = held.get((name, k))
            return some(v) if v is not None else NONE
        return f
    LOOKS = ("lookup_ecdsa_sig", "lookup_tap_key_spend_sig", "lookup_tap_leaf_script_sig", "lookup_raw_pkh_pk", "lookup_raw_pkh_ecdsa_sig",
             "lookup_raw_pkh_tap_leaf_script_sig", "lookup_raw_pkh_x_only_pk", "lookup_sha256", "lookup_hash256", "lookup_ripemd160",
             "lookup_hash160")
    for nm in LOOKS:
        h["Satisfier::" + nm] = look(nm)
        h["miniscript::satisfy::Satisfier::" + nm] = look(nm)
    # the provider the builders see is the satisfier itself, through the blanket impl (decided by R17.11)
    for nm, path in items.items():
        def prov(m_, a, c, path=path, nm=nm):
            return m_.call_callee({"def": path, "resolved": path, "name": nm, "targs": ["SAT", "bitcoin::PublicKey"]}, a)
        h["AssetProvider::" + nm] = prov
        h["plan::AssetProvider::" + nm] = prov

    def key(name, comp=True):
        return Adt("bitcoin::PublicKey", "PublicKey", {"compressed": comp, "inner": name})
    K = key("K")
    XK = ("xonly", "K")
    h["bitcoin::PublicKey::to_bytes"] = lambda m_, a, c: ("bytes", deref(a[0]).fields["inner"], "compressed" if deref(a[0]).fields["compressed"] else "uncompressed")
    h["bitcoin::XOnlyPublicKey::serialize"] = lambda m_, a, c: ("bytes", deref(a[0])[1], "x-only")
    h["bitcoin::secp256k1::XOnlyPublicKey::serialize"] = h["bitcoin::XOnlyPublicKey::serialize"]
    h["ToPublicKey::to_public_key"] = lambda m_, a, c: deref(a[0])
    h["ToPublicKey::to_x_only_pubkey"] = lambda m_, a, c: ("xonly", deref(a[0]).fields["inner"])
    h["MiniscriptKey::is_uncompressed"] = lambda m_, a, c: (not deref(a[0]).fields["compressed"]) if isinstance(deref(a[0]), Adt) else False
    h["MiniscriptKey::is_x_only_key"] = lambda m_, a, c: not isinstance(deref(a[0]), Adt)
    TSIG = "bitcoin::taproot::Signature"
    tsig = Adt(TSIG, "Signature", {"signature": Term("schnorr-sig"), "sighash_type": Adt("bitcoin::TapSighashType", "Default", {})})
    for nm in ("bitcoin::taproot::Signature::to_vec", "bitcoin::taproot::Signature::serialize"):
        h[nm] = lambda m_, a, c: ("sigbytes", "schnorr")
    h["bitcoin::ecdsa::Signature::to_vec"] = lambda m_, a, c: ("sigbytes", "ecdsa")

    def vlen(m_, a, c):
        v = deref(a[0])
        if isinstance(v, tuple) and v and v[0] == "bytes":
            return {"x-only": 32, "compressed": 33, "uncompressed": 65}[v[2]]
        if isinstance(v, tuple) and v and v[0] == "sigbytes":
            return 64 if v[1] == "schnorr" else 72
        return BB.NOT_HANDLED
    h["std::vec::Vec::<T, A>::len"] = vlen
    h["core::slice::<impl [T]>::len"] = vlen
    LEAF, PKH = Term("leafhash"), Term("pkh")
    CTXP = "miniscript::context::"
    ESIG = Term("ecdsa-sig")
    # (builder, ctx, args after the satisfier, holdings to try one at a time, the key form a PubkeyHash must come out in)
    plan = [
        ("signature", None, [K, NONE], "compressed"), ("signature", None, [K, some(LEAF)], "x-only"),
        ("pkh_public_key", "Segwitv0", [PKH], "compressed"), ("pkh_public_key", "Legacy", [PKH], "compressed"),
        ("pkh_public_key", "Tap", [PKH], "x-only"),
        ("pkh_signature", "Segwitv0", [PKH, NONE], "compressed"), ("pkh_signature", "Legacy", [PKH, NONE], "compressed"),
        ("pkh_signature", "Tap", [PKH, some(LEAF)], "x-only"),
        ("ripemd160_preimage", None, ["H"], None), ("hash160_preimage", None, ["H"], None), ("sha256_preimage", None, ["H"], None),
        ("hash256_preimage", None, ["H"], None),
    ]
    holdings = [
        ("lookup_ecdsa_sig", (repr(K),), ESIG), ("lookup_tap_key_spend_sig", (repr(K),), tsig),
        ("lookup_tap_leaf_script_sig", (repr(K), repr(LEAF)), tsig), ("lookup_raw_pkh_pk", (repr(PKH),), K),
        ("lookup_raw_pkh_ecdsa_sig", (repr(PKH),), (K, ESIG)), ("lookup_raw_pkh_tap_leaf_script_sig", (repr((PKH, LEAF)),), (XK, tsig)),
        ("lookup_raw_pkh_x_only_pk", (repr(PKH),), XK), ("lookup_sha256", (repr("H"),), PyVec([7] * 32)),
        ("lookup_hash256", (repr("H"),), PyVec([7] * 32)), ("lookup_ripemd160", (repr("H"),), PyVec([7] * 32)),
        ("lookup_hash160", (repr("H"),), PyVec([7] * 32)),
    ]
    holdings = [(lk, {(lk, k): v}) for lk, k, v in holdings]
    byname = {lk: hd for lk, hd in holdings}
    # a key hash's signature together with the look-up that names the key
    for a_, b_ in (("lookup_raw_pkh_tap_leaf_script_sig", "lookup_raw_pkh_x_only_pk"), ("lookup_raw_pkh_ecdsa_sig", "lookup_raw_pkh_pk")):
        holdings.append((a_ + "+" + b_, dict(list(byname[a_].items()) + list(byname[b_].items()))))
    n = stacks = 0
    for bname, ctx, args, keyform in plan:
        targs = ["bitcoin::PublicKey", "SAT"] + ([CTXP + ctx] if ctx else [])
        for lk, hd in holdings:
            held.clear()
            held.update(hd)
            inst = "%s|%s|%s" % (bname, ctx or ("leaf" if args[-1] is not NONE and bname == "signature" else "any"), lk)
            n += 1
            try:
                w = m.call_callee({"def": builders[bname], "resolved": builders[bname], "name": bname, "targs": targs},
                                  [Term("satisfier")] + list(args))
                w = deref(w)
                if w.variant != "Stack":
                    chk.ok(rid)
                    continue
                stacks += 1
                bad = []
                for ph in deref(w.fields["0"]).items:
                    ph = deref(ph)
                    r = m.call_callee({"def": ps, "resolved": ps, "name": "satisfy_self", "targs": ["bitcoin::PublicKey", "SAT"]},
                                      [ph, Term("satisfier")])
                    if r.variant == "None":
                        bad.append("%s is not completed (satisfy_self gives None)" % ph.variant)
                        continue
                    got = deref(r.fields["0"])
                    if ph.variant in ("PubkeyHash", "Pubkey") and keyform and not (isinstance(got, tuple) and got[:1] == ("bytes",) and got[2] == keyform):
                        bad.append("%s is completed as %r, the context needs the %s key" % (ph.variant, got, keyform))
                chk.obligation(rid, not bad, inst, "with only %s answering, %s%s builds a stack but %s"
                               % (lk, bname, "::<%s>" % ctx if ctx else "", "; ".join(bad)), F.fns[builders[bname]]["span"])
            except Unsupported as e:
                chk.fail(rid, "unanalysable:" + inst, "unanalysable: %s" % e, where=e.where, kind="unanalysable")
            except Panic as e:
                chk.fail(rid, inst, "with only %s answering, %s%s builds a stack whose completion panics: %s"
                         % (lk, bname, "::<%s>" % ctx if ctx else "", str(e)[:160]), F.fns[ps]["span"])
    chk.floor(rid, "builder x holding cases", n, 150)
    chk.floor(rid, "stacks completed", stacks, 16)


# ---- R17.10 Assets as the planner's asset provider; R17.11 a Satisfier as asset provider ----------------------------------

def check_assets_provider(chk, F, rid="R17.10"):
    import itertools
    from ..interp import Machine, Adt, PyVec, Panic, some, NONE
    from ..builtins import deref, PySet
    from . import c14
    chk.rule(rid, "Assets as AssetProvider (what a plan is computed from): a key is available for ECDSA / taproot key spend / a "
                  "given leaf exactly when some Assets entry has the key's master fingerprint, a key source that is the key's "
                  "path or its direct parent, and the matching signing capability (leaf availability None / Any / Single / "
                  "Many); the announced Schnorr signature size is 64 or 65 by sighash_default; a preimage is available exactly "
                  "when its hash is in the set; a lock is met exactly when a maximum is set and implies it (BIP-65 / BIP-68 "
                  "unit rules); Assets::add / older / after merge as sets with the newer lock winning")
    AS = "plan::Assets"
    try:
        imp = [i for i in F.impls if i["self_adt"] == AS and (i["trait"] or "").endswith("AssetProvider")][0]
        items = {it["name"]: it["path"] for it in imp["items"]}
        fdp = [x for x in F.fn("full_derivation_paths", file="descriptor/key.rs", allow_many=True) if "DefiniteDescriptorKey" in x][0]
        mfp = [x for x in F.fn("master_fingerprint", file="descriptor/key.rs", allow_many=True) if "DefiniteDescriptorKey" in x][0]
    except (IndexError, KeyError) as e:
        chk.fail(rid, "anchor", "Assets as AssetProvider / key accessors not found: %s" % e, kind="unanalysable")
        return
    chk.saw(*items.values())
    CS, TCS, TAL = "plan::CanSign", "plan::TaprootCanSign", "plan::TaprootAvailableLeaves"
    L1, L2 = ("leaf", 1), ("leaf", 2)

    def cansign(ecdsa, key_spend, leaves, dflt):
        kind, payload = leaves
        al = Adt(TAL, kind, {} if payload is None else {"0": (PyVec(list(payload)) if kind == "Many" else payload)})
        return Adt(CS, "CanSign", {"ecdsa": ecdsa, "taproot": Adt(TCS, "TaprootCanSign", {"key_spend": key_spend, "script_spend": al,
                                                                                         "sighash_default": dflt})})

    def assets(entries, hashes=(), rel=None, abs_=None):
        f = {"keys": PySet([]), "sha256_preimages": PySet(list(hashes)), "hash256_preimages": PySet(list(hashes)),
             "ripemd160_preimages": PySet(list(hashes)), "hash160_preimages": PySet(list(hashes)),
             "absolute_timelock": some(abs_) if abs_ is not None else NONE, "relative_timelock": some(rel) if rel is not None else NONE}
        a = Adt(AS, "Assets", f)
        a.fields["keys"] = PyVec([((fp, PyVec(list(path))), cs) for fp, path, cs in entries])
        return a
    KEY = Term("thekey")
    hooks = {fdp: lambda m, a, c: PyVec([PyVec([0, 1])]), mfp: lambda m, a, c: "FP",
             "bitcoin::bip32::DerivationPath::len": lambda m, a, c: len(deref(a[0]).items),
             "bitcoin::bip32::DerivationPath::is_empty": lambda m, a, c: len(deref(a[0]).items) == 0}
    m = Machine(F, strict=True, hooks=hooks)
    c14.lock_hooks(m)
    leaves_opts = [("None", None), ("Any", None), ("Single", L1), ("Single", L2), ("Many", [L2, L1]), ("Many", []), ("Many", [L2])]

    def avail(lv, leaf):
        kind, payload = lv
        return {"None": False, "Any": True, "Single": payload == leaf, "Many": leaf in (payload or [])}[kind]
    n = 0
    try:
        for fp, path, ecdsa, ks, lv, dflt in itertools.product(("FP", "OTHER"), ([0, 1], [0], [], [0, 1, 2], [1]), (True, False),
                                                                (True, False), leaves_opts, (True, False)):
            entry = (fp, path, cansign(ecdsa, ks, lv, dflt))
            a = assets([entry])
            match = fp == "FP" and path in ([0, 1], [0])
            key = "%s|m/%s|ecdsa=%s key_spend=%s leaves=%s default=%s" % (fp, "/".join(map(str, path)), ecdsa, ks, lv[0] + (str(lv[1]) if lv[1] else ""), dflt)
            n += 1
            bad = []
            r = m.call_path(items["provider_lookup_ecdsa_sig"], [a, KEY])
            if r != (match and ecdsa):
                bad.append("ECDSA availability %r, expected %r" % (r, match and ecdsa))
            r = m.call_path(items["provider_lookup_tap_key_spend_sig"], [a, KEY])
            want = (64 if dflt else 65) if (match and ks) else None
            got = r.fields["0"] if r.variant == "Some" else None
            if got != want:
                bad.append("key-spend signature size %r, expected %r" % (got, want))
            for leaf in (L1, L2):
                r = m.call_path(items["provider_lookup_tap_leaf_script_sig"], [a, KEY, leaf])
                want = (64 if dflt else 65) if (match and avail(lv, leaf)) else None
                got = r.fields["0"] if r.variant == "Some" else None
                if got != want:
                    bad.append("script-spend signature size for %r: %r, expected %r" % (leaf, got, want))
            chk.obligation(rid, not bad, key, "; ".join(bad[:2]), where="src/plan.rs")
        # two entries: one matching is enough, whichever comes first
        a2 = assets([("OTHER", [0, 1], cansign(True, True, ("Any", None), True)), ("FP", [0], cansign(True, False, ("Single", L2), False))])
        n += 1
        bad = []
        if m.call_path(items["provider_lookup_ecdsa_sig"], [a2, KEY]) is not True:
            bad.append("ECDSA not available although the second entry matches")
        if m.call_path(items["provider_lookup_tap_key_spend_sig"], [a2, KEY]).variant != "None":
            bad.append("key spend available although only a foreign entry allows it")
        r = m.call_path(items["provider_lookup_tap_leaf_script_sig"], [a2, KEY, L2])
        if not (r.variant == "Some" and r.fields["0"] == 65):
            bad.append("leaf 2 signature %r, expected Some(65)" % (r,))
        chk.obligation(rid, not bad, "two-entries", "; ".join(bad), where="src/plan.rs")
        # preimages
        for lk in ("provider_lookup_sha256", "provider_lookup_hash256", "provider_lookup_ripemd160", "provider_lookup_hash160"):
            a3 = assets([], hashes=["H1", "H2"])
            n += 1
            good = m.call_path(items[lk], [a3, "H1"]) is True and m.call_path(items[lk], [a3, "H3"]) is False and \
                m.call_path(items[lk], [assets([]), "H1"]) is False
            chk.obligation(rid, good, lk, "%s does not answer membership of the hash in the Assets' set" % lk, where="src/plan.rs")
        # locks
        TF = 1 << 22
        for limit in (None, 5, 9, 5 | TF):
            for s_ in (4, 5, 6, 5 | TF, 4 | TF, 6 | TF):
                a4 = assets([], rel=limit)
                n += 1
                r = m.call_path(items["check_older"], [a4, s_])
                want = limit is not None and (s_ & TF) == (limit & TF) and (s_ & 0xffff) <= (limit & 0xffff)
                chk.obligation(rid, r == want, "check_older|max=%r|%d" % (limit, s_), "check_older(%d) with maximum %r is %r, expected %r"
                               % (s_, limit, r, want), where="src/plan.rs")
        for limit in (None, 100, 500000100):
            for s_ in (99, 100, 101, 500000099, 500000100, 500000101):
                a5 = assets([], abs_=limit)
                n += 1
                r = m.call_path(items["check_after"], [a5, s_])
                want = limit is not None and (s_ < 500000000) == (limit < 500000000) and s_ <= limit
                chk.obligation(rid, r == want, "check_after|max=%r|%d" % (limit, s_), "check_after(%d) with maximum %r is %r, expected %r"
                               % (s_, limit, r, want), where="src/plan.rs")
        # Assets::add (public; a private helper does the merge): sets are united, a lock of the newer Assets wins, otherwise
        # the old one stays
        app = [q for q in F.fns if q.endswith("plan::Assets::add") and q in F.bodies]
        if len(app) == 1:
            for (ra, rb), (aa, ab) in itertools.product(((None, None), (5, None), (None, 7), (5, 7)), ((None, None), (100, None), (None, 200), (100, 200))):
                x = assets([("FP", [0], cansign(True, True, ("Any", None), True))], hashes=["H1"], rel=ra, abs_=aa)
                y = assets([("OTHER", [1], cansign(False, True, ("None", None), False))], hashes=["H2"], rel=rb, abs_=ab)
                for f_ in ("sha256_preimages", "hash256_preimages", "ripemd160_preimages", "hash160_preimages"):
                    x.fields[f_] = PySet(["H1"])
                    y.fields[f_] = PySet(["H2"])
                x.fields["keys"] = PySet([])
                y.fields["keys"] = PySet([])
                x = m.call_path(app[0], [x, y], {"def": app[0], "targs": ["plan::Assets"]})
                n += 1
                bad = []
                wr = rb if rb is not None else ra
                wa = ab if ab is not None else aa
                gr = x.fields["relative_timelock"]
                ga = x.fields["absolute_timelock"]
                if (gr.fields["0"] if gr.variant == "Some" else None) != wr:
                    bad.append("relative lock %r, expected %r" % (gr, wr))
                if (ga.fields["0"] if ga.variant == "Some" else None) != wa:
                    bad.append("absolute lock %r, expected %r" % (ga, wa))
                for f_ in ("sha256_preimages", "hash256_preimages", "ripemd160_preimages", "hash160_preimages"):
                    if sorted(x.fields[f_].items) != ["H1", "H2"]:
                        bad.append("%s = %r, expected the union" % (f_, x.fields[f_].items))
                chk.obligation(rid, not bad, "add|rel=%r+%r|abs=%r+%r" % (ra, rb, aa, ab), "; ".join(bad[:2]), where="src/plan.rs")
        else:
            chk.fail(rid, "anchor|add", "Assets::add not found", kind="unanalysable")
    except Unsupported as e:
        chk.fail(rid, "unanalysable", "unanalysable: %s" % e, where=e.where, kind="unanalysable")
    except Panic as e:
        chk.fail(rid, "panic", "panic: %s" % e, where="src/plan.rs")
    chk.floor(rid, "cases", n, 500)


def check_satisfier_as_provider(chk, F, rid="R17.11"):
    from ..interp import Machine, Adt, PyVec, Panic, some, NONE
    from ..builtins import deref
    chk.rule(rid, "a Satisfier used as asset provider (the blanket impl that makes plans and direct satisfactions agree): every "
                  "provider_lookup_* / check_* answers from the satisfier's namesake look-up for the same key / hash / leaf - "
                  "available iff the satisfier holds it, Schnorr signature sizes are the held signature's length, raw-pkh look-ups "
                  "pass the key on")
    imps = [i for i in F.impls if (i["trait"] or "").endswith("AssetProvider") and (i.get("self_ty") or "") in ("T",)]
    if len(imps) != 1:
        chk.fail(rid, "anchor", "blanket impl AssetProvider for T: Satisfier not found (%d)" % len(imps), kind="unanalysable")
        return
    items = {it["name"]: it["path"] for it in imps[0]["items"]}
    chk.saw(*items.values())
    held = {}

    def look(name):
        def f(m_, a, c):
            k = tuple(repr(deref(x)) for x in a[1:])
            v = held.get((name, k))
            if name in ("check_older", "check_after"):
                return bool(v)
            return some(v) if v is not None else NONE
        return f
    m = Machine(F, strict=True)
    for nm in ("lookup_ecdsa_sig", "lookup_tap_key_spend_sig", "lookup_tap_leaf_script_sig", "lookup_raw_pkh_pk", "lookup_raw_pkh_ecdsa_sig",
               "lookup_raw_pkh_tap_leaf_script_sig", "lookup_raw_pkh_x_only_pk", "lookup_sha256", "lookup_hash256", "lookup_ripemd160",
               "lookup_hash160", "check_older", "check_after"):
        m.hooks["Satisfier::" + nm] = look(nm)
        m.hooks["miniscript::satisfy::Satisfier::" + nm] = look(nm)
    m.hooks["bitcoin::ecdsa::Signature::to_vec"] = lambda m_, a, c: PyVec([0] * deref(a[0])[1])
    # a taproot signature: 64 bytes, plus the sighash byte unless it is the default one
    TSIG = "bitcoin::taproot::Signature"

    def tsig(n):
        return Adt(TSIG, "Signature", {"signature": Term("schnorr-sig"),
                                       "sighash_type": Adt("bitcoin::TapSighashType", "Default" if n == 64 else "All", {})})
    m.hooks["bitcoin::taproot::Signature::to_vec"] = \
        lambda m_, a, c: PyVec([0] * (64 if deref(a[0]).fields["sighash_type"].variant == "Default" else 65))
    m.hooks["bitcoin::taproot::Signature::serialize"] = \
        lambda m_, a, c: PyVec([0] * (64 if deref(a[0]).fields["sighash_type"].variant == "Default" else 65))
    m.hooks["bitcoin::secp256k1::schnorr::Signature::serialize"] = lambda m_, a, c: PyVec([0] * 64)
    m.hooks["bitcoin::secp256k1::schnorr::Signature::as_ref"] = lambda m_, a, c: PyVec([0] * 64)
    SAT = Term("sat")
    K, LEAF, PKH = "K", ("leaf", 1), Term("pkh")
    table = [
        ("provider_lookup_ecdsa_sig", [K], ("lookup_ecdsa_sig", (repr(K),)), ("sig", 72), True, False),
        ("provider_lookup_tap_key_spend_sig", [K], ("lookup_tap_key_spend_sig", (repr(K),)), tsig(65), some(65), NONE),
        ("provider_lookup_tap_key_spend_sig", [K], ("lookup_tap_key_spend_sig", (repr(K),)), tsig(64), some(64), NONE),
        ("provider_lookup_tap_leaf_script_sig", [K, LEAF], ("lookup_tap_leaf_script_sig", (repr(K), repr(LEAF))), tsig(64), some(64), NONE),
        ("provider_lookup_tap_leaf_script_sig", [K, LEAF], ("lookup_tap_leaf_script_sig", (repr(K), repr(LEAF))), tsig(65), some(65), NONE),
        ("provider_lookup_raw_pkh_pk", [PKH], ("lookup_raw_pkh_pk", (repr(PKH),)), Term("pk"), some(Term("pk")), NONE),
        ("provider_lookup_raw_pkh_x_only_pk", [PKH], ("lookup_raw_pkh_x_only_pk", (repr(PKH),)), Term("xpk"), some(Term("xpk")), NONE),
        ("provider_lookup_raw_pkh_ecdsa_sig", [PKH], ("lookup_raw_pkh_ecdsa_sig", (repr(PKH),)), (Term("pk"), ("sig", 72)), some(Term("pk")), NONE),
        ("provider_lookup_raw_pkh_tap_leaf_script_sig", [(PKH, LEAF)], ("lookup_raw_pkh_tap_leaf_script_sig", (repr((PKH, LEAF)),)),
         (Term("xpk"), tsig(65)), some((Term("xpk"), 65)), NONE),
        ("provider_lookup_raw_pkh_tap_leaf_script_sig", [(PKH, LEAF)], ("lookup_raw_pkh_tap_leaf_script_sig", (repr((PKH, LEAF)),)),
         (Term("xpk"), tsig(64)), some((Term("xpk"), 64)), NONE),
        ("provider_lookup_sha256", ["H"], ("lookup_sha256", (repr("H"),)), PyVec([1] * 32), True, False),
        ("provider_lookup_hash256", ["H"], ("lookup_hash256", (repr("H"),)), PyVec([1] * 32), True, False),
        ("provider_lookup_ripemd160", ["H"], ("lookup_ripemd160", (repr("H"),)), PyVec([1] * 32), True, False),
        ("provider_lookup_hash160", ["H"], ("lookup_hash160", (repr("H"),)), PyVec([1] * 32), True, False),
        ("check_older", [7], ("check_older", (repr(7),)), True, True, False),
        ("check_after", [9], ("check_after", (repr(9),)), True, True, False),
    ]
    n = 0
    for name, args, hkey, hval, want_held, want_not in table:
        if name not in items:
            chk.fail(rid, "anchor|" + name, "the blanket impl has no %s" % name, kind="unanalysable")
            continue
        for have in (True, False):
            held.clear()
            if have:
                held[hkey] = hval
            else:
                # the satisfier holds the thing for another key / hash only
                held[(hkey[0], tuple("other" for _ in hkey[1]))] = hval
            n += 1
            try:
                r = m.call_callee({"def": items[name], "resolved": items[name], "name": name, "targs": ["SAT", "PK"]}, [SAT] + list(args))
                want = want_held if have else want_not
                chk.obligation(rid, repr(deref(r)) == repr(want), "%s|%s" % (name, "held" if have else "not-held"),
                               "%s gives %r when the satisfier %s it, expected %r" % (name, r, "holds" if have else "does not hold", want),
                               where="src/plan.rs")
            except Unsupported as e:
                chk.fail(rid, "unanalysable:" + name, "unanalysable: %s" % e, where=e.where, kind="unanalysable")
            except Panic as e:
                chk.fail(rid, name, "panic: %s" % e, where="src/plan.rs")
    chk.floor(rid, "look-up cases", n, 26)


# ---- R17.12 the loop that completes a template, and the last step of a direct satisfaction ------------------------------------

def check_completion_loop(chk, F, rid="R17.12"):
    import itertools
    from ..interp import Machine, Adt, PyVec, Panic, some, NONE
    from ..builtins import deref
    chk.rule(rid, "Satisfaction::try_completing turns a template into the witness element by element: the elements "
                  "Placeholder::satisfy_self returns, in the template's order, none dropped or repeated; None as soon as one "
                  "placeholder cannot be completed; Unavailable / Impossible stay what they are; has_sig and both locks are "
                  "passed on unchanged; Miniscript::_satisfy returns the stack of a Stack witness and CouldNotSatisfy for "
                  "Unavailable / Impossible; Plan::satisfaction_weight = witness_size + 4 * scriptsig_size")
    tc = [q for q in F.fns if q.endswith("::try_completing") and "Placeholder" in q]
    ss = [q for q in F.fns if q.endswith("Placeholder::<Pk>::satisfy_self")]
    sat = [q for q in F.fns if q.endswith("Miniscript<Pk, Ctx>>::_satisfy")]
    if len(tc) != 1 or len(ss) != 1 or len(sat) != 1:
        chk.fail(rid, "anchor", "try_completing / satisfy_self / _satisfy not found (%d, %d, %d)" % (len(tc), len(ss), len(sat)),
                 kind="unanalysable")
        return
    chk.saw(tc[0], sat[0])
    WIT = satmodel.WIT
    failing = set()
    asked = []

    def self_hook(m_, a, c):
        ph = deref(a[0])
        asked.append(ph)
        return NONE if ph in failing else some(("bytes-of", ph))
    m = Machine(F, strict=True, hooks={ss[0]: self_hook})
    n = 0
    try:
        for ln in range(0, 4):
            stack = ["p%d" % i for i in range(ln)]
            for fail in [None] + list(range(ln)):
                for has_sig, rel, ab in ((True, some(Term("REL")), NONE), (False, NONE, some(Term("ABS")))):
                    failing.clear()
                    del asked[:]
                    if fail is not None:
                        failing.add(stack[fail])
                    tpl = Adt(SAT, "Satisfaction", {"stack": Adt(WIT, "Stack", {"0": PyVec(list(stack))}), "has_sig": has_sig,
                                                    "relative_timelock": rel, "absolute_timelock": ab})
                    r = m.call_callee({"def": tc[0], "resolved": tc[0], "name": "try_completing", "targs": ["PK", "SAT"]}, [tpl, Term("stfr")])
                    n += 1
                    key = "try_completing|len=%d|fails=%s|has_sig=%s" % (ln, fail, has_sig)
                    if fail is not None:
                        chk.obligation(rid, r.variant == "None", key, "placeholder %d cannot be completed but the result is %r" % (fail, r),
                                       where="src/miniscript/satisfy/mod.rs")
                        continue
                    bad = []
                    if r.variant != "Some":
                        bad.append("result %r" % (r,))
                    else:
                        v = deref(r.fields["0"])
                        st = deref(v.fields["stack"])
                        got = [deref(x) for x in deref(st.fields["0"]).items] if st.variant == "Stack" else st
                        if got != [("bytes-of", x) for x in stack]:
                            bad.append("witness %r for the template %r" % (got, stack))
                        if v.fields["has_sig"] is not has_sig or repr(v.fields["relative_timelock"]) != repr(rel) \
                                or repr(v.fields["absolute_timelock"]) != repr(ab):
                            bad.append("has_sig / locks (%r, %r, %r), the template has (%r, %r, %r)" % (
                                v.fields["has_sig"], v.fields["relative_timelock"], v.fields["absolute_timelock"], has_sig, rel, ab))
                    chk.obligation(rid, not bad, key, "; ".join(bad), where="src/miniscript/satisfy/mod.rs")
        for kind in ("Unavailable", "Impossible"):
            tpl = Adt(SAT, "Satisfaction", {"stack": Adt(WIT, kind, {}), "has_sig": False, "relative_timelock": NONE,
                                            "absolute_timelock": some(Term("ABS"))})
            r = m.call_callee({"def": tc[0], "resolved": tc[0], "name": "try_completing", "targs": ["PK", "SAT"]}, [tpl, Term("stfr")])
            n += 1
            good = r.variant == "Some" and deref(deref(r.fields["0"]).fields["stack"]).variant == kind
            chk.obligation(rid, good, "try_completing|" + kind, "a template that is %s completes to %r" % (kind, r),
                           where="src/miniscript/satisfy/mod.rs")
            s_ = Adt(SAT, "Satisfaction", {"stack": Adt(WIT, kind, {}), "has_sig": False, "relative_timelock": NONE, "absolute_timelock": NONE})
            r = m.call_callee({"def": sat[0], "resolved": sat[0], "name": "_satisfy", "targs": ["PK", "CTX"]}, [Term("ms"), s_])
            n += 1
            chk.obligation(rid, r.variant == "Err" and "CouldNotSatisfy" in repr(r), "_satisfy|" + kind,
                           "a %s satisfaction is returned as %r" % (kind, r), where="src/miniscript/mod.rs")
        s_ = Adt(SAT, "Satisfaction", {"stack": Adt(WIT, "Stack", {"0": PyVec(["e0", "e1"])}), "has_sig": True, "relative_timelock": NONE,
                                       "absolute_timelock": NONE})
        r = m.call_callee({"def": sat[0], "resolved": sat[0], "name": "_satisfy", "targs": ["PK", "CTX"]}, [Term("ms"), s_])
        n += 1
        good = r.variant == "Ok" and [deref(x) for x in deref(r.fields["0"]).items] == ["e0", "e1"]
        chk.obligation(rid, good, "_satisfy|Stack", "a Stack satisfaction [e0, e1] is returned as %r" % (r,), where="src/miniscript/mod.rs")
        # Plan::satisfaction_weight
        sw = [q for q in F.fns if q.endswith("Plan::<Pk>::satisfaction_weight")]
        ws = [q for q in F.fns if q.endswith("Plan::<Pk>::witness_size")]
        sg = [q for q in F.fns if q.endswith("Plan::<Pk>::scriptsig_size")]
        if len(sw) == 1 and len(ws) == 1 and len(sg) == 1:
            chk.saw(sw[0])
            m2 = Machine(F, strict=True, hooks={ws[0]: lambda m_, a, c: 1000, sg[0]: lambda m_, a, c: 7})
            r = m2.call_callee({"def": sw[0], "resolved": sw[0], "name": "satisfaction_weight", "targs": ["PK"]}, [Term("plan")])
            n += 1
            chk.obligation(rid, r == 1028, "satisfaction_weight", "with witness_size 1000 and scriptsig_size 7 the weight is %r, "
                           "expected 1000 + 4 * 7" % (r,), where="src/plan.rs")
        else:
            chk.fail(rid, "anchor|satisfaction_weight", "Plan::satisfaction_weight / witness_size / scriptsig_size not found", kind="unanalysable")
    except Unsupported as e:
        chk.fail(rid, "unanalysable", "unanalysable: %s" % e, where=e.where, kind="unanalysable")
    except Panic as e:
        chk.fail(rid, "panic", "panic: %s" % e, where="src/miniscript/satisfy/mod.rs")
    chk.floor(rid, "cases", n, 25)


# ---- R17.13 building Assets ----------------------------------------------------------------------------------------------------------

def check_into_assets(chk, F, rid="R17.13"):
    from ..interp import Machine, Adt, PyVec, Panic, some, NONE
    from .. import builtins as B
    from ..builtins import deref
    chk.rule(rid, "the conversions into Assets put every asset where the planner looks for it: a descriptor key (alone, in a "
                  "vector, from an iterator, as the keys of a KeyMap) contributes one (master fingerprint, full path) entry "
                  "per derivation path with the default signing capabilities; a sha256 / hash256 / ripemd160 / hash160 hash goes "
                  "into the preimage set of its own kind only; everything else stays empty; Assets::new is empty and "
                  "older / after set the one lock they name")
    ASSETS = "plan::Assets"
    imps = {}
    for i in F.impls:
        if (i["trait"] or "").endswith("IntoAssets"):
            for it in i["items"]:
                if it["name"] == "into_assets" and it["path"] in F.bodies:
                    imps[i.get("self_ty") or i.get("self_adt")] = it["path"]
    fi = [it["path"] for i in F.impls if (i["trait"] or "").startswith("std::iter::FromIterator") and i.get("self_adt") == ASSETS
          for it in i["items"] if it["name"] == "from_iter"]
    need = ["descriptor::key_map::KeyMap", "descriptor::key::DescriptorPublicKey", "std::vec::Vec<descriptor::key::DescriptorPublicKey>",
            "bitcoin::bitcoin_hashes::sha256::Hash", "miniscript::hash256::Hash", "bitcoin::bitcoin_hashes::ripemd160::Hash",
            "bitcoin::bitcoin_hashes::hash160::Hash", ASSETS]
    missing = [t for t in need if t not in imps]
    if missing or len(fi) != 1:
        chk.fail(rid, "anchor", "IntoAssets impls not found for %r (have %r); FromIterator: %d" % (missing, sorted(imps), len(fi)), kind="unanalysable")
        return
    for t in imps:
        if t not in need:
            chk.fail(rid, "unlisted|" + t, "impl IntoAssets for %s is not in the checker's table" % t)
    chk.saw(fi[0], *imps.values())
    paths = {"K1": ["p1a"], "K2": ["p2a", "p2b"], "K3": []}
    hooks = {}
    for q in F.fns:
        if q.endswith("DescriptorPublicKey::full_derivation_paths"):
            hooks[q] = lambda m_, a, c: PyVec(list(paths[deref(a[0])]))
        if q.endswith("DescriptorPublicKey::master_fingerprint"):
            hooks[q] = lambda m_, a, c: ("fp", deref(a[0]))
    m = Machine(F, strict=True, hooks=hooks)
    n = 0
    SETS = ["sha256_preimages", "hash256_preimages", "ripemd160_preimages", "hash160_preimages"]

    def view(a):
        a = deref(a)
        out = {}
        for f_ in ["keys"] + SETS:
            out[f_] = sorted(repr(deref(x)) for x in B.items_of(a.fields[f_]))
        out["abs"] = repr(a.fields["absolute_timelock"])
        out["rel"] = repr(a.fields["relative_timelock"])
        return out
    try:
        cs = m.call_path([q for q in F.fns if q.endswith("plan::CanSign as std::default::Default>::default")][0], [])

        tcs = deref(cs.fields["taproot"])
        chk.obligation(rid, cs.fields["ecdsa"] is True and tcs.fields["key_spend"] is True and tcs.fields["sighash_default"] is True
                       and deref(tcs.fields["script_spend"]).variant == "Any", "CanSign::default",
                       "the default signing capabilities are %r; documented: ECDSA, taproot key spend, any leaf, default sighash" % (cs,),
                       where="src/plan.rs")

        def want_keys(ks):
            return sorted(repr(((("fp", k), p_), cs)) for k in ks for p_ in paths[k])
        empty = {f_: [] for f_ in ["keys"] + SETS}
        empty.update({"abs": repr(NONE), "rel": repr(NONE)})
        cases = [("DescriptorPublicKey|1 path", imps["descriptor::key::DescriptorPublicKey"], "K1", {"keys": want_keys(["K1"])}),
                 ("DescriptorPublicKey|2 paths", imps["descriptor::key::DescriptorPublicKey"], "K2", {"keys": want_keys(["K2"])}),
                 ("Vec|K1,K2,K3", imps["std::vec::Vec<descriptor::key::DescriptorPublicKey>"], PyVec(["K1", "K2", "K3"]), {"keys": want_keys(["K1", "K2"])}),
                 ("FromIterator|K2,K1", fi[0], PyVec(["K2", "K1"]), {"keys": want_keys(["K1", "K2"])}),
                 ("KeyMap|K1,K2", imps["descriptor::key_map::KeyMap"],
                  Adt("descriptor::key_map::KeyMap", "KeyMap", {"map": B.PyMap([("K1", "secret1"), ("K2", "secret2")])}), {"keys": want_keys(["K1", "K2"])})]
        for ty, fld in (("bitcoin::bitcoin_hashes::sha256::Hash", "sha256_preimages"), ("miniscript::hash256::Hash", "hash256_preimages"),
                        ("bitcoin::bitcoin_hashes::ripemd160::Hash", "ripemd160_preimages"), ("bitcoin::bitcoin_hashes::hash160::Hash", "hash160_preimages")):
            cases.append((ty.split("::")[-2] + "|hash", imps[ty], "HASH", {fld: [repr("HASH")]}))
        for key, fn_, arg, delta in cases:
            r = m.call_callee({"def": fn_, "resolved": fn_, "name": "into_assets", "targs": ["I"]}, [arg])
            n += 1
            want = dict(empty)
            want.update(delta)
            got = view(r)
            chk.obligation(rid, got == want, key, "gives %r, expected %r" % ({k: v for k, v in got.items() if v != empty[k]}, delta), where="src/plan.rs")
        # Assets itself, new, older, after
        new_ = [q for q in F.fns if q.endswith("plan::Assets::new")][0]
        older = [q for q in F.fns if q.endswith("plan::Assets::older")][0]
        after = [q for q in F.fns if q.endswith("plan::Assets::after")][0]
        chk.saw(new_, older, after)
        a0 = m.call_path(new_, [])
        n += 1
        chk.obligation(rid, view(a0) == empty, "new", "Assets::new() is %r" % (view(a0),), where="src/plan.rs")
        same = m.call_path(imps[ASSETS], [a0])
        chk.obligation(rid, view(same) == empty, "Assets|identity", "Assets::into_assets changes the value", where="src/plan.rs")
        a1 = m.call_path(older, [m.call_path(new_, []), Term("REL")])
        a2 = m.call_path(after, [m.call_path(new_, []), Term("ABS")])
        n += 2
        w1 = dict(empty)
        w1["rel"] = repr(some(Term("REL")))
        w2 = dict(empty)
        w2["abs"] = repr(some(Term("ABS")))
        chk.obligation(rid, view(a1) == w1, "older", "Assets::new().older(REL) is %r" % (view(a1),), where="src/plan.rs")
        chk.obligation(rid, view(a2) == w2, "after", "Assets::new().after(ABS) is %r" % (view(a2),), where="src/plan.rs")
    except (IndexError, KeyError) as e:
        chk.fail(rid, "anchor|helpers", "missing %r" % (e,), kind="unanalysable")
    except Unsupported as e:
        chk.fail(rid, "unanalysable", "unanalysable: %s" % e, where=e.where, kind="unanalysable")
    except Panic as e:
        chk.fail(rid, "panic", "panic: %s" % e, where="src/plan.rs")
    chk.floor(rid, "cases", n, 12)


# ---- R17.14 how witness elements are written into a scriptSig ---------------------------------------------------------------------------

def _scriptint(bs):
    """rust-bitcoin's read_scriptint: minimally encoded numbers of at most 4 bytes"""
    if len(bs) > 4:
        return None
    if not bs:
        return 0
    if (bs[-1] & 0x7f) == 0 and (len(bs) <= 1 or (bs[-2] & 0x80) == 0):
        return None
    v = 0
    for i, b in enumerate(bs):
        v |= b << (8 * i)
    if bs[-1] & 0x80:
        v &= ~(0x80 << (8 * (len(bs) - 1)))
        v = -v
    return v


def check_scriptsig_encoding(chk, F, rid="R17.14"):
    from ..interp import Machine, Adt, PyVec, Panic, some, NONE, ok, err
    from .. import builtins as B
    from ..builtins import deref
    chk.rule(rid, "witness elements are written into a pre-segwit scriptSig with minimal pushes (the standardness rule "
                  "MINIMALDATA): util::witness_to_scriptsig emits OP_0 for the empty element, OP_1..OP_16 / OP_1NEGATE for the "
                  "one-byte numbers - the `1` that selects an or_i / d: branch - and a plain push of the very bytes otherwise; "
                  "Plan::satisfy for bare / pkh / sh outputs produces the same script as the direct satisfier for the same "
                  "elements (signature, branch selector, empty vector, redeem script)")
    try:
        wts = F.fn("witness_to_scriptsig", file="util.rs")
        psat = F.fn("satisfy", file="plan.rs", container="Plan<")
        desc_type = F.fn("desc_type", file="descriptor/mod.rs")
        explicit = F.fn("explicit_script", file="descriptor/mod.rs")
        satisfy_self = F.fn("satisfy_self", file="satisfy/mod.rs")
    except KeyError as e:
        chk.fail(rid, "anchor", "missing anchor %s" % e, kind="unanalysable")
        return
    chk.saw(wts, psat)

    def bytes_of(v):
        v = deref(v)
        if isinstance(v, PyVec):
            return tuple(deref(x) for x in v.items)
        raise Unsupported("bytes %r" % (v,))
    h = {}
    h["bitcoin::script::Builder::new"] = lambda m_, a, c: PyVec([])
    h["bitcoin::script::Builder::push_int"] = lambda m_, a, c: PyVec(list(deref(a[0]).items) + [("int", deref(a[1]))])
    h["bitcoin::script::Builder::push_slice"] = lambda m_, a, c: PyVec(list(deref(a[0]).items) + [("slice", bytes_of(a[1]))])
    h["bitcoin::script::Builder::into_script"] = lambda m_, a, c: ("script", tuple(deref(a[0]).items))
    h["bitcoin::script::read_scriptint"] = lambda m_, a, c: (lambda n_: ok(n_) if n_ is not None else err(Term("not-a-number")))(_scriptint(list(bytes_of(a[0]))))
    h["bitcoin::blockdata::script::read_scriptint"] = h["bitcoin::script::read_scriptint"]
    h["bitcoin::script::PushBytesBuf::try_from"] = lambda m_, a, c: ok(a[0])
    h["std::vec::Vec::<T, A>::as_slice"] = lambda m_, a, c: a[0]
    h["bitcoin::ScriptBuf::into_bytes"] = lambda m_, a, c: PyVec(list(deref(a[0])[1]))
    saved = B.TRAIT_TABLE.get(("std::convert::TryFrom", "try_from"))

    def tf(m_, a, c):
        st = " ".join([c.get("self_ty") or ""] + (c.get("targs") or []))
        if "PushBytes" in st:
            return ok(a[0])
        return saved(m_, a, c) if saved else B.NOT_HANDLED
    B.TRAIT_TABLE[("std::convert::TryFrom", "try_from")] = tf
    n = 0
    try:
        m = Machine(F, strict=True, hooks=h)

        def minimal(e):
            """the token MINIMALDATA prescribes for pushing the bytes e"""
            if len(e) == 0:
                return ("int", 0)
            if len(e) == 1 and 1 <= e[0] <= 16:
                return ("int", e[0])
            if len(e) == 1 and e[0] == 0x81:
                return ("int", -1)
            return None          # any push of exactly these bytes

        def same_bytes(tok, e):
            if tok[0] == "slice":
                return tuple(tok[1]) == tuple(e)
            return _scriptint(list(e)) == tok[1]
        def canon(tok):
            # push_slice of nothing is the byte 0x00, i.e. OP_0
            return ("int", 0) if tok == ("slice", ()) else tok
        SIG = tuple([0x30] + [7] * 70)
        elems = [(), (1,), (2,), (16,), (0x81,), (17,), (0x80,), (0,), (1, 0), (0xff, 0x7f), (5, 0, 0, 0, 0), SIG, tuple([9] * 33),
                 tuple([0x30] + [7] * 71), tuple([0x30] + [7] * 72), tuple([9] * 65)]
        for e in elems:
            try:
                r = m.call_path(wts, [PyVec([PyVec(list(e)), PyVec(list(SIG))])])
            except Panic as ex:
                # a DER signature with its sighash byte is up to 73 bytes long
                n += 1
                chk.obligation(rid, False, "witness_to_scriptsig|len%d" % len(e),
                               "an element of %d bytes (a signature may be 73 bytes with its sighash byte) makes witness_to_scriptsig panic: %s"
                               % (len(e), str(ex)[:120]), F.fns[wts]["span"])
                continue
            n += 1
            toks = deref(r)[1]
            want = minimal(e)
            good = len(toks) == 2 and same_bytes(toks[0], e) and (want is None or canon(toks[0]) == want)
            chk.obligation(rid, good, "witness_to_scriptsig|%s" % ("".join("%02x" % b for b in e)[:20] or "empty"),
                           "element %s is written as %r%s" % ("".join("%02x" % b for b in e)[:24] or "<empty>", toks[0] if toks else toks,
                                                             ", MINIMALDATA asks for %r" % (want,) if want else ""), F.fns[wts]["span"])
        DT = "descriptor::DescriptorType"
        REDEEM = tuple([0x51] * 40)
        for dt in ("Bare", "Pkh", "Sh"):
            stack = [SIG, (1,), ()]
            it = iter(stack)
            hooks2 = dict(h)
            hooks2[desc_type] = lambda m_, a, c, dt=dt: Adt(DT, dt, {})
            hooks2[explicit] = lambda m_, a, c: ok(("script", tuple(("byte", b) for b in REDEEM)))
            hooks2["bitcoin::ScriptBuf::into_bytes"] = lambda m_, a, c: PyVec(list(REDEEM))
            hooks2[satisfy_self] = lambda m_, a, c: some(PyVec(list(deref(a[0]))))
            m2 = Machine(F, strict=True, hooks=hooks2)
            plan = Adt("plan::Plan", "Plan", {"template": PyVec([tuple(x) for x in stack]), "absolute_timelock": NONE,
                                              "relative_timelock": NONE, "descriptor": Term("descriptor")})
            r = m2.call_callee({"def": psat, "resolved": psat, "name": "satisfy", "targs": ["PK", "SAT"]}, [plan, Term("stfr")])
            n += 1
            full = stack + ([REDEEM] if dt == "Sh" else [])
            direct = deref(m.call_path(wts, [PyVec([PyVec(list(e)) for e in full])]))
            bad = []
            if r.variant != "Ok":
                bad.append("result %r" % (r,))
            else:
                wit, ssig = deref(r.fields["0"])
                if len(deref(wit).items) != 0:
                    bad.append("a witness %r for a pre-segwit output" % (wit,))
                if not (isinstance(deref(ssig), tuple) and tuple(map(canon, deref(ssig)[1])) == tuple(map(canon, direct[1]))):
                    bad.append("scriptSig %r, the direct satisfier writes %r" % (deref(ssig)[1][1:3] if isinstance(deref(ssig), tuple) else ssig, direct[1][1:3]))
            chk.obligation(rid, not bad, "Plan::satisfy|" + dt, "; ".join(bad)[:600], F.fns[psat]["span"])
    except Unsupported as e:
        chk.fail(rid, "unanalysable", "unanalysable: %s" % e, where=e.where, kind="unanalysable")
    except Panic as e:
        chk.fail(rid, "panic", "panic: %s" % e, where="src/util.rs")
    finally:
        if saved is None:
            B.TRAIT_TABLE.pop(("std::convert::TryFrom", "try_from"), None)
        else:
            B.TRAIT_TABLE[("std::convert::TryFrom", "try_from")] = saved
    chk.floor(rid, "cases", n, 16)


# ---- R17.16 the scriptSig size a plan announces -----------------------------------------------------------------------------------------

def check_scriptsig_size(chk, F, rid="R17.16"):
    import itertools
    from ..interp import Machine, Adt, PyVec, Panic, ok, some, NONE
    from ..builtins import deref
    from . import weights
    chk.rule(rid, "Plan::scriptsig_size is not smaller than the scriptSig Plan::satisfy builds, length prefix included: for "
                  "bare / pkh the pushes of the template's elements, for sh(ms) those plus the push of the redeem script (push "
                  "opcode sizes crossing 75/76 and 255/256), each with the compact-size prefix of the total (crossing 252/253); "
                  "24 / 36 bytes for sh(wpkh) / sh(wsh); 1 (the empty scriptSig's prefix) for native segwit and taproot")
    try:
        ss = F.fn("scriptsig_size", file="plan.rs", container="Plan<")
        desc_type = F.fn("desc_type", file="descriptor/mod.rs")
        explicit = F.fn("explicit_script", file="descriptor/mod.rs")
        segv = F.fn("segwit_version", file="descriptor/mod.rs")
    except KeyError as e:
        chk.fail(rid, "anchor", "missing anchor %s" % e, kind="unanalysable")
        return
    chk.saw(ss)
    DT = "descriptor::DescriptorType"
    state = {}
    hooks = {desc_type: lambda m_, a, c: Adt(DT, state["dt"], {}),
             explicit: lambda m_, a, c: ok(("script-of-len", state["S"])),
             "bitcoin::ScriptBuf::len": lambda m_, a, c: deref(a[0])[1],
             "bitcoin::Script::len": lambda m_, a, c: deref(a[0])[1]}
    for q in F.fns:
        if q.endswith("ItemSize>::size") and "Placeholder" in q:
            hooks[q] = lambda m_, a, c: deref(a[0])[1]
    hooks["util::ItemSize::size"] = lambda m_, a, c: deref(a[0])[1]
    m = Machine(F, strict=True, hooks=hooks)
    n = 0
    bad = {}
    try:
        for dt in F.variants(DT):
            for items, S in itertools.product(([73], [73, 34], [73, 73, 2], [73, 73, 73, 1], [73] * 4, [66] * 20), (25, 75, 76, 252, 255, 256, 520)):
                state.update(dt=dt, S=S)
                plan = Adt("plan::Plan", "Plan", {"template": PyVec([("item", k) for k in items]), "absolute_timelock": NONE,
                                                  "relative_timelock": NONE, "descriptor": Term("descriptor")})
                got = m.call_callee({"def": ss, "resolved": ss, "name": "scriptsig_size", "targs": ["PK"]}, [plan])
                n += 1
                if dt in ("Bare", "Pkh"):
                    c_ = sum(items)
                    want = weights.varint(c_) + c_
                elif dt == "Sh":
                    c_ = sum(items) + weights.push_size(S) + S
                    want = weights.varint(c_) + c_
                elif dt == "ShWpkh":
                    want = 24
                elif dt == "ShWsh":
                    want = 36
                else:
                    want = 1
                if not (isinstance(got, int) and got >= want):
                    bad.setdefault(dt, []).append("elements %r, script %d bytes: announced %r, the scriptSig takes %d" % (items, S, got, want))
        for dt in F.variants(DT):
            v = bad.get(dt, [])
            chk.obligation(rid, not v, dt, "%d case(s); first: %s" % (len(v), v[0] if v else ""), F.fns[ss]["span"], detail=v[:6])
    except Unsupported as e:
        chk.fail(rid, "unanalysable", "unanalysable: %s" % e, where=e.where, kind="unanalysable")
    except Panic as e:
        chk.fail(rid, "panic", "panic: %s" % e, where="src/plan.rs")
    chk.floor(rid, "cases", n, 300)


def run(chk):
    F = chk.facts()
    chk.explanation = (
        "Decides structural necessary conditions: (R17.1) plans and direct satisfactions come from the same template "
        "builders (call structure) and into_plan copies template and locks; (R17.2) Plan::satisfy's per-type assembly "
        "equals the direct assembly / the standard; (R17.3) every Satisfaction value takes stack, absolute and relative "
        "lock from one source (exact tables of minimum / minimum_mall; symbolic concatenate_rev; per-fragment templates "
        "with symbolic locks); (R17.4) announced sizes count everything produced; mode dispatch of the plan entry points.")
    chk.trusted = ["spec/outputs.py, spec/satisfaction.py", "factgen THIR; msverif.interp"]
    chk.assumptions = ["equality of produced bytes is not decided",
                       "Assets-based key matching (bip32 paths) is only covered for panics (C11)"]
    try:
        P = satmodel.paths(F)
    except KeyError as e:
        chk.fail("R17.1", "anchors", "missing anchor: %s" % e, kind="unanalysable")
        return
    check_plan_structure(chk, F)
    assembly.check_plan_assembly(chk, F, "R17.2")
    assembly.check_tap_assembly(chk, F, "R17.2t")
    check_provenance(chk, F, P)
    assembly.check_plan_sizes(chk, F, "R17.4")
    from . import limits
    limits.check_item_sizes(chk, F)
    check_key_source_table(chk, F)
    n = modes.check_modes(chk, F, "R17.5", ["descriptor/mod.rs", "descriptor/bare.rs", "descriptor/segwitv0.rs",
                                            "descriptor/sh.rs", "descriptor/tr/mod.rs", "plan.rs"])
    chk.floor("R17.5", "mode-specific call sites", n, 30)
    from . import e2e
    chk.guard("R17.8", "locks-exact", e2e.check, chk, F, "R17.8", "locks",
              "whole scripts (~60) x every key subset x preimage set x locks met or not x both modes, the template builder "
              "the planner uses evaluated with a modelled AssetProvider: the absolute / relative lock a template reports is "
              "necessary and sufficient for its witness in the reference execution - the spend validates with it, fails with "
              "one less and with the other unit, and a template that reports no lock needs none")
    chk.guard("R17.9", "placeholder-completion", check_placeholder_completion, chk, F)
    chk.guard("R17.10", "assets-provider", check_assets_provider, chk, F)
    chk.guard("R17.11", "satisfier-as-provider", check_satisfier_as_provider, chk, F)
    chk.guard("R17.12", "completion-loop", check_completion_loop, chk, F)
    chk.guard("R17.13", "into-assets", check_into_assets, chk, F)
    chk.guard("R17.14", "scriptsig-encoding", check_scriptsig_encoding, chk, F)
    chk.guard("R17.16", "scriptsig-size", check_scriptsig_size, chk, F)
    # the locks a plan reports are merged part by part (rule shared with C03)
    from . import c03
    chk.guard("R17.15", "lock-merge", c03.check_lock_merge, chk, F, "R17.15")
    chk.guard("R17.17", "template-completable", check_template_completable, chk, F)
