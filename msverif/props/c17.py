"""C17 -- spending plans are faithful to the satisfier and report exact time locks.

Structural clauses (DESIGN.md C17): plans use the same template builders as the satisfier, Plan::satisfy
assembles what the direct path assembles, every Satisfaction value takes (stack, absolute, relative) from one
source, into_plan copies the locks, announced sizes count what is produced."""

from .. import symx, satmodel, modes, model
from ..interp import Machine, Adt, Term, PyVec, Panic, explore, some, NONE
from ..report import Unsupported
from . import assembly, c01, c02

LEVEL = "other"
SAT = satmodel.SAT


def check_plan_structure(chk, F):
    rid = "R17.1"
    chk.rule(rid, "direct satisfaction is defined as template completion (build_template[_mall] then try_completing) "
                  "and plans are built from the same templates: into_plan[_mall] dispatch to plan_satisfaction[_mall], "
                  "which call build_template[_mall] / best_tap_spend; a plan exists iff the template is a Stack and "
                  "copies absolute -> absolute, relative -> relative")
    # Satisfaction::satisfy = build_template(..).try_completing(..)
    for nm, want in (("satisfy", "build_template"), ("satisfy_mall", "build_template_mall")):
        try:
            p = F.fn(nm, file="satisfy/mod.rs", container="Satisfaction<std::vec::Vec<u8>>")
        except KeyError as e:
            chk.fail(rid, nm + "|anchor", "missing %s" % e, kind="unanalysable")
            continue
        chk.saw(p)
        names = [c["name"] for c in symx.callsites(F, p)]
        chk.obligation(rid, want in names and "try_completing" in names, "Satisfaction::" + nm,
                       "Satisfaction::%s calls %s; expected %s followed by try_completing" % (nm, names, want), F.fns[p]["span"])
    # plan_satisfaction of script wrappers calls the Miniscript template builder
    for adt, file in (("Bare", "descriptor/bare.rs"), ("Wsh", "descriptor/segwitv0.rs"), ("Sh", "descriptor/sh.rs")):
        for nm, want in (("plan_satisfaction", "build_template"), ("plan_satisfaction_mall", "build_template_mall")):
            try:
                p = F.fn(nm, file=file, container="::" + adt + "<")
            except KeyError as e:
                chk.fail(rid, "%s::%s|anchor" % (adt, nm), "missing %s" % e, kind="unanalysable")
                continue
            names = [c["name"] for c in symx.callsites(F, p)]
            chk.obligation(rid, want in names or nm in names, "%s::%s" % (adt, nm),
                           "%s::%s calls %s; expected %s" % (adt, nm, names, want), F.fns[p]["span"])
    # into_plan: Stack -> Ok(Plan{template: stack, locks copied}); else Err(self)
    for nm in ("into_plan", "into_plan_mall"):
        try:
            p = F.fn(nm, file="descriptor/mod.rs")
        except KeyError as e:
            chk.fail(rid, nm + "|anchor", "missing %s" % e, kind="unanalysable")
            continue
        chk.saw(p)
        plans = symx.find_nodes(F.thir(p)["body"], lambda n: n.get("k") == "adt" and n.get("adt") == "plan::Plan")
        good = len(plans) == 1
        msg = "%d Plan literals" % len(plans)
        if good:
            fields = {f["name"]: f["e"] for f in plans[0]["fields"]}
            for lock in ("absolute_timelock", "relative_timelock"):
                src = [n["name"] for n in symx.find_nodes(fields.get(lock, {}), lambda n: n.get("k") == "field")]
                if src[:1] != [lock]:
                    good = False
                    msg = "Plan.%s is built from %s" % (lock, src)
            tsrc = symx.strip_expr(fields.get("template", {}))
            if tsrc.get("name") != "stack":
                good = False
                msg = "Plan.template is %r" % (tsrc.get("name"),)
        chk.obligation(rid, good, nm + "|plan-literal",
                       "Descriptor::%s: %s (the plan must carry the chosen witness template and its own absolute / "
                       "relative lock)" % (nm, msg), F.fns[p]["span"])


def check_provenance(chk, F, P):
    rid = "R17.3"
    chk.rule(rid, "field provenance: every Satisfaction built by minimum / minimum_mall / concatenate_rev / the or_i, d: "
                  "struct updates / try_completing takes (stack, absolute_timelock, relative_timelock) from one source "
                  "(or the max of both in concatenate_rev, impossible on mixed units)")
    c02.check_minimum_tables(chk, F, P, rid, which=("minimum", "minimum_mall"))
    # concatenate_rev: locks = max of both, same kind with same kind
    m = Machine(F, strict=False,
                hooks={},
                uninterpreted=lambda p, c: c.get("name") == "max" and ("LockTime" in (c.get("container") or "") or "LockTime" in (c.get("def") or "")))

    def val(tag):
        return Adt(SAT, "Satisfaction", {
            "stack": Adt(satmodel.WIT, "Stack", {"0": PyVec([Term("w" + tag)])}), "has_sig": False,
            "absolute_timelock": some(Term("abs" + tag)), "relative_timelock": some(Term("rel" + tag))})
    try:
        res = explore(m, lambda: m.call_path(P["concatenate_rev"], [val("1"), val("2")]))
    except Unsupported as e:
        chk.fail(rid, "concatenate_rev|unanalysable", "unanalysable: %s" % e, kind="unanalysable")
        return
    ok_paths = 0
    for conds, r in res:
        if not isinstance(r, Adt):
            continue
        st = r.fields["stack"]
        if st.variant == "Impossible":
            continue
        ok_paths += 1
        a, rl = repr(r.fields["absolute_timelock"]), repr(r.fields["relative_timelock"])
        good = "abs1" in a and "abs2" in a and "rel" not in a and "rel1" in rl and "rel2" in rl and "abs" not in rl
        chk.obligation(rid, good, "concatenate_rev|locks",
                       "concatenate_rev combines locks as absolute=%s relative=%s; expected max(abs1, abs2) / max(rel1, rel2)"
                       % (a, rl), F.fns[P["concatenate_rev"]]["span"])
        items = st.fields["0"].items
        chk.obligation(rid, [repr(i) for i in items] == ["w2", "w1"], "concatenate_rev|order",
                       "x.concatenate_rev(y) stacks %r; expected y's witness below x's" % (items,), F.fns[P["concatenate_rev"]]["span"])
    chk.obligation(rid, ok_paths >= 1, "concatenate_rev|paths", "no non-impossible path through concatenate_rev")
    # mixed units -> impossible: a None from max must give IMPOSSIBLE
    imp = [r for c, r in res if isinstance(r, Adt) and r.fields["stack"].variant == "Impossible"]
    chk.obligation(rid, len(imp) >= 2, "concatenate_rev|mixed", "concatenate_rev must return IMPOSSIBLE when either lock "
                   "pair cannot be merged (found %d such paths)" % len(imp), F.fns[P["concatenate_rev"]]["span"])
    # try_completing copies the locks
    try:
        tc = F.fn("try_completing", file="satisfy/mod.rs")
        lits = symx.find_nodes(F.thir(tc)["body"], lambda n: n.get("k") == "adt" and n.get("adt") == SAT)
        good = False
        for l in lits:
            f = {x["name"]: x["e"] for x in l["fields"]}
            srcs = {k: [n.get("name") for n in symx.find_nodes(v, lambda n: n.get("k") in ("var", "upvar"))] for k, v in f.items()}
            good = srcs.get("absolute_timelock") == ["absolute_timelock"] and srcs.get("relative_timelock") == ["relative_timelock"]
        chk.obligation(rid, good, "try_completing|locks", "try_completing must copy absolute / relative locks unchanged", F.fns[tc]["span"])
    except KeyError as e:
        chk.fail(rid, "try_completing|anchor", "missing %s" % e, kind="unanalysable")
    # templates with locks: the satisfaction of every fragment carries the locks of exactly the children it uses
    check_template_locks(chk, F, P, rid)


def check_template_locks(chk, F, P, rid):
    where = F.fns[P["sat_dissat"]]["span"]
    for v in ("DupIf", "OrI", "AndV", "AndB", "Alt", "Verify", "NonZero"):
        try:
            res, m = satmodel.run_variant(F, v, True, P=P, locks=True)
        except Unsupported as e:
            chk.fail(rid, "locks|%s|unanalysable" % v, "unanalysable: %s" % e, where, kind="unanalysable")
            continue
        for conds, r in res:
            s, d = c01.sd_parts(r)
            if s is None:
                continue
            for tag, x in (("sat", s), ("dissat", d)):
                xs = list(x.args) if isinstance(x, Term) and x.op in ("minimum", "minimum_mall") else [x]
                for y in xs:
                    if not (isinstance(y, Adt) and y.path == SAT) or y.fields["stack"].variant != "Stack":
                        continue
                    used = set()
                    for a in y.fields["stack"].fields["0"].items:
                        n = satmodel.nf_atom(a)
                        if isinstance(n, tuple) and n[0] in ("S", "D"):
                            used.add("%s(%d)" % (n[0], n[1]))
                    for lock in ("absolute_timelock", "relative_timelock"):
                        txt = repr(y.fields[lock])
                        import re
                        have = set("%s(%s)" % (mm.group(1), mm.group(2)) for mm in re.finditer(r"(?:abs|rel)_([SD])\((\d+)\)", txt))
                        chk.obligation(rid, have == used, "locks|%s|%s|%s" % (v, tag, lock),
                                       "the %s of %s uses the witnesses of %s but reports the %s of %s"
                                       % (tag, v, sorted(used), lock, sorted(have)), where)


def check_key_source_table(chk, F):
    rid = "R17.6"
    chk.rule(rid, "Assets key matching: is_key_direct_child_of(key, source) holds exactly when the source path equals "
                  "the key's full derivation path or is its direct parent; exhaustive over all paths of length <= 3 over "
                  "two child numbers (and never panics)")
    try:
        p = F.fn("is_key_direct_child_of", file="plan.rs")
        fdp = [x for x in F.fn("full_derivation_paths", file="descriptor/key.rs", allow_many=True)
               if "DefiniteDescriptorKey" in x][0]
    except (KeyError, IndexError) as e:
        chk.fail(rid, "anchors", "missing %s" % e, kind="unanalysable")
        return
    chk.saw(p)
    import itertools
    paths = [list(t) for n in range(0, 4) for t in itertools.product((0, 1), repeat=n)]
    hooks = {
        "bitcoin::bip32::DerivationPath::len": lambda m, a, c: len(a[0].items),
        "bitcoin::bip32::DerivationPath::is_empty": lambda m, a, c: len(a[0].items) == 0,
    }
    bad = 0
    for kp in paths:
        for sp in paths:
            h = dict(hooks)
            h[fdp] = lambda m, a, c, kp=kp: PyVec([PyVec(list(kp))])
            m = Machine(F, strict=False, hooks=h)
            try:
                r = m.call_path(p, [Term("key"), PyVec(list(sp))])
            except Panic as e:
                bad += 1
                if bad <= 3:
                    chk.fail(rid, "panic", "is_key_direct_child_of(key path %r, source %r) panics: %s" % (kp, sp, e),
                             F.fns[p]["span"])
                continue
            except Unsupported as e:
                chk.fail(rid, "unanalysable", "unanalysable: %s" % e, F.fns[p]["span"], kind="unanalysable")
                return
            want = (kp == sp) or (len(kp) >= 1 and kp[:-1] == sp)
            if r != want:
                bad += 1
                if bad <= 3:
                    chk.fail(rid, "table", "is_key_direct_child_of(key path m/%s, source m/%s) = %r; a key source signs "
                             "for its own path and its direct children only (expected %r)"
                             % ("/".join(map(str, kp)), "/".join(map(str, sp)), r, want), F.fns[p]["span"])
            else:
                chk.ok(rid)
    chk.sample({"key-source table": "%d x %d path pairs" % (len(paths), len(paths))})


# ---- R17.9 completing a plan: placeholder -> witness element ---------------------------------------------------------------

def check_placeholder_completion(chk, F, rid="R17.9"):
    from ..interp import Machine, Adt, PyVec, Panic, some, NONE
    from ..builtins import deref
    chk.rule(rid, "Placeholder::satisfy_self (the step that turns a plan's template into the witness): every placeholder "
                  "becomes exactly the element it stands for - a key in its own serialization (x-only 32, compressed 33, "
                  "uncompressed 65 bytes), the signature / preimage the satisfier holds for that very key / hash / leaf, 32 "
                  "zero bytes, the empty and the one-byte vector, the leaf script, the control block - and None exactly when the "
                  "satisfier lacks it; decision table over all placeholder kinds x key forms x satisfier holdings")
    PH = "miniscript::satisfy::Placeholder"
    SST = "miniscript::satisfy::SchnorrSigType"
    ps = [q for q in F.fns if q.endswith("Placeholder::<Pk>::satisfy_self")]
    if len(ps) != 1:
        chk.fail(rid, "anchor", "Placeholder::satisfy_self not found", kind="unanalysable")
        return
    chk.saw(ps[0])
    holdings = {}

    def form(pk, which):
        pk = deref(pk)
        name, comp = pk.fields["inner"], pk.fields["compressed"]
        if which == "own":
            which = "compressed" if comp else "uncompressed"
        return ("bytes", name, which)
    m = Machine(F, strict=True)
    h = m.hooks
    h["bitcoin::PublicKey::to_bytes"] = lambda m_, a, c: form(a[0], "own")
    h["bitcoin::secp256k1::PublicKey::serialize"] = lambda m_, a, c: ("bytes", deref(a[0]), "compressed")
    h["bitcoin::XOnlyPublicKey::serialize"] = lambda m_, a, c: ("bytes", deref(a[0])[1], "x-only")
    h["bitcoin::secp256k1::XOnlyPublicKey::serialize"] = h["bitcoin::XOnlyPublicKey::serialize"]
    h["ToPublicKey::to_public_key"] = lambda m_, a, c: deref(a[0])
    h["ToPublicKey::to_x_only_pubkey"] = lambda m_, a, c: ("xonly", deref(a[0]).fields["inner"])
    for nm in ("bitcoin::ecdsa::Signature::to_vec", "bitcoin::taproot::Signature::to_vec"):
        h[nm] = lambda m_, a, c: ("sigbytes", deref(a[0]))
    h["bitcoin::Script::to_bytes"] = lambda m_, a, c: ("scriptbytes", deref(a[0]))
    h["bitcoin::ScriptBuf::to_bytes"] = h["bitcoin::Script::to_bytes"]
    h["bitcoin::taproot::ControlBlock::serialize"] = lambda m_, a, c: ("cbbytes", deref(a[0]))

    def look(name):
        def f(m_, a, c):
            k = tuple(repr(deref(x)) for x in a[1:])
            v = holdings.get((name, k))
            return some(v) if v is not None else NONE
        return f
    LOOKS = ("lookup_ecdsa_sig", "lookup_tap_key_spend_sig", "lookup_tap_leaf_script_sig", "lookup_raw_pkh_pk", "lookup_raw_pkh_ecdsa_sig",
             "lookup_raw_pkh_tap_leaf_script_sig", "lookup_raw_pkh_x_only_pk", "lookup_sha256", "lookup_hash256", "lookup_ripemd160",
             "lookup_hash160")
    for nm in LOOKS:
        h["Satisfier::" + nm] = look(nm)
        h["miniscript::satisfy::Satisfier::" + nm] = look(nm)

    def key(name, comp=True):
        return Adt("bitcoin::PublicKey", "PublicKey", {"compressed": comp, "inner": name})
    K, U = key("K"), key("U", False)
    LEAF = Term("leafhash")
    PKH = Term("pkh")

    def vecof(v):
        v = deref(v)
        return list(v.items) if isinstance(v, PyVec) else v
    cases = []
    # (name, placeholder, holdings, expected)
    cases.append(("Pubkey|x-only", Adt(PH, "Pubkey", {"0": K, "1": 33}), {}, ("bytes", "K", "x-only")))
    cases.append(("Pubkey|compressed", Adt(PH, "Pubkey", {"0": K, "1": 34}), {}, ("bytes", "K", "compressed")))
    cases.append(("Pubkey|uncompressed", Adt(PH, "Pubkey", {"0": U, "1": 66}), {}, ("bytes", "U", "uncompressed")))
    for pkv, nm, size in ((K, "compressed", 34), (U, "uncompressed", 66)):
        want = ("bytes", pkv.fields["inner"], nm)
        cases.append(("PubkeyHash|pk|" + nm, Adt(PH, "PubkeyHash", {"0": PKH, "1": size}),
                      {("lookup_raw_pkh_pk", (repr(PKH),)): pkv}, want))
        cases.append(("PubkeyHash|via-sig|" + nm, Adt(PH, "PubkeyHash", {"0": PKH, "1": size}),
                      {("lookup_raw_pkh_ecdsa_sig", (repr(PKH),)): (pkv, Term("sig"))}, want))
    cases.append(("PubkeyHash|unknown", Adt(PH, "PubkeyHash", {"0": PKH, "1": 34}), {}, None))
    for v, lk in (("Sha256Preimage", "lookup_sha256"), ("Hash256Preimage", "lookup_hash256"), ("Ripemd160Preimage", "lookup_ripemd160"),
                  ("Hash160Preimage", "lookup_hash160")):
        cases.append((v + "|known", Adt(PH, v, {"0": "H"}), {(lk, (repr("H"),)): PyVec([7] * 32)}, [7] * 32))
        cases.append((v + "|other-hash", Adt(PH, v, {"0": "H"}), {(lk, (repr("G"),)): PyVec([7] * 32)}, None))
    cases.append(("EcdsaSigPk|held", Adt(PH, "EcdsaSigPk", {"0": K}), {("lookup_ecdsa_sig", (repr(K),)): Term("sigK")}, ("sigbytes", Term("sigK"))))
    cases.append(("EcdsaSigPk|other-key", Adt(PH, "EcdsaSigPk", {"0": K}), {("lookup_ecdsa_sig", (repr(U),)): Term("sigU")}, None))
    cases.append(("EcdsaSigPkHash|held", Adt(PH, "EcdsaSigPkHash", {"0": PKH}),
                  {("lookup_raw_pkh_ecdsa_sig", (repr(PKH),)): (K, Term("sigK"))}, ("sigbytes", Term("sigK"))))
    cases.append(("EcdsaSigPkHash|none", Adt(PH, "EcdsaSigPkHash", {"0": PKH}), {}, None))
    ss = Adt(SST, "ScriptSpend", {"leaf_hash": LEAF})
    ks = Adt(SST, "KeySpend", {"merkle_root": NONE})
    cases.append(("SchnorrSigPk|script|held", Adt(PH, "SchnorrSigPk", {"0": K, "1": ss, "2": 64}),
                  {("lookup_tap_leaf_script_sig", (repr(K), repr(LEAF))): Term("ssig")}, ("sigbytes", Term("ssig"))))
    cases.append(("SchnorrSigPk|script|only-key-spend-sig", Adt(PH, "SchnorrSigPk", {"0": K, "1": ss, "2": 64}),
                  {("lookup_tap_key_spend_sig", (repr(K),)): Term("ksig")}, None))
    cases.append(("SchnorrSigPk|key|held", Adt(PH, "SchnorrSigPk", {"0": K, "1": ks, "2": 64}),
                  {("lookup_tap_key_spend_sig", (repr(K),)): Term("ksig")}, ("sigbytes", Term("ksig"))))
    cases.append(("SchnorrSigPk|key|only-leaf-sig", Adt(PH, "SchnorrSigPk", {"0": K, "1": ks, "2": 64}),
                  {("lookup_tap_leaf_script_sig", (repr(K), repr(LEAF))): Term("ssig")}, None))
    cases.append(("SchnorrSigPkHash|held", Adt(PH, "SchnorrSigPkHash", {"0": PKH, "1": LEAF, "2": 64}),
                  {("lookup_raw_pkh_tap_leaf_script_sig", (repr((PKH, LEAF)),)): (Term("xk"), Term("ssig"))}, ("sigbytes", Term("ssig"))))
    cases.append(("HashDissatisfaction", Adt(PH, "HashDissatisfaction", {}), {}, [0] * 32))
    cases.append(("PushZero", Adt(PH, "PushZero", {}), {}, []))
    cases.append(("PushOne", Adt(PH, "PushOne", {}), {}, [1]))
    cases.append(("TapScript", Adt(PH, "TapScript", {"0": Term("leafscript")}), {}, ("scriptbytes", Term("leafscript"))))
    cases.append(("TapControlBlock", Adt(PH, "TapControlBlock", {"0": Term("cb")}), {}, ("cbbytes", Term("cb"))))
    # debug_assert!(len == size) lines measure opaque byte tokens: give them a length
    h["std::vec::Vec::<T, A>::len"] = lambda m_, a, c: B_NOT
    import msverif.builtins as BB
    B_NOT = BB.NOT_HANDLED

    def vlen(m_, a, c):
        v = deref(a[0])
        if isinstance(v, tuple) and v and v[0] == "bytes":
            return {"x-only": 32, "compressed": 33, "uncompressed": 65}[v[2]]
        if isinstance(v, tuple) and v and v[0] == "sigbytes":
            return 64
        return BB.NOT_HANDLED
    h["std::vec::Vec::<T, A>::len"] = vlen
    h["core::slice::<impl [T]>::len"] = vlen
    n = 0
    for name, ph, hold, want in cases:
        holdings.clear()
        holdings.update(hold)
        n += 1
        try:
            r = m.call_callee({"def": ps[0], "resolved": ps[0], "name": "satisfy_self", "targs": ["bitcoin::PublicKey", "SAT"]},
                              [ph, Term("satisfier")])
            got = None if r.variant == "None" else vecof(r.fields["0"])
            chk.obligation(rid, repr(got) == repr(want), name, "satisfy_self(%s) gives %r, expected %r" % (name, got, want), F.fns[ps[0]]["span"])
        except Unsupported as e:
            chk.fail(rid, "unanalysable:" + name, "unanalysable: %s" % e, where=e.where, kind="unanalysable")
        except Panic as e:
            chk.fail(rid, name, "panic: %s" % e, F.fns[ps[0]]["span"])
    chk.floor(rid, "placeholder cases", n, 25)


def run(chk):
    F = chk.facts()
    chk.explanation = (
        "Decides structural necessary conditions: (R17.1) plans and direct satisfactions come from the same template "
        "builders (call structure) and into_plan copies template and locks; (R17.2) Plan::satisfy's per-type assembly "
        "equals the direct assembly / the standard; (R17.3) every Satisfaction value takes stack, absolute and relative "
        "lock from one source (exact tables of minimum / minimum_mall; symbolic concatenate_rev; per-fragment templates "
        "with symbolic locks); (R17.4) announced sizes count everything produced; mode dispatch of the plan entry points.")
    chk.trusted = ["spec/outputs.py, spec/satisfaction.py", "factgen THIR; msverif.interp"]
    chk.assumptions = ["equality of produced bytes is not decided",
                       "Assets-based key matching (bip32 paths) is only covered for panics (C11)"]
    try:
        P = satmodel.paths(F)
    except KeyError as e:
        chk.fail("R17.1", "anchors", "missing anchor: %s" % e, kind="unanalysable")
        return
    check_plan_structure(chk, F)
    assembly.check_plan_assembly(chk, F, "R17.2")
    assembly.check_tap_assembly(chk, F, "R17.2t")
    check_provenance(chk, F, P)
    assembly.check_plan_sizes(chk, F, "R17.4")
    from . import limits
    limits.check_item_sizes(chk, F)
    check_key_source_table(chk, F)
    n = modes.check_modes(chk, F, "R17.5", ["descriptor/mod.rs", "descriptor/bare.rs", "descriptor/segwitv0.rs",
                                            "descriptor/sh.rs", "descriptor/tr/mod.rs", "plan.rs"])
    chk.floor("R17.5", "mode-specific call sites", n, 30)
    from . import e2e
    chk.guard("R17.8", "locks-exact", e2e.check, chk, F, "R17.8", "locks",
              "whole scripts (~60) x every key subset x preimage set x locks met or not x both modes, the template builder "
              "the planner uses evaluated with a modelled AssetProvider: the absolute / relative lock a template reports is "
              "necessary and sufficient for its witness in the reference execution - the spend validates with it, fails with "
              "one less and with the other unit, and a template that reports no lock needs none")
    chk.guard("R17.9", "placeholder-completion", check_placeholder_completion, chk, F)
