"""End-to-end satisfier rules on a bounded family (shared by C01 / C02 / C03).

The satisfier (Satisfaction::build_template / build_template_mall -> sat_dissat and its helpers) is evaluated from its
typed syntax tree on whole model miniscripts, with a modelled AssetProvider that owns a chosen subset of the keys
and preimages and for which the time locks are met or not.  The placeholders of the returned template are mapped to
abstract witness elements; the oracle is the reference Script execution (spec/msexec.py) of the specification's
script, and the specification's canonical witnesses (spec/satisfaction.py).

  sound     (C01)  whatever template is returned (either mode) uses only owned assets and its witness makes the script
                   succeed under the lock times the template reports
  complete  (C02)  if some canonical satisfaction is possible with the owned assets and met locks, the malleable
                   satisfier returns one; the non-malleable satisfier too when the script's type is non-malleable
  nonmall   (C03)  no single or double edit of the witness returned by the non-malleable satisfier that a third party
                   can make (drop / insert / replace with 0, 1, revealed preimages, keys, 32 zero bytes, junk, or a
                   signature already in the witness) is accepted by the reference execution under the standardness
                   rules (MINIMALIF, NULLFAIL) -- unless it is the same stack"""

import itertools
import os
import sys

from ..interp import Machine, Adt, Term, PyVec, Panic, ok, err, some, NONE
from ..report import Unsupported
from .. import model
from . import c13

X = c13.X
T = model.TERMINAL
MS = model.MS
PH = "miniscript::satisfy::Placeholder"
WIT = "miniscript::satisfy::Witness"
ASSETS = "verif::ModelAssets"
CTXP = {"segwitv0": "miniscript::context::Segwitv0", "tap": "miniscript::context::Tap"}


def to_model(F, n, ctx):
    """spec AST -> model Miniscript<String-like keys, Ctx> with real type annotations where the satisfier reads them
    (it reads none: it works from the node alone) -- keys are plain names, hashes are names"""
    v = n.v
    kids = [to_model(F, k, ctx) for k in n.kids]
    if v in ("True", "False"):
        t = Adt(T, v, {})
    elif v in ("PkK", "PkH"):
        t = Adt(T, v, {"0": n.data})
    elif v == "After":
        t = Adt(T, v, {"0": c13.abs_lock(F, n.data)})
        t.fields["0"].fields["0"] = n.data
    elif v == "Older":
        t = Adt(T, v, {"0": c13.rel_lock(F, n.data)})
    elif v in c13.ALG:
        t = Adt(T, v, {"0": n.data})
    elif v == "Thresh":
        t = Adt(T, v, {"0": model.threshold(n.data, kids)})
    elif v in ("Multi", "SortedMulti", "MultiA", "SortedMultiA"):
        k, keys = n.data
        t = Adt(T, v, {"0": model.threshold(k, list(keys))})
    else:
        t = Adt(T, v, {str(i): c for i, c in enumerate(kids)})
    return Adt(MS, "Miniscript", {"node": t, "ty": Term("ty"), "ext": Term("ext"), "phantom": ()})


class Sat(object):
    def __init__(self, F):
        self.F = F
        from ..builtins import deref
        m = Machine(F, strict=True, max_depth=80)
        m.max_steps = 5_000_000
        m.text_keys = True
        self.m = m
        self.bt = F.fn("build_template", file="satisfy/mod.rs", container="Satisfaction<miniscript::satisfy::Placeholder")
        self.btm = F.fn("build_template_mall", file="satisfy/mod.rs", container="Satisfaction<miniscript::satisfy::Placeholder")
        self.assets = None
        h = m.hooks
        AP = "plan::AssetProvider::"

        def has_key(m_, a, c):
            return deref(a[1]) in self.assets["keys"]

        def sig_size(m_, a, c):
            return some(65) if deref(a[1]) in self.assets["keys"] else NONE

        def has_pre(m_, a, c):
            return deref(a[1]) in self.assets["pre"]
        h[AP + "provider_lookup_ecdsa_sig"] = has_key
        h[AP + "provider_lookup_tap_key_spend_sig"] = sig_size
        h[AP + "provider_lookup_tap_leaf_script_sig"] = sig_size
        for nm in ("sha256", "hash256", "ripemd160", "hash160"):
            h[AP + "provider_lookup_" + nm] = has_pre
        for nm in ("raw_pkh_pk", "raw_pkh_x_only_pk", "raw_pkh_ecdsa_sig", "raw_pkh_tap_leaf_script_sig"):
            h[AP + "provider_lookup_" + nm] = lambda m_, a, c: NONE
        h[AP + "check_older"] = lambda m_, a, c: self.assets["older"](deref(a[1]))
        h[AP + "check_after"] = lambda m_, a, c: self.assets["after"](deref(a[1]))
        for nm in ("into_sorted_bip67", "into_sorted_bip67_xonly"):
            q = F.fn(nm, file="primitives/threshold.rs")

            def sorter(m_, a, c):
                th = deref(a[0])
                return Adt(th.path, th.variant, {"k": th.fields["k"], "inner": PyVec(sorted(th.fields["inner"].items))})
            h[q] = sorter
        # key sizes / conversions on name keys
        h["MiniscriptKey::is_uncompressed"] = lambda m_, a, c: False
        h["ToPublicKey::to_pubkeyhash"] = lambda m_, a, c: ("hash", "HASH160", deref(a[0]))
        h["ToPublicKey::to_public_key"] = lambda m_, a, c: deref(a[0])
        h["ToPublicKey::to_x_only_pubkey"] = lambda m_, a, c: deref(a[0])
        h["bitcoin::relative::LockTime::is_implied_by"] = lambda m_, a, c: True
        from . import c14
        # RelLockTime -> relative::LockTime conversions / comparisons on consensus ints
        c14.lock_hooks(m)
        h[AP + "check_older"] = lambda m_, a, c: self.assets["older"](deref(a[1]))
        h[AP + "check_after"] = lambda m_, a, c: self.assets["after"](deref(a[1]))

    def template(self, msmodel, ctx, assets, mall):
        self.assets = assets
        fn = self.btm if mall else self.bt
        from ..interp import dcopy
        prov = Adt(ASSETS, "ModelAssets", {})
        r = self.m.call_callee({"def": fn, "resolved": fn, "name": "build_template",
                                "targs": ["std::string::String", "P", CTXP[ctx]]},
                               [dcopy(msmodel), prov, True, NONE if ctx != "tap" else some(Term("leafhash"))])
        return r


def placeholders(stack_items, ctx):
    kk = X.keykind(ctx)
    out = []
    for p in stack_items:
        v = p.variant
        f = p.fields
        if v == "PushZero":
            out.append(0)
        elif v == "PushOne":
            out.append(1)
        elif v == "HashDissatisfaction":
            out.append(X.ZEROS32)
        elif v in ("EcdsaSigPk", "SchnorrSigPk"):
            out.append(X.sig(f["0"], kk))
        elif v == "Pubkey":
            out.append(X.key(f["0"], kk))
        elif v.endswith("Preimage"):
            out.append(X.pre(f["0"]))
        elif v == "PubkeyHash":
            hv = f["0"]
            out.append(X.key(hv[2] if isinstance(hv, tuple) else repr(hv), kk))
        elif v in ("EcdsaSigPkHash", "SchnorrSigPkHash"):
            hv = f["0"]
            out.append(X.sig(hv[2] if isinstance(hv, tuple) else repr(hv), kk))
        else:
            raise Unsupported("placeholder %s" % v)
    return out


def lock_val(opt):
    if opt.variant != "Some":
        return None
    v = opt.fields["0"]
    while isinstance(v, Adt) and "0" in v.fields:
        v = v.fields["0"]
    if isinstance(v, tuple):
        v = v[1]
    return v


def keys_hashes(ast):
    keys, hashes = [], []

    def go(n):
        if n.v in ("PkK", "PkH") and n.data not in keys:
            keys.append(n.data)
        elif n.v in c13.ALG and n.data not in hashes:
            hashes.append(n.data)
        elif isinstance(n.data, tuple):
            for k in n.data[1]:
                if k not in keys:
                    keys.append(k)
        for c in n.kids:
            go(c)
    go(ast)
    return keys, hashes


def uses_only(w, assets):
    for e in w:
        if isinstance(e, X.Tok):
            if e.kind == "sig" and e.name not in assets["keys"]:
                return False
            if e.kind == "pre" and e.name not in assets["pre"]:
                return False
    return True


def third_party_edits(w, ast, ctx):
    kk = X.keykind(ctx)
    keys, hashes = keys_hashes(ast)
    alpha = [0, 1, X.ZEROS32, X.JUNK32]
    alpha += [e for e in w if isinstance(e, X.Tok) and e.kind in ("sig", "pre")]
    alpha += [X.key(k, kk) for k in keys[:3]]
    seen = {tuple(map(repr, w))}
    out = []

    def emit(x):
        t = tuple(map(repr, x))
        if t not in seen:
            seen.add(t)
            out.append(x)
    singles = []
    for i in range(len(w) + 1):
        for a in alpha:
            singles.append(w[:i] + [a] + w[i:])
            if i < len(w):
                singles.append(w[:i] + [a] + w[i + 1:])
        if i < len(w):
            singles.append(w[:i] + w[i + 1:])
            if i + 1 < len(w):
                x = list(w)
                x[i], x[i + 1] = x[i + 1], x[i]
                singles.append(x)
    for s in singles:
        emit(s)
    first = list(out)
    for s in first[:400]:
        for i in range(len(s)):
            for a in (0, 1):
                x = list(s)
                x[i] = a
                emit(x)
            emit(s[:i] + s[i + 1:])
    return out


def _work(args):
    from .. import facts
    F = facts.load()
    text, ctx, nonmall_type = args
    S = Sat(F)
    ast = X.parse(text)
    mdl = to_model(F, ast, ctx)
    sc = X.script(ast, ctx)
    keys, hashes = keys_hashes(ast)
    locks = X.locks(ast)
    sats, _ = X.witnesses(ast, ctx, cap=40)
    out = []
    n = 0
    lock_cfgs = [True] if not locks else [True, False]
    try:
        for r in range(len(keys) + 1):
            for ks in itertools.combinations(keys, r):
                for hs in ([set()] if not hashes else [set(), set(hashes)] + ([{hashes[0]}] if len(hashes) > 1 else [])):
                    for locks_met in lock_cfgs:
                        assets = {"keys": set(ks), "pre": set(hs), "older": lambda n_: locks_met, "after": lambda n_: locks_met}
                        desc = "keys=%s pre=%s locks=%s" % (sorted(ks), sorted(hs), locks_met)
                        possible = [w for w in sats if uses_only(w, assets) and (locks_met or not _needs_lock(ast, w, sc, ctx))]
                        for mall in (False, True):
                            n += 1
                            sat = S.template(mdl, ctx, assets, mall)
                            st = sat.fields["stack"]
                            mode = "mall" if mall else "nonmall"
                            if st.variant == "Stack":
                                w = placeholders(st.fields["0"].items, ctx)
                                al, rl = lock_val(sat.fields["absolute_timelock"]), lock_val(sat.fields["relative_timelock"])
                                tx = X.Tx(lock_time=al or 0, sequence=rl if rl is not None else 0xfffffffe)
                                if not uses_only(w, assets):
                                    out.append(("sound", text, "%s %s: witness %r uses assets that are not owned" % (mode, desc, w)))
                                if not locks_met and (al is not None or rl is not None):
                                    out.append(("sound", text, "%s %s: template needs a lock that is not met" % (mode, desc)))
                                acc, log, why = X.execute(sc, w, tx, ctx)
                                if not acc:
                                    out.append(("sound", text, "%s %s: witness %r with locks (%r, %r) does not make the script "
                                                               "succeed (%s)" % (mode, desc, w, al, rl, why)))
                                if acc:
                                    # the reported locks are necessary: one less (or none) and the same witness fails;
                                    # when no lock is reported the witness needs none
                                    if al is not None:
                                        a3, _, _ = X.execute(sc, w, X.Tx(lock_time=al - 1, sequence=tx.sequence), ctx)
                                        a4, _, _ = X.execute(sc, w, X.Tx(lock_time=(al + 500000000) if al < 500000000 else 1,
                                                                       sequence=tx.sequence), ctx)
                                        if a3 or a4:
                                            out.append(("locks", text, "%s %s: the template reports the absolute lock %r but its witness "
                                                                       "%r also validates with %s" % (mode, desc, al, w, "a smaller "
                                                                       "nLockTime" if a3 else "the other unit")))
                                    else:
                                        a3, _, _ = X.execute(sc, w, X.Tx(lock_time=0, sequence=tx.sequence), ctx)
                                        if not a3:
                                            out.append(("locks", text, "%s %s: the template reports no absolute lock but its witness %r "
                                                                       "fails with nLockTime 0" % (mode, desc, w)))
                                    if rl is not None:
                                        a5, _, _ = X.execute(sc, w, X.Tx(lock_time=tx.lock_time, sequence=rl - 1), ctx)
                                        a6, _, _ = X.execute(sc, w, X.Tx(lock_time=tx.lock_time, sequence=rl ^ (1 << 22)), ctx)
                                        if a5 or a6:
                                            out.append(("locks", text, "%s %s: the template reports the relative lock %r but its witness "
                                                                       "%r also validates with %s" % (mode, desc, rl, w, "a smaller "
                                                                       "nSequence" if a5 else "the other unit")))
                                    else:
                                        a5, _, _ = X.execute(sc, w, X.Tx(lock_time=tx.lock_time, sequence=0xffffffff if al is None else 0xfffffffe), ctx)
                                        if not a5:
                                            out.append(("locks", text, "%s %s: the template reports no relative lock but its witness %r "
                                                                       "fails with a final nSequence" % (mode, desc, w)))
                                if acc and not mall:
                                    tx2 = X.Tx(tx.lock_time, tx.sequence)
                                    tx2.minimalif = True
                                    tx2.nullfail = True
                                    for w2 in third_party_edits(w, ast, ctx):
                                        a2, _, _ = X.execute(sc, w2, tx2, ctx)
                                        if a2:
                                            out.append(("nonmall", text, "%s: non-malleable witness %r can be changed by a third "
                                                                         "party into the valid %r" % (desc, w, w2)))
                                            break
                            else:
                                if possible and (mall or nonmall_type):
                                    out.append(("complete", text, "%s %s: no satisfaction returned (%s) although %r is a "
                                                                  "canonical satisfaction with these assets"
                                                % (mode, desc, st.variant, possible[0])))
    except Unsupported as e:
        out.append(("unanalysable", text, "unanalysable: %s" % e))
    except Panic as e:
        out.append(("sound", text, "panic in the satisfier: %s" % e))
    return text, n, out


def _needs_lock(ast, w, sc, ctx):
    """does this canonical witness execute a CLTV / CSV?"""
    lks = X.locks(ast)
    lt = max([n for k, n in lks if k == "After"] or [0])
    sq = max([n for k, n in lks if k == "Older"] or [0])
    acc, log, _ = X.execute(sc, w, X.Tx(lt, sq), ctx)
    return any(l[0] in ("after", "older") for l in log)


FAMILY = [s for s in c13.SCRIPTS if s[0] not in ("or_i(0,pk(A))",)]


def nonmall_types(F, scripts):
    """library's own `m` flag per script (C05: equals the specification's)"""
    from . import c06
    T_ = c06.Typer(F)
    out = {}
    for text, ctx in scripts:
        try:
            tr = T_.m
            from .. import textmodel as tm
            r = tm.parse_tree(F, tr, text)
            ri = tr.call_path(T_.root, [r.fields["0"]])
            st = "miniscript::private::Miniscript<std::string::String, %s>" % c06.CTX[ctx]
            rr = tr.call_callee({"def": "expression::FromTree::from_tree", "resolved": T_.ft, "name": "from_tree",
                                 "trait": "expression::FromTree",
                                 "resolved_container": "miniscript::<impl expression::FromTree for miniscript::private::Miniscript<Pk, Ctx>>",
                                 "self_ty": st, "targs": [st]}, [ri])
            mall = rr.fields["0"].fields["ty"].fields["mall"]
            out[(text, ctx)] = bool(mall.fields["non_malleable"]) and bool(mall.fields["signed"])
        except Exception:
            out[(text, ctx)] = False
    return out


_CACHE = {}


def results(F, tier="quick"):
    if "r" in _CACHE:
        return _CACHE["r"]
    import multiprocessing as mp
    fam = list(FAMILY)
    if tier != "quick":
        from . import decoder
        fam += [s for s in decoder.EXTRA_SCRIPTS if s not in fam]
    nm = nonmall_types(F, fam)
    jobs = [(t, c, nm[(t, c)]) for (t, c) in fam]
    with mp.Pool(min(16, os.cpu_count() or 4)) as pool:
        res = pool.map(_work, jobs, chunksize=1)
    _CACHE["r"] = res
    return res


def check(chk, F, rule, kind, desc):
    chk.rule(rule, desc)
    res = results(F, chk.tier)
    total = 0
    for text, n, out in res:
        total += n
        mine = [o for o in out if o[0] == kind]
        un = [o for o in out if o[0] == "unanalysable"]
        for o in un:
            chk.fail(rule, "unanalysable:" + text, o[2], kind="unanalysable")
        if mine:
            chk.fail(rule, text, "%d case(s); first: %s" % (len(mine), mine[0][2]), where="src/miniscript/satisfy",
                     detail=[o[2] for o in mine[:10]])
        elif not un:
            chk.ok(rule)
    chk.extra[rule + "_templates_evaluated"] = total
    chk.floor(rule, "satisfier evaluations", total, 400)
