"""C13 -- the transaction interpreter agrees with real script execution.

What is decided (DESIGN.md C13).  The interpreter's evaluation-state machine (Iter::next / iter_next and the stack
evaluators of interpreter/stack.rs) is evaluated from its typed syntax tree on abstract witness stacks whose
elements are opaque tokens (a signature valid for exactly one key, a key, a preimage, 32 zero bytes, junk, the empty
vector, the vector [1]).  The oracle is an independent reference execution (spec/msexec.py) of the Script that the
specification's templates (spec/script.py) give for the same miniscript, on the same abstract stack.

R13.1  every canonical satisfaction of the specification (spec/satisfaction.py) is accepted, and the constraints the
       interpreter reports are exactly the checks the reference execution performed (same multiset)
R13.2  soundness on perturbed witnesses: for every single-element mutation (drop, duplicate, swap neighbours,
       replace by every alphabet symbol; pairs in the thorough tier) of every canonical satisfaction and
       dissatisfaction: interpreter accepts => reference execution accepts, with the same reported checks
R13.3  lock times: acceptance under tx lock time / sequence values around every lock in the script agrees with
       BIP-65 / BIP-112 as implemented by the reference execution
R13.4  from_txdata: decision table per output type (which stack is kept, emptiness requirements, commitment check
       dominating success, script code) against BIP-16/141/143/341
R13.5  signature-type partition: Interpreter::verify_sig selects the sighash flavour by output type"""

import itertools
import os
import sys

from .. import model
from ..interp import Machine, Adt, Term, PyVec, Panic, ok, err, some, NONE
from ..report import Unsupported

sys.path.insert(0, os.path.join(os.path.dirname(__file__), "..", "..", "spec"))
import msexec as X  # noqa: E402

LEVEL = "other"
ONLY = os.environ.get("C13_ONLY", "")

T = model.TERMINAL
MS = model.MS
BK = "interpreter::BitcoinKey"
ELEM = "interpreter::stack::Element"
STACK = "interpreter::stack::Stack"
ITER = "interpreter::Iter"
NES = "interpreter::NodeEvaluationState"
SIGTYPE = "miniscript::context::SigType"
ABSLT = "bitcoin::absolute::LockTime"


def ms(node):
    return Adt(MS, "Miniscript", {"node": node, "ty": Term("ty"), "ext": Term("ext"), "phantom": ()})


def bkey(name, ctx):
    if ctx == "tap":
        return Adt(BK, "XOnlyPublicKey", {"0": X.key(name, "schnorr")})
    return Adt(BK, "Fullkey", {"0": X.key(name, "ecdsa")})


def abs_lock(F, n):
    path = [a for a in F.adts if a.endswith("absolute_locktime::AbsLockTime")][0]
    return Adt(path, "AbsLockTime", {"0": ext_abs(n)})


def ext_abs(n):
    return Adt(ABSLT, "Blocks" if n < 500000000 else "Seconds", {"0": n})


def rel_lock(F, n):
    path = [a for a in F.adts if a.endswith("relative_locktime::RelLockTime")][0]
    return Adt(path, "RelLockTime", {"0": n})


ALG = {"Sha256": "SHA256", "Hash256": "HASH256", "Ripemd160": "RIPEMD160", "Hash160": "HASH160"}


def to_model(F, n, ctx):
    """spec AST -> model Miniscript<BitcoinKey, NoChecks>"""
    v = n.v
    kids = [to_model(F, k, ctx) for k in n.kids]
    if v in ("True", "False"):
        t = Adt(T, v, {})
    elif v in ("PkK", "PkH"):
        t = Adt(T, v, {"0": bkey(n.data, ctx)})
    elif v == "After":
        t = Adt(T, v, {"0": abs_lock(F, n.data)})
    elif v == "Older":
        t = Adt(T, v, {"0": rel_lock(F, n.data)})
    elif v in ALG:
        t = Adt(T, v, {"0": ("hash", ALG[v], X.pre(n.data))})
    elif v == "Thresh":
        t = Adt(T, v, {"0": model.threshold(n.data, kids)})
    elif v in ("Multi", "SortedMulti", "MultiA", "SortedMultiA"):
        k, keys = n.data
        ks = sorted(keys) if v.startswith("Sorted") else keys
        t = Adt(T, v, {"0": model.threshold(k, [bkey(x, ctx) for x in ks])})
    else:
        t = Adt(T, v, {str(i): c for i, c in enumerate(kids)})
    return ms(t)


def element(v):
    if isinstance(v, int) and v == 0:
        return Adt(ELEM, "Dissatisfied", {})
    if isinstance(v, int) and v == 1:
        return Adt(ELEM, "Satisfied", {})
    return Adt(ELEM, "Push", {"0": v})


class Harness(object):
    def __init__(self, F):
        self.F = F
        m = Machine(F, strict=True, max_depth=60)
        m.max_steps = 2_000_000
        self.m = m
        self.next = [it["path"] for i in F.impls if i["self_adt"] == ITER and i["trait"] == "std::iter::Iterator"
                     for it in i["items"] if it["name"] == "next"][0]
        h = m.hooks

        def from_slice(kind):
            def f(m_, a, c):
                from ..builtins import deref
                v = deref(a[0])
                if isinstance(v, X.Tok) and v.kind == "sig" and v.extra == kind:
                    return ok(v)
                return err(Term("SigParseError", kind))
            return f
        h["bitcoin::ecdsa::Signature::from_slice"] = from_slice("ecdsa")
        h["bitcoin::taproot::Signature::from_slice"] = from_slice("schnorr")

        def key_from_slice(kind):
            def f(m_, a, c):
                from ..builtins import deref
                v = deref(a[0])
                if isinstance(v, X.Tok) and v.kind == "key" and v.extra == kind:
                    return ok(v)
                return err(Term("KeyParseError", kind))
            return f
        h["bitcoin::PublicKey::from_slice"] = key_from_slice("ecdsa")
        h["bitcoin::XOnlyPublicKey::from_slice"] = key_from_slice("schnorr")
        h["bitcoin::secp256k1::XOnlyPublicKey::from_slice"] = key_from_slice("schnorr")

        def hasher(alg):
            def f(m_, a, c):
                from ..builtins import deref
                return ("hash", alg, deref(a[0]))
            return f
        for mod, alg in (("sha256", "SHA256"), ("hash160", "HASH160"), ("ripemd160", "RIPEMD160"),
                         ("sha256d", "HASH256")):
            h["bitcoin::hashes::%s::Hash::hash" % mod] = hasher(alg)
        h["bitcoin::hashes::Hash::hash"] = self._generic_hash
        h["bitcoin::bitcoin_hashes::Hash::hash"] = self._generic_hash
        # lock times (rust-bitcoin): relative::LockTime modelled by the consensus u32 of the sequence
        h["bitcoin::Sequence::to_relative_lock_time"] = \
            lambda m_, a, c: some(("rel", a[0])) if (a[0] & (1 << 31)) == 0 else NONE
        h["bitcoin::relative::LockTime::is_implied_by"] = self._implied
        self.to_pubkeyhash = [p for p in F.fns if p.endswith("BitcoinKey::to_pubkeyhash")]
        for p in self.to_pubkeyhash:
            h[p] = lambda m_, a, c: ("hash", "HASH160", a[0].fields["0"])

    @staticmethod
    def _generic_hash(m_, a, c):
        from ..builtins import deref
        st = (c.get("self_ty") or "") + " ".join(c.get("targs") or [])
        alg = "SHA256"
        if "hash160" in st:
            alg = "HASH160"
        elif "ripemd160" in st:
            alg = "RIPEMD160"
        elif "sha256d" in st or "hash256" in st:
            alg = "HASH256"
        return ("hash", alg, deref(a[0]))

    @staticmethod
    def _implied(m_, a, c):
        from ..builtins import deref
        n, txl = deref(a[0]), deref(a[1])
        n = n[1] if isinstance(n, tuple) else n
        txl = txl[1] if isinstance(txl, tuple) else txl
        if (n & (1 << 22)) != (txl & (1 << 22)):
            return False
        return (n & 0xffff) <= (txl & 0xffff)

    def run(self, msmodel, stack, tx, ctx, public_key=None):
        """-> ('ok'|'err', constraints, detail)"""
        F = self.F

        def verify_sig(pair):
            from ..builtins import deref
            pair = deref(pair)
            k, s = pair.fields["0"], pair.fields["1"]
            return isinstance(s, X.Tok) and s.kind == "sig" and s.name == k.name and s.extra == k.extra
        state = []
        if msmodel is not None:
            state = [Adt(NES, "NodeEvaluationState", {"node": msmodel, "n_evaluated": 0, "n_satisfied": 0})]
        it = Adt(ITER, "Iter", {
            "verify_sig": verify_sig,
            "public_key": some(public_key) if public_key is not None else NONE,
            "state": PyVec(state),
            "stack": Adt(STACK, "Stack", {"0": PyVec([element(v) for v in stack])}),
            "sequence": tx.sequence,
            "lock_time": ext_abs(tx.lock_time),
            "has_errored": False,
            "sig_type": Adt(SIGTYPE, "Schnorr" if ctx == "tap" else "Ecdsa", {}),
        })
        cons = []
        for _ in range(200):
            r = self.m.call_path(self.next, [it])
            if r.variant == "None":
                return "ok", cons, ""
            item = r.fields["0"]
            if item.variant == "Err":
                return "err", cons, repr(item.fields["0"])[:120]
            cons.append(constraint(item.fields["0"]))
        raise Unsupported("interpreter did not terminate in 200 steps")


def constraint(c):
    v = c.variant
    if v in ("PublicKey", "PublicKeyHash"):
        ks = c.fields["key_sig"]
        return ("sig", ks.fields["0"].name)
    if v == "HashLock":
        h = c.fields["hash"]
        hv = h.fields["0"]
        return ("hash", hv[1], c.fields["preimage"].name if isinstance(c.fields["preimage"], X.Tok) else repr(c.fields["preimage"]))
    if v == "RelativeTimelock":
        n = c.fields["n"]
        return ("older", n.fields["0"] if isinstance(n, Adt) else (n[1] if isinstance(n, tuple) else n))
    if v == "AbsoluteTimelock":
        n = c.fields["n"]
        return ("after", n.fields["0"] if isinstance(n, Adt) else n)
    return ("?", repr(c))


SCRIPTS = [
    # (text, ctx)
    ("pk(A)", "segwitv0"), ("pkh(A)", "segwitv0"), ("and_v(v:pk(A),pk(B))", "segwitv0"),
    ("and_v(v:pkh(A),pk(B))", "segwitv0"), ("and_b(pk(A),s:pk(B))", "segwitv0"), ("and_b(pk(A),a:pkh(B))", "segwitv0"),
    ("or_b(pk(A),s:pk(B))", "segwitv0"), ("or_b(pk(A),a:sha256(H))", "segwitv0"),     ("t:or_c(pk(A),v:pk(B))", "segwitv0"), ("or_d(pk(A),pk(B))", "segwitv0"), ("or_d(pk(A),pkh(B))", "segwitv0"),
    ("or_i(pk(A),pk(B))", "segwitv0"), ("or_i(pk(A),and_v(v:pk(B),sha256(H)))", "segwitv0"),
    ("andor(pk(A),pk(B),pk(C))", "segwitv0"), ("andor(pk(A),sha256(H),pkh(C))", "segwitv0"),
    ("and_n(pk(A),pk(B))", "segwitv0"), ("thresh(1,pk(A),s:pk(B))", "segwitv0"),
    ("thresh(2,pk(A),s:pk(B),s:pk(C))", "segwitv0"), ("thresh(3,pk(A),s:pk(B),s:pk(C))", "segwitv0"),
    ("thresh(2,pk(A),s:pk(B),sln:older(5))", "segwitv0"), ("thresh(2,pk(A),a:sha256(H),a:hash160(G))", "segwitv0"),
    ("multi(1,A,B)", "segwitv0"), ("multi(2,A,B,C)", "segwitv0"), ("multi(3,A,B,C)", "segwitv0"),
    ("sortedmulti(2,C,A,B)", "segwitv0"), ("and_v(v:multi(1,A,B),pk(C))", "segwitv0"),
    ("sha256(H)", "segwitv0"), ("and_v(v:sha256(H),pk(A))", "segwitv0"), ("and_v(v:hash256(H),pk(A))", "segwitv0"),
    ("and_v(v:ripemd160(H),pk(A))", "segwitv0"), ("and_v(v:hash160(H),pk(A))", "segwitv0"),
    ("and_v(v:after(100),pk(A))", "segwitv0"), ("and_v(v:older(7),pk(A))", "segwitv0"),
    ("and_v(v:pk(A),older(7))", "segwitv0"), ("and_v(v:pk(A),after(500000100))", "segwitv0"),
    ("or_d(pk(A),and_v(v:pk(B),older(7)))", "segwitv0"), ("j:and_v(v:pk(A),pk(B))", "segwitv0"),
    ("and_b(pk(A),aj:and_v(v:pk(B),pk(C)))", "segwitv0"), ("and_b(pk(A),sdv:older(3))", "segwitv0"),
    ("or_b(pk(A),sdv:older(3))", "segwitv0"), ("n:and_v(v:pk(A),older(3))", "segwitv0"),
    ("or_i(0,pk(A))", "segwitv0"), ("or_i(pk(A),0)", "segwitv0"), ("and_v(v:pk(A),1)", "segwitv0"),
    ("or_d(multi(1,A,B),pk(C))", "segwitv0"), ("andor(multi(2,A,B,C),pk(D),pk(E))", "segwitv0"),
    ("or_i(and_v(v:after(50),pk(A)),pk(B))", "segwitv0"),
    ("pk(A)", "tap"), ("pkh(A)", "tap"), ("multi_a(1,A,B)", "tap"), ("multi_a(2,A,B,C)", "tap"),
    ("multi_a(3,A,B,C)", "tap"), ("sortedmulti_a(2,C,A,B)", "tap"), ("and_v(v:multi_a(2,A,B,C),pk(D))", "tap"),
    ("or_d(multi_a(1,A,B),pk(C))", "tap"), ("and_v(v:pk(A),pk(B))", "tap"), ("or_d(pk(A),and_v(v:pkh(B),older(7)))", "tap"),
    ("thresh(2,pk(A),s:pk(B),s:pk(C))", "tap"),
]


def alphabet(ast, ctx):
    kk = X.keykind(ctx)
    keys, hashes = set(), set()

    def go(n):
        if n.v in ("PkK", "PkH"):
            keys.add(n.data)
        elif n.v in ALG:
            hashes.add(n.data)
        elif isinstance(n.data, tuple):
            keys.update(n.data[1])
        for k in n.kids:
            go(k)
    go(ast)
    out = [0, 1, X.ZEROS32, X.JUNK, X.JUNK32]
    for k in sorted(keys):
        out += [X.sig(k, kk), X.key(k, kk)]
    out.append(X.sig("ZZ", kk))                       # well-formed signature of an unrelated key
    out.append(X.sig(sorted(keys)[0], "schnorr" if kk == "ecdsa" else "ecdsa") if keys else X.JUNK)
    for h in sorted(hashes):
        out.append(X.pre(h))
    out.append(X.pre("other"))
    return out


def mutations(w, alpha, pairs=False, wide=False):
    seen = set()

    def emit(x):
        t = tuple(repr(e) for e in x)
        if t not in seen:
            seen.add(t)
            return True
        return False
    out = []
    base = list(w)
    cands = []
    for i in range(len(base)):
        cands.append(base[:i] + base[i + 1:])                      # drop
        cands.append(base[:i] + [base[i], base[i]] + base[i + 1:])  # duplicate
        if i + 1 < len(base):
            x = list(base)
            x[i], x[i + 1] = x[i + 1], x[i]
            cands.append(x)                                         # swap neighbours
        for a in alpha:
            x = list(base)
            x[i] = a
            cands.append(x)                                         # replace
    for a in alpha:
        cands.append(base + [a])                                    # extra element on top
        cands.append([a] + base)                                    # extra element at the bottom
    for c in cands:
        if emit(c):
            out.append(c)
    if pairs:
        for c in list(out):
            for i in range(len(c)):
                for a in (alpha if wide else [0, 1] + [t for t in alpha if isinstance(t, X.Tok) and t.kind == "sig"][:3]):
                    x = list(c)
                    x[i] = a
                    if emit(x):
                        out.append(x)
    return out


def default_tx(ast):
    lt, seq = 0, 0
    for kind, n in X.locks(ast):
        if kind == "After":
            lt = max(lt, n)
        else:
            seq = max(seq, n)
    return X.Tx(lock_time=lt if lt else 0, sequence=seq if seq else 0)


_H = {}


def harness(F):
    if "h" not in _H:
        _H["h"] = Harness(F)
    return _H["h"]


def eval_case(F, text, ctx, w, tx):
    """-> (lib_status, lib_cons, ref_ok, ref_log, detail)"""
    ast = X.parse(text)
    h = harness(F)
    key = (text, ctx)
    if key not in _H:
        _H[key] = (to_model(F, ast, ctx), X.script(ast, ctx))
    mdl, sc = _H[key]
    from ..interp import dcopy
    st, cons, detail = h.run(dcopy(mdl), w, tx, ctx)
    ref_ok, ref_log, why = X.execute(sc, w, tx, ctx)
    return st, cons, ref_ok, ref_log, detail or why


def _work(args):
    """worker: one script -> list of result records"""
    from .. import facts
    F = facts.load()
    text, ctx, tier = args
    ast = X.parse(text)
    tx = default_tx(ast)
    alpha = alphabet(ast, ctx)
    sats, dis = X.witnesses(ast, ctx)
    recs = []
    try:
        for w in sats:
            st, cons, rok, rlog, detail = eval_case(F, text, ctx, w, tx)
            recs.append(("sat", w, st, cons, rok, rlog, detail))
        seen = set()
        for base in sats + dis:
            for w in mutations(base, alpha, pairs=True, wide=(tier != "quick")):
                t = tuple(repr(e) for e in w)
                if t in seen:
                    continue
                seen.add(t)
                st, cons, rok, rlog, detail = eval_case(F, text, ctx, w, tx)
                recs.append(("mut", w, st, cons, rok, rlog, detail))
        # lock times around every lock in the script
        lks = X.locks(ast)
        if lks:
            for w in sats:
                for kind, n in lks:
                    for d in (-1, 0, 1):
                        for flip in (False, True):
                            tx2 = X.Tx(tx.lock_time, tx.sequence)
                            if kind == "After":
                                tx2.lock_time = n + d if not flip else (n + d + 500000000 if n < 500000000 else n - 500000000 + d)
                                tx2.lock_time = max(tx2.lock_time, 0)
                            else:
                                tx2.sequence = max(n + d, 0) if not flip else ((n + d) | (1 << 22) if not n & (1 << 22) else (n + d) & ~(1 << 22))
                            st, cons, rok, rlog, detail = eval_case(F, text, ctx, w, tx2)
                            recs.append(("lock", (w, tx2.lock_time, tx2.sequence), st, cons, rok, rlog, detail))
                    if kind == "Older":
                        tx2 = X.Tx(tx.lock_time, n | (1 << 31))
                        st, cons, rok, rlog, detail = eval_case(F, text, ctx, w, tx2)
                        recs.append(("lock", (w, tx2.lock_time, tx2.sequence), st, cons, rok, rlog, detail))
    except Unsupported as e:
        return (text, ctx, "unsupported", "%s" % e, recs)
    except Panic as e:
        return (text, ctx, "panic", "%s" % e, recs)
    return (text, ctx, "done", "", recs)


def check_iter(chk, F):
    chk.rule("R13.1", "every canonical satisfaction (specification templates) of every script in the family is accepted "
                      "by the interpreter's state machine and the reported constraints equal the checks performed by the "
                      "reference Script execution")
    chk.rule("R13.2", "for every single-element mutation of every canonical (dis)satisfaction: interpreter accepts => the "
                      "reference Script execution accepts, with the same reported checks")
    chk.rule("R13.3", "under tx lock time / sequence values around (and of the other unit than) every lock in the script, "
                      "interpreter acceptance implies BIP-65 / BIP-112 acceptance by the reference execution")
    X.selftest()
    chk.saw(harness(F).next, F.fn("iter_next", file="interpreter/mod.rs"))
    for nm in ("evaluate_pk", "evaluate_pkh", "evaluate_after", "evaluate_older", "evaluate_sha256", "evaluate_multi"):
        chk.saw(F.fn(nm, file="interpreter/stack.rs"))
    # the family must be well-typed B scripts according to the library's own parser (typing rules: C05)
    from .. import textmodel as tm
    pm = Machine(F, strict=True)
    pm.text_keys = True
    ft = tm.from_tree_path(F, MS)
    root = F.fn("root", file="expression/mod.rs")
    CTX = {"segwitv0": "miniscript::context::Segwitv0", "tap": "miniscript::context::Tap"}
    for (text, ctx) in SCRIPTS:
        tr = tm.parse_tree(F, pm, text)
        ri = pm.call_path(root, [tr.fields["0"]])
        r = pm.call_callee({"def": "expression::FromTree::from_tree", "resolved": ft, "name": "from_tree",
                            "trait": "expression::FromTree",
                            "resolved_container": "miniscript::<impl expression::FromTree for miniscript::private::Miniscript<Pk, Ctx>>",
                            "self_ty": "miniscript::private::Miniscript<std::string::String, %s>" % CTX[ctx],
                            "targs": ["miniscript::private::Miniscript<std::string::String, %s>" % CTX[ctx]]}, [ri])
        good = isinstance(r, Adt) and r.variant == "Ok" and \
            r.fields["0"].fields["ty"].fields["corr"].fields["base"].variant == "B"
        if not good:
            raise Unsupported("family script %s [%s] is not a well-typed B miniscript: %r" % (text, ctx, r))
    import multiprocessing as mp
    jobs = [(t, c, chk.tier) for (t, c) in SCRIPTS]
    with mp.Pool(min(16, os.cpu_count() or 4)) as pool:
        results = pool.map(_work, jobs, chunksize=1)
    n_cases = 0
    accepted = 0
    for (text, ctx, status, msg, recs) in results:
        skey = "%s|%s" % (ctx, text)
        if status == "unsupported":
            chk.fail("R13.2", "unanalysable:" + skey, "unanalysable: %s" % msg, kind="unanalysable")
        elif status == "panic":
            chk.fail("R13.2", "panic:" + skey, "panic in the interpreter: %s" % msg, where="src/interpreter")
        bad = {"R13.1": [], "R13.2": [], "R13.3": []}
        for (kind, w, st, cons, rok, rlog, detail) in recs:
            n_cases += 1
            rule = {"sat": "R13.1", "mut": "R13.2", "lock": "R13.3"}[kind]
            if kind == "sat" and st != "ok":
                bad[rule].append("canonical satisfaction %r rejected: %s" % (w, detail))
                continue
            if st == "ok":
                accepted += 1
                if not rok:
                    bad[rule].append("witness %r accepted by the interpreter, rejected by script execution (%s)"
                                     % (w, detail))
                elif sorted(map(repr, cons)) != sorted(map(repr, rlog)):
                    bad[rule].append("witness %r: reported constraints %r, executed checks %r" % (w, cons, rlog))
        for rule, msgs in bad.items():
            if msgs:
                chk.fail(rule, skey, "%d case(s); first: %s" % (len(msgs), msgs[0]), where="src/interpreter/mod.rs",
                         detail=msgs[:10])
            elif any(r[0] == {"R13.1": "sat", "R13.2": "mut", "R13.3": "lock"}[rule] for r in recs):
                chk.ok(rule)
        if recs:
            chk.sample("%s [%s]: %d cases, %d accepted" % (text, ctx, len(recs), sum(1 for r in recs if r[2] == "ok")))
    chk.extra["R13_cases"] = n_cases
    chk.extra["R13_accepted_cases"] = accepted
    chk.floor("R13.2", "witness cases evaluated", n_cases, 8000 if chk.tier == "quick" else 50000)
    chk.floor("R13.2", "accepted cases (non-vacuous)", accepted, 250)


def run(chk):
    F = chk.facts()
    chk.explanation = __doc__
    chk.trusted = ["spec/msexec.py (reference Script execution, consensus rules), spec/script.py, spec/satisfaction.py",
                   "rust-bitcoin signature / key parsing and hashing modelled on abstract tokens",
                   "rustc THIR as dumped by factgen; msverif THIR evaluator"]
    if not ONLY or "1" in ONLY:
        chk.guard("R13.2", "iter", check_iter, chk, F)
