"""C13 -- the transaction interpreter agrees with real script execution.

What is decided (DESIGN.md C13).  The interpreter's evaluation-state machine (Iter::next / iter_next and the stack
evaluators of interpreter/stack.rs) is evaluated from its typed syntax tree on abstract witness stacks whose
elements are opaque tokens (a signature valid for exactly one key, a key, a preimage, 32 zero bytes, junk, the empty
vector, the vector [1]).  The oracle is an independent reference execution (spec/msexec.py) of the Script that the
specification's templates (spec/script.py) give for the same miniscript, on the same abstract stack.

R13.1  every canonical satisfaction of the specification (spec/satisfaction.py) is accepted, and the constraints the
       interpreter reports are exactly the checks the reference execution performed (same multiset)
R13.2  soundness on perturbed witnesses: for every single-element mutation (drop, duplicate, swap neighbours,
       replace by every alphabet symbol; pairs in the thorough tier) of every canonical satisfaction and
       dissatisfaction: interpreter accepts => reference execution accepts, with the same reported checks
R13.3  lock times: acceptance under tx lock time / sequence values around every lock in the script agrees with
       BIP-65 / BIP-112 as implemented by the reference execution
R13.4  from_txdata: decision table per output type (which stack is kept, emptiness requirements, commitment check
       dominating success, script code) against BIP-16/141/143/341
R13.5  signature-type partition: Interpreter::verify_sig selects the sighash flavour by output type
R13.6  the conditions reported for an accepted witness, taken as the only assets, satisfy the script's spending condition"""

import itertools
import os
import sys

from .. import model
from ..interp import Machine, Adt, Term, PyVec, Panic, ok, err, some, NONE
from ..report import Unsupported

sys.path.insert(0, os.path.join(os.path.dirname(__file__), "..", "..", "spec"))
import msexec as X  # noqa: E402

LEVEL = "other"
ONLY = os.environ.get("C13_ONLY", "")

T = model.TERMINAL
MS = model.MS
BK = "interpreter::BitcoinKey"
ELEM = "interpreter::stack::Element"
STACK = "interpreter::stack::Stack"
ITER = "interpreter::Iter"
NES = "interpreter::NodeEvaluationState"
SIGTYPE = "miniscript::context::SigType"
ABSLT = "bitcoin::absolute::LockTime"


def ms(node):
    return Adt(MS, "Miniscript", {"node": node, "ty": Term("ty"), "ext": Term("ext"), "phantom": ()})


def bkey(name, ctx):
    if ctx == "tap":
        return Adt(BK, "XOnlyPublicKey", {"0": X.key(name, "schnorr")})
    return Adt(BK, "Fullkey", {"0": X.key(name, "ecdsa")})


def abs_lock(F, n):
    path = [a for a in F.adts if a.endswith("absolute_locktime::AbsLockTime")][0]
    return Adt(path, "AbsLockTime", {"0": ext_abs(n)})


def ext_abs(n):
    return Adt(ABSLT, "Blocks" if n < 500000000 else "Seconds", {"0": n})


def rel_lock(F, n):
    path = [a for a in F.adts if a.endswith("relative_locktime::RelLockTime")][0]
    return Adt(path, "RelLockTime", {"0": n})


ALG = {"Sha256": "SHA256", "Hash256": "HASH256", "Ripemd160": "RIPEMD160", "Hash160": "HASH160"}


def to_model(F, n, ctx):
    """spec AST -> model Miniscript<BitcoinKey, NoChecks>"""
    v = n.v
    kids = [to_model(F, k, ctx) for k in n.kids]
    if v in ("True", "False"):
        t = Adt(T, v, {})
    elif v in ("PkK", "PkH"):
        t = Adt(T, v, {"0": bkey(n.data, ctx)})
    elif v == "After":
        t = Adt(T, v, {"0": abs_lock(F, n.data)})
    elif v == "Older":
        t = Adt(T, v, {"0": rel_lock(F, n.data)})
    elif v in ALG:
        t = Adt(T, v, {"0": ("hash", ALG[v], X.pre(n.data))})
    elif v == "Thresh":
        t = Adt(T, v, {"0": model.threshold(n.data, kids)})
    elif v in ("Multi", "SortedMulti", "MultiA", "SortedMultiA"):
        k, keys = n.data
        ks = sorted(keys) if v.startswith("Sorted") else keys
        t = Adt(T, v, {"0": model.threshold(k, [bkey(x, ctx) for x in ks])})
    else:
        t = Adt(T, v, {str(i): c for i, c in enumerate(kids)})
    return ms(t)


def ast_policy(n):
    """specification semantics of a miniscript (spec AST) as a policy_sem tuple"""
    v = n.v
    k = [ast_policy(c) for c in n.kids]
    if v == "True":
        return ("T",)
    if v == "False":
        return ("F",)
    if v in ("PkK", "PkH"):
        return ("key", n.data)
    if v in ("After", "Older"):
        return (v.lower(), n.data)
    if v in ALG:
        return ("hash", ALG[v], n.data)
    if v in ("AndV", "AndB"):
        return ("and", k)
    if v in ("OrB", "OrC", "OrD", "OrI"):
        return ("or", k)
    if v == "AndOr":
        return ("or", [("and", [k[0], k[1]]), k[2]])
    if v == "Thresh":
        return ("thresh", n.data, k)
    if v in ("Multi", "SortedMulti", "MultiA", "SortedMultiA"):
        return ("thresh", n.data[0], [("key", x) for x in n.data[1]])
    if len(k) == 1:
        return k[0]          # wrappers
    raise Unsupported("semantics of %s" % v)


def policy_holds(pol, cons):
    sys.path.insert(0, os.path.join(os.path.dirname(__file__), "..", "..", "spec"))
    import policy_sem as PS
    env = {}
    for a in PS.atoms(pol):
        if a[0] == "key":
            env[a] = ("sig", a[1]) in cons
        elif a[0] == "hash":
            env[a] = any(c[0] == "hash" and c[1] == a[1] and c[2] == a[2] for c in cons)
        else:
            env[a] = (a[0], a[1]) in cons
    return PS.ev(pol, env)


def element(v):
    if isinstance(v, int) and v == 0:
        return Adt(ELEM, "Dissatisfied", {})
    if isinstance(v, int) and v == 1:
        return Adt(ELEM, "Satisfied", {})
    return Adt(ELEM, "Push", {"0": v})


class Harness(object):
    def __init__(self, F):
        self.F = F
        m = Machine(F, strict=True, max_depth=60)
        m.max_steps = 2_000_000
        self.m = m
        self.next = [it["path"] for i in F.impls if i["self_adt"] == ITER and i["trait"] == "std::iter::Iterator"
                     for it in i["items"] if it["name"] == "next"][0]
        h = m.hooks

        def from_slice(kind):
            def f(m_, a, c):
                from ..builtins import deref
                v = deref(a[0])
                if isinstance(v, X.Tok) and v.kind == "sig" and v.extra == kind:
                    return ok(v)
                return err(Term("SigParseError", kind))
            return f
        h["bitcoin::ecdsa::Signature::from_slice"] = from_slice("ecdsa")
        h["bitcoin::taproot::Signature::from_slice"] = from_slice("schnorr")

        def key_from_slice(kind):
            def f(m_, a, c):
                from ..builtins import deref
                v = deref(a[0])
                if isinstance(v, X.Tok) and v.kind == "key" and v.extra == kind:
                    return ok(v)
                return err(Term("KeyParseError", kind))
            return f
        h["bitcoin::PublicKey::from_slice"] = key_from_slice("ecdsa")
        h["bitcoin::XOnlyPublicKey::from_slice"] = key_from_slice("schnorr")
        h["bitcoin::secp256k1::XOnlyPublicKey::from_slice"] = key_from_slice("schnorr")

        def hasher(alg):
            def f(m_, a, c):
                from ..builtins import deref
                return ("hash", alg, deref(a[0]))
            return f
        for mod, alg in (("sha256", "SHA256"), ("hash160", "HASH160"), ("ripemd160", "RIPEMD160"),
                         ("sha256d", "HASH256")):
            h["bitcoin::hashes::%s::Hash::hash" % mod] = hasher(alg)
        h["bitcoin::hashes::Hash::hash"] = self._generic_hash
        h["bitcoin::bitcoin_hashes::Hash::hash"] = self._generic_hash
        # lock times (rust-bitcoin): relative::LockTime modelled by the consensus u32 of the sequence
        h["bitcoin::Sequence::to_relative_lock_time"] = \
            lambda m_, a, c: some(("rel", a[0])) if (a[0] & (1 << 31)) == 0 else NONE
        h["bitcoin::relative::LockTime::is_implied_by"] = self._implied
        # (rust-bitcoin's relative::LockTime keeps the unit flag and 16 bits of value only)
        h["bitcoin::relative::LockTime::to_sequence"] = lambda m_, a, c: (a[0][1] if isinstance(a[0], tuple) else a[0]) & 0x0040ffff
        h["bitcoin::relative::LockTime::to_consensus_u32"] = h["bitcoin::relative::LockTime::to_sequence"]
        h["bitcoin::Sequence::is_relative_lock_time"] = lambda m_, a, c: (a[0] & (1 << 31)) == 0
        h["bitcoin::Sequence::to_consensus_u32"] = lambda m_, a, c: a[0]
        self.to_pubkeyhash = [p for p in F.fns if p.endswith("BitcoinKey::to_pubkeyhash")]
        for p in self.to_pubkeyhash:
            h[p] = lambda m_, a, c: ("hash", "HASH160", a[0].fields["0"])

    @staticmethod
    def _generic_hash(m_, a, c):
        from ..builtins import deref
        st = (c.get("self_ty") or "") + " ".join(c.get("targs") or [])
        alg = "SHA256"
        if "hash160" in st:
            alg = "HASH160"
        elif "ripemd160" in st:
            alg = "RIPEMD160"
        elif "sha256d" in st or "hash256" in st:
            alg = "HASH256"
        return ("hash", alg, deref(a[0]))

    @staticmethod
    def _implied(m_, a, c):
        from ..builtins import deref
        n, txl = deref(a[0]), deref(a[1])
        n = n[1] if isinstance(n, tuple) else n
        txl = txl[1] if isinstance(txl, tuple) else txl
        if (n & (1 << 22)) != (txl & (1 << 22)):
            return False
        return (n & 0xffff) <= (txl & 0xffff)

    def run(self, msmodel, stack, tx, ctx, public_key=None):
        """-> ('ok'|'err', constraints, detail)"""
        F = self.F

        def verify_sig(pair):
            from ..builtins import deref
            pair = deref(pair)
            k, s = pair.fields["0"], pair.fields["1"]
            return isinstance(s, X.Tok) and s.kind == "sig" and s.name == k.name and s.extra == k.extra
        state = []
        if msmodel is not None:
            state = [Adt(NES, "NodeEvaluationState", {"node": msmodel, "n_evaluated": 0, "n_satisfied": 0})]
        it = Adt(ITER, "Iter", {
            "verify_sig": verify_sig,
            "public_key": some(public_key) if public_key is not None else NONE,
            "state": PyVec(state),
            "stack": Adt(STACK, "Stack", {"0": PyVec([element(v) for v in stack])}),
            "sequence": tx.sequence,
            "lock_time": ext_abs(tx.lock_time),
            "has_errored": False,
            "sig_type": Adt(SIGTYPE, "Schnorr" if ctx == "tap" else "Ecdsa", {}),
        })
        cons = []
        for _ in range(200):
            r = self.m.call_path(self.next, [it])
            if r.variant == "None":
                return "ok", cons, ""
            item = r.fields["0"]
            if item.variant == "Err":
                return "err", cons, repr(item.fields["0"])[:120]
            cons.append(constraint(item.fields["0"]))
        raise Unsupported("interpreter did not terminate in 200 steps")


def constraint(c):
    v = c.variant
    if v in ("PublicKey", "PublicKeyHash"):
        ks = c.fields["key_sig"]
        return ("sig", ks.fields["0"].name)
    if v == "HashLock":
        h = c.fields["hash"]
        hv = h.fields["0"]
        return ("hash", hv[1], c.fields["preimage"].name if isinstance(c.fields["preimage"], X.Tok) else repr(c.fields["preimage"]))
    if v == "RelativeTimelock":
        n = c.fields["n"]
        return ("older", n.fields["0"] if isinstance(n, Adt) else (n[1] if isinstance(n, tuple) else n))
    if v == "AbsoluteTimelock":
        n = c.fields["n"]
        return ("after", n.fields["0"] if isinstance(n, Adt) else n)
    return ("?", repr(c))


SCRIPTS = [
    # (text, ctx)
    ("pk(A)", "segwitv0"), ("pkh(A)", "segwitv0"), ("and_v(v:pk(A),pk(B))", "segwitv0"),
    ("and_v(v:pkh(A),pk(B))", "segwitv0"), ("and_b(pk(A),s:pk(B))", "segwitv0"), ("and_b(pk(A),a:pkh(B))", "segwitv0"),
    ("or_b(pk(A),s:pk(B))", "segwitv0"), ("or_b(pk(A),a:sha256(H))", "segwitv0"),     ("t:or_c(pk(A),v:pk(B))", "segwitv0"), ("or_d(pk(A),pk(B))", "segwitv0"), ("or_d(pk(A),pkh(B))", "segwitv0"),
    ("or_i(pk(A),pk(B))", "segwitv0"), ("or_i(pk(A),and_v(v:pk(B),sha256(H)))", "segwitv0"),
    ("andor(pk(A),pk(B),pk(C))", "segwitv0"), ("andor(pk(A),sha256(H),pkh(C))", "segwitv0"),
    ("and_n(pk(A),pk(B))", "segwitv0"), ("thresh(1,pk(A),s:pk(B))", "segwitv0"),
    ("thresh(2,pk(A),s:pk(B),s:pk(C))", "segwitv0"), ("thresh(3,pk(A),s:pk(B),s:pk(C))", "segwitv0"),
    ("thresh(2,pk(A),s:pk(B),sln:older(5))", "segwitv0"), ("thresh(2,pk(A),a:sha256(H),a:hash160(G))", "segwitv0"),
    ("multi(1,A,B)", "segwitv0"), ("multi(2,A,B,C)", "segwitv0"), ("multi(3,A,B,C)", "segwitv0"),
    ("sortedmulti(2,C,A,B)", "segwitv0"), ("and_v(v:multi(1,A,B),pk(C))", "segwitv0"),
    ("sha256(H)", "segwitv0"), ("and_v(v:sha256(H),pk(A))", "segwitv0"), ("and_v(v:hash256(H),pk(A))", "segwitv0"),
    ("and_v(v:ripemd160(H),pk(A))", "segwitv0"), ("and_v(v:hash160(H),pk(A))", "segwitv0"),
    ("and_v(v:after(100),pk(A))", "segwitv0"), ("and_v(v:older(7),pk(A))", "segwitv0"),
    ("and_v(v:pk(A),older(7))", "segwitv0"), ("and_v(v:pk(A),after(500000100))", "segwitv0"),
    ("or_d(pk(A),and_v(v:pk(B),older(7)))", "segwitv0"), ("j:and_v(v:pk(A),pk(B))", "segwitv0"),
    ("and_b(pk(A),aj:and_v(v:pk(B),pk(C)))", "segwitv0"), ("and_b(pk(A),sdv:older(3))", "segwitv0"),
    ("or_b(pk(A),sdv:older(3))", "segwitv0"), ("n:and_v(v:pk(A),older(3))", "segwitv0"),
    ("or_i(0,pk(A))", "segwitv0"), ("or_i(pk(A),0)", "segwitv0"), ("and_v(v:pk(A),1)", "segwitv0"),
    ("or_d(multi(1,A,B),pk(C))", "segwitv0"), ("andor(multi(2,A,B,C),pk(D),pk(E))", "segwitv0"),
    ("or_i(and_v(v:after(50),pk(A)),pk(B))", "segwitv0"),
    ("pk(A)", "tap"), ("pkh(A)", "tap"), ("multi_a(1,A,B)", "tap"), ("multi_a(2,A,B,C)", "tap"),
    ("multi_a(3,A,B,C)", "tap"), ("sortedmulti_a(2,C,A,B)", "tap"), ("and_v(v:multi_a(2,A,B,C),pk(D))", "tap"),
    ("or_d(multi_a(1,A,B),pk(C))", "tap"), ("and_v(v:pk(A),pk(B))", "tap"), ("or_d(pk(A),and_v(v:pkh(B),older(7)))", "tap"),
    ("thresh(2,pk(A),s:pk(B),s:pk(C))", "tap"),
]


def generated_scripts(F, ctx="segwitv0", limit=120):
    """two-level compositions over B sub-scripts, kept when the library types them as B (thorough tier)"""
    from . import c06
    subs = ["pk(A)", "pkh(B)", "multi(1,C,D)" if ctx != "tap" else "multi_a(1,C,D)", "and_v(v:pk(E),older(7))",
            "or_d(pk(F),pk(G))", "thresh(2,pk(H),s:pk(I),s:pk(J))"]
    cands = []
    for x in subs:
        for y in subs:
            if x == y:
                continue
            cands += ["and_v(v:%s,%s)" % (x, y), "and_b(%s,a:%s)" % (x, y), "or_b(%s,a:%s)" % (x, y), "or_d(%s,%s)" % (x, y),
                      "or_i(%s,%s)" % (x, y), "andor(%s,%s,pk(Z))" % (x, y), "thresh(2,%s,a:%s,s:pk(Z))" % (x, y),
                      "t:or_c(%s,v:%s)" % (x, y), "j:and_v(v:%s,%s)" % (x, y)]
    T_ = c06.Typer(F)
    out = []
    for t in cands:
        try:
            lab = T_.type_of(t, ctx)
        except (Unsupported, Panic):
            lab = None
        if lab and lab["base"] == "B":
            out.append((t, ctx))
        if len(out) >= limit:
            break
    return out


def alphabet(ast, ctx):
    kk = X.keykind(ctx)
    keys, hashes = set(), set()

    def go(n):
        if n.v in ("PkK", "PkH"):
            keys.add(n.data)
        elif n.v in ALG:
            hashes.add(n.data)
        elif isinstance(n.data, tuple):
            keys.update(n.data[1])
        for k in n.kids:
            go(k)
    go(ast)
    out = [0, 1, X.ZEROS32, X.JUNK, X.JUNK32]
    for k in sorted(keys):
        out += [X.sig(k, kk), X.key(k, kk)]
    out.append(X.sig("ZZ", kk))                       # well-formed signature of an unrelated key
    out.append(X.sig(sorted(keys)[0], "schnorr" if kk == "ecdsa" else "ecdsa") if keys else X.JUNK)
    for h in sorted(hashes):
        out.append(X.pre(h))
    out.append(X.pre("other"))
    return out


def mutations(w, alpha, pairs=False, wide=False):
    seen = set()

    def emit(x):
        t = tuple(repr(e) for e in x)
        if t not in seen:
            seen.add(t)
            return True
        return False
    out = []
    base = list(w)
    cands = []
    for i in range(len(base)):
        cands.append(base[:i] + base[i + 1:])                      # drop
        cands.append(base[:i] + [base[i], base[i]] + base[i + 1:])  # duplicate
        if i + 1 < len(base):
            x = list(base)
            x[i], x[i + 1] = x[i + 1], x[i]
            cands.append(x)                                         # swap neighbours
        for a in alpha:
            x = list(base)
            x[i] = a
            cands.append(x)                                         # replace
    for a in alpha:
        cands.append(base + [a])                                    # extra element on top
        cands.append([a] + base)                                    # extra element at the bottom
    for c in cands:
        if emit(c):
            out.append(c)
    if pairs:
        for c in list(out):
            for i in range(len(c)):
                for a in (alpha if wide else [0, 1] + [t for t in alpha if isinstance(t, X.Tok) and t.kind == "sig"][:3]):
                    x = list(c)
                    x[i] = a
                    if emit(x):
                        out.append(x)
    return out


def default_tx(ast):
    lt, seq = 0, 0
    for kind, n in X.locks(ast):
        if kind == "After":
            lt = max(lt, n)
        else:
            seq = max(seq, n)
    return X.Tx(lock_time=lt if lt else 0, sequence=seq if seq else 0)


_H = {}


def harness(F):
    if "h" not in _H:
        _H["h"] = Harness(F)
    return _H["h"]


def eval_case(F, text, ctx, w, tx):
    """-> (lib_status, lib_cons, ref_ok, ref_log, detail)"""
    ast = X.parse(text)
    h = harness(F)
    key = (text, ctx)
    if key not in _H:
        _H[key] = (to_model(F, ast, ctx), X.script(ast, ctx))
    mdl, sc = _H[key]
    from ..interp import dcopy
    st, cons, detail = h.run(dcopy(mdl), w, tx, ctx)
    ref_ok, ref_log, why = X.execute(sc, w, tx, ctx)
    return st, cons, ref_ok, ref_log, detail or why


def _work(args):
    """worker: one script -> list of result records"""
    from .. import facts
    F = facts.load()
    text, ctx, tier = args
    ast = X.parse(text)
    tx = default_tx(ast)
    alpha = alphabet(ast, ctx)
    sats, dis = X.witnesses(ast, ctx)
    recs = []
    try:
        for w in sats:
            st, cons, rok, rlog, detail = eval_case(F, text, ctx, w, tx)
            recs.append(("sat", w, st, cons, rok, rlog, detail))
        seen = set()
        for base in sats + dis:
            for w in mutations(base, alpha, pairs=True, wide=(tier != "quick")):
                t = tuple(repr(e) for e in w)
                if t in seen:
                    continue
                seen.add(t)
                st, cons, rok, rlog, detail = eval_case(F, text, ctx, w, tx)
                recs.append(("mut", w, st, cons, rok, rlog, detail))
        # lock times around every lock in the script
        lks = X.locks(ast)
        if lks:
            for w in sats:
                for kind, n in lks:
                    for d in (-1, 0, 1):
                        for flip in (False, True):
                            tx2 = X.Tx(tx.lock_time, tx.sequence)
                            if kind == "After":
                                tx2.lock_time = n + d if not flip else (n + d + 500000000 if n < 500000000 else n - 500000000 + d)
                                tx2.lock_time = max(tx2.lock_time, 0)
                            else:
                                tx2.sequence = max(n + d, 0) if not flip else ((n + d) | (1 << 22) if not n & (1 << 22) else (n + d) & ~(1 << 22))
                            st, cons, rok, rlog, detail = eval_case(F, text, ctx, w, tx2)
                            recs.append(("lock", (w, tx2.lock_time, tx2.sequence), st, cons, rok, rlog, detail))
                    if kind == "After":
                        # BIP 65: OP_CHECKLOCKTIMEVERIFY fails on an input whose nSequence is final, whatever nLockTime is
                        tx2 = X.Tx(max(tx.lock_time, n), 0xffffffff)
                        st, cons, rok, rlog, detail = eval_case(F, text, ctx, w, tx2)
                        recs.append(("lock", (w, tx2.lock_time, tx2.sequence), st, cons, rok, rlog, detail))
                    if kind == "Older":
                        tx2 = X.Tx(tx.lock_time, n | (1 << 31))
                        st, cons, rok, rlog, detail = eval_case(F, text, ctx, w, tx2)
                        recs.append(("lock", (w, tx2.lock_time, tx2.sequence), st, cons, rok, rlog, detail))
    except Unsupported as e:
        return (text, ctx, "unsupported", "%s" % e, recs)
    except Panic as e:
        return (text, ctx, "panic", "%s" % e, recs)
    return (text, ctx, "done", "", recs)


def check_iter(chk, F):
    chk.rule("R13.1", "every canonical satisfaction (specification templates) of every script in the family is accepted "
                      "by the interpreter's state machine and the reported constraints equal the checks performed by the "
                      "reference Script execution")
    chk.rule("R13.2", "for every single-element mutation of every canonical (dis)satisfaction: interpreter accepts => the "
                      "reference Script execution accepts, with the same reported checks")
    chk.rule("R13.3", "under tx lock time / sequence values around (and of the other unit than) every lock in the script, "
                      "interpreter acceptance implies BIP-65 / BIP-112 acceptance by the reference execution")
    X.selftest()
    chk.saw(harness(F).next, F.fn("iter_next", file="interpreter/mod.rs"))
    for nm in ("evaluate_pk", "evaluate_pkh", "evaluate_after", "evaluate_older", "evaluate_sha256", "evaluate_multi"):
        chk.saw(F.fn(nm, file="interpreter/stack.rs"))
    # the family must be well-typed B scripts according to the library's own parser (typing rules: C05)
    from .. import textmodel as tm
    pm = Machine(F, strict=True)
    pm.text_keys = True
    ft = tm.from_tree_path(F, MS)
    root = F.fn("root", file="expression/mod.rs")
    CTX = {"segwitv0": "miniscript::context::Segwitv0", "tap": "miniscript::context::Tap"}
    for (text, ctx) in SCRIPTS:
        tr = tm.parse_tree(F, pm, text)
        ri = pm.call_path(root, [tr.fields["0"]])
        r = pm.call_callee({"def": "expression::FromTree::from_tree", "resolved": ft, "name": "from_tree",
                            "trait": "expression::FromTree",
                            "resolved_container": "miniscript::<impl expression::FromTree for miniscript::private::Miniscript<Pk, Ctx>>",
                            "self_ty": "miniscript::private::Miniscript<std::string::String, %s>" % CTX[ctx],
                            "targs": ["miniscript::private::Miniscript<std::string::String, %s>" % CTX[ctx]]}, [ri])
        good = isinstance(r, Adt) and r.variant == "Ok" and \
            r.fields["0"].fields["ty"].fields["corr"].fields["base"].variant == "B"
        if not good:
            raise Unsupported("family script %s [%s] is not a well-typed B miniscript: %r" % (text, ctx, r))
    import multiprocessing as mp
    scripts = list(SCRIPTS)
    if chk.tier != "quick":
        scripts += generated_scripts(F, "segwitv0") + generated_scripts(F, "tap", 60)
        chk.extra["R13_generated_scripts"] = len(scripts) - len(SCRIPTS)
    jobs = [(t, c, chk.tier) for (t, c) in scripts]
    with mp.Pool(min(16, os.cpu_count() or 4)) as pool:
        results = pool.map(_work, jobs, chunksize=1)
    n_cases = 0
    accepted = 0
    policies, bad6, n6 = {}, [], [0]
    chk.rule("R13.6", "for every accepted witness of R13.1-R13.3 the conditions the interpreter reports (signatures, preimages, "
                      "lock times), taken as the only available assets, make the script's spending condition (specification "
                      "semantics of the miniscript) true")
    for (text, ctx, status, msg, recs) in results:
        skey = "%s|%s" % (ctx, text)
        if status == "unsupported":
            chk.fail("R13.2", "unanalysable:" + skey, "unanalysable: %s" % msg, kind="unanalysable")
        elif status == "panic":
            chk.fail("R13.2", "panic:" + skey, "panic in the interpreter: %s" % msg, where="src/interpreter")
        bad = {"R13.1": [], "R13.2": [], "R13.3": []}
        for (kind, w, st, cons, rok, rlog, detail) in recs:
            n_cases += 1
            rule = {"sat": "R13.1", "mut": "R13.2", "lock": "R13.3"}[kind]
            if kind == "sat" and st != "ok":
                bad[rule].append("canonical satisfaction %r rejected: %s" % (w, detail))
                continue
            if st == "ok":
                accepted += 1
                if not rok:
                    bad[rule].append("witness %r accepted by the interpreter, rejected by script execution (%s)"
                                     % (w, detail))
                elif sorted(map(repr, cons)) != sorted(map(repr, rlog)):
                    bad[rule].append("witness %r: reported constraints %r, executed checks %r" % (w, cons, rlog))
                # R13.6: the reported conditions, taken as the only available assets, satisfy the script's policy
                pol = policies.get((text, ctx))
                if pol is None:
                    pol = policies[(text, ctx)] = ast_policy(X.parse(text))
                if not policy_holds(pol, cons):
                    bad6.append("%s [%s]: witness %r accepted with reported conditions %r, which do not satisfy the spending "
                                "condition %r" % (text, ctx, w, cons, pol))
                n6[0] += 1
        for rule, msgs in bad.items():
            if msgs:
                chk.fail(rule, skey, "%d case(s); first: %s" % (len(msgs), msgs[0]), where="src/interpreter/mod.rs",
                         detail=msgs[:10])
            elif any(r[0] == {"R13.1": "sat", "R13.2": "mut", "R13.3": "lock"}[rule] for r in recs):
                chk.ok(rule)
        if recs:
            chk.sample("%s [%s]: %d cases, %d accepted" % (text, ctx, len(recs), sum(1 for r in recs if r[2] == "ok")))
    chk.obligation("R13.6", not bad6, "reported-conditions", "%d case(s); first: %s" % (len(bad6), bad6[0] if bad6 else ""),
                   where="src/interpreter/mod.rs", detail=bad6[:10])
    chk.floor("R13.6", "accepted witnesses judged", n6[0], 250)
    chk.extra["R13_cases"] = n_cases
    chk.extra["R13_accepted_cases"] = accepted
    chk.floor("R13.2", "witness cases evaluated", n_cases, 8000 if chk.tier == "quick" else 50000)
    chk.floor("R13.2", "accepted cases (non-vacuous)", accepted, 250)


# ---- R13.4 from_txdata ------------------------------------------------------------------------------------------

class PyScript(object):
    """a bitcoin::Script value: kind in p2pk p2pkh p2wpkh p2wsh p2tr p2sh ms"""
    __slots__ = ("kind", "data")

    def __init__(self, kind, data):
        self.kind, self.data = kind, data

    def key(self):
        return (self.kind, repr(self.data))

    def __eq__(self, o):
        return isinstance(o, PyScript) and self.key() == o.key()

    def __ne__(self, o):
        return not self == o

    def __hash__(self):
        return hash(self.key())

    def __repr__(self):
        return "%s(%r)" % (self.kind, self.data)

    def bytes(self):
        return X.Tok("scriptbytes", repr(self), {"p2wpkh": 22, "p2wsh": 34, "p2pkh": 25, "p2sh": 23, "p2tr": 34,
                                               "p2pk": 35}.get(self.kind, 40))


def h160(x):
    return ("hash", "HASH160", x)


def sha(x):
    return ("hash", "SHA256", x)


def ms_script(text, ctx):
    """the encoded script of a miniscript, as a witness / scriptSig element"""
    return X.Tok("script", text, 40, True, ctx)


class TxHarness(object):
    def __init__(self, F):
        self.F = F
        m = Machine(F, strict=True, max_depth=60)
        self.m = m
        self.fn = F.fn("from_txdata", file="interpreter/inner.rs")
        m.tok_index = _tok_index
        h = m.hooks
        from ..builtins import deref

        def is_kind(kind):
            return lambda m_, a, c: deref(a[0]).kind == kind
        for k in ("p2pk", "p2pkh", "p2wpkh", "p2wsh", "p2tr", "p2sh"):
            h["bitcoin::Script::is_" + k] = is_kind(k)
        h["<bitcoin::Script as std::ops::Index<std::ops::Range<usize>>>::index"] = _script_index
        h["<bitcoin::Script as std::ops::Index<std::ops::RangeFrom<usize>>>::index"] = _script_index
        h["bitcoin::Script::instructions_minimal"] = lambda m_, a, c: _instr_iter(deref(a[0]))
        h["bitcoin::Witness::iter"] = lambda m_, a, c: _wit_iter(deref(a[0]))
        h["bitcoin::Script::len"] = lambda m_, a, c: deref(a[0]).bytes().length
        h["bitcoin::Script::to_owned"] = lambda m_, a, c: deref(a[0])
        h["bitcoin::Script::as_bytes"] = lambda m_, a, c: _as_bytes(deref(a[0]))
        h["bitcoin::ScriptBuf::as_bytes"] = lambda m_, a, c: _as_bytes(deref(a[0]))
        h["bitcoin::script::PushBytes::as_bytes"] = lambda m_, a, c: deref(a[0])
        h["bitcoin::Script::from_bytes"] = lambda m_, a, c: deref(a[0])
        h["bitcoin::ScriptBuf::new_p2pkh"] = lambda m_, a, c: PyScript("p2pkh", deref(a[0]))
        h["bitcoin::ScriptBuf::new_p2wpkh"] = lambda m_, a, c: PyScript("p2wpkh", deref(a[0]))
        h["bitcoin::ScriptBuf::new_p2wsh"] = lambda m_, a, c: PyScript("p2wsh", deref(a[0]))
        h["bitcoin::ScriptBuf::new_p2sh"] = lambda m_, a, c: PyScript("p2sh", deref(a[0]))

        def key_from_slice(m_, a, c):
            v = deref(a[0])
            if isinstance(v, X.Tok) and v.kind == "key" and v.extra in ("ecdsa", "ecdsa-uncompressed"):
                return ok(Adt("bitcoin::PublicKey", "PublicKey", {"compressed": v.extra == "ecdsa", "inner": v}))
            return err(Term("KeyParseError"))
        h["bitcoin::PublicKey::from_slice"] = key_from_slice

        def xonly_from_slice(m_, a, c):
            v = deref(a[0])
            if isinstance(v, X.Tok) and v.kind == "key" and v.extra == "schnorr":
                return ok(v)
            return err(Term("KeyParseError"))
        h["bitcoin::XOnlyPublicKey::from_slice"] = xonly_from_slice
        h["bitcoin::secp256k1::XOnlyPublicKey::from_slice"] = xonly_from_slice
        for mod, alg in (("sha256", "SHA256"), ("hash160", "HASH160")):
            h["bitcoin::hashes::%s::Hash::hash" % mod] = (lambda alg_: lambda m_, a, c: ("hash", alg_, deref(a[0])))(alg)
        h["bitcoin::bitcoin_hashes::Hash::hash"] = Harness._generic_hash
        h["bitcoin::hashes::Hash::hash"] = Harness._generic_hash
        tph = [p for p in F.fns if p.endswith("::to_pubkeyhash")]
        for p in tph:
            h[p] = lambda m_, a, c: h160(_keytok(deref(a[0])))
        h["ToPublicKey::to_pubkeyhash"] = lambda m_, a, c: h160(_keytok(deref(a[0])))

        def decode_consensus(m_, a, c):
            v = deref(a[0])
            st = " ".join([c.get("self_ty") or ""] + (c.get("targs") or []))
            want = "tap" if "Tap" in st else ("legacy" if "Legacy" in st else ("bare" if "BareCtx" in st else "segwitv0"))
            if isinstance(v, X.Tok) and v.kind == "script":
                return ok(Adt(MS, "Miniscript", {"node": Term("parsed", v.name, want), "ty": Term("ty"), "ext": Term("ext"),
                                                "phantom": (), "src": v}))
            if isinstance(v, PyScript) and v.kind == "ms":
                return ok(Adt(MS, "Miniscript", {"node": Term("parsed", v.data.name, want), "ty": Term("ty"),
                                                "ext": Term("ext"), "phantom": (), "src": v.data}))
            return err(Term("DecodeError"))
        for p in F.fns:
            if p.endswith("::decode_consensus"):
                h[p] = decode_consensus
        for p in F.fns:
            if p.endswith("::encode") and "Miniscript" in p:
                h[p] = lambda m_, a, c: PyScript("ms", deref(a[0]).fields.get("src", Term("enc", deref(a[0]))))
        for p in F.fns:
            if p.endswith("::to_no_checks_ms"):
                h[p] = lambda m_, a, c: deref(a[0])
        h["bitcoin::taproot::ControlBlock::decode"] = \
            lambda m_, a, c: ok(deref(a[0])) if isinstance(deref(a[0]), X.Tok) and deref(a[0]).kind == "cb" \
            else err(Term("CbError"))
        h["bitcoin::secp256k1::Secp256k1::<bitcoin::secp256k1::VerifyOnly>::verification_only"] = lambda m_, a, c: Term("secp")
        h["bitcoin::secp256k1::context::alloc_only::<impl bitcoin::secp256k1::Secp256k1<bitcoin::secp256k1::VerifyOnly>>::verification_only"] = lambda m_, a, c: Term("secp")

        def verify_commitment(m_, a, c):
            cb, key_, scr = deref(a[0]), deref(a[2]), deref(a[3])
            sname = scr.data.name if isinstance(scr, PyScript) and isinstance(scr.data, X.Tok) else repr(scr)
            return cb.name == (key_.name, sname)
        h["bitcoin::taproot::ControlBlock::verify_taproot_commitment"] = verify_commitment

    def run(self, spk, ssig, wit):
        r = self.m.call_path(self.fn, [spk, PyVec(list(ssig)), PyVec(list(wit))])
        return r


def _keytok(v):
    if isinstance(v, Adt) and "inner" in v.fields:
        return v.fields["inner"]
    if isinstance(v, Adt) and "0" in v.fields:
        return _keytok(v.fields["0"])
    return v


INSTR = "bitcoin::script::Instruction"


def _instr_iter(v):
    from ..interp import PyIter
    out = []
    for e in v.items:
        if e == "OP_1":
            out.append(ok(Adt(INSTR, "Op", {"0": Adt("bitcoin::Opcode", "Opcode", {"code": 0x51})})))
        elif e == "OP_DUP":
            out.append(ok(Adt(INSTR, "Op", {"0": Adt("bitcoin::Opcode", "Opcode", {"code": 0x76})})))
        elif e == "NONMINIMAL":
            out.append(err(Term("NonMinimalPush")))
        elif isinstance(e, int) and e in (0, 1):
            out.append(ok(Adt(INSTR, "PushBytes", {"0": PyVec([]) if e == 0 else PyVec([1])})))
        else:
            out.append(ok(Adt(INSTR, "PushBytes", {"0": e})))
    return PyIter(out)


def _wit_iter(v):
    from ..interp import PyIter
    return PyIter(list(v.items))


def _as_bytes(v):
    if isinstance(v, PyScript) and v.kind == "slice":
        inner, lo, hi = v.data
        n = inner.bytes().length
        if inner.kind == "p2pk" and lo == 1 and hi == n - 1:
            return inner.data           # the pushed key
        if inner.kind == "p2tr" and lo == 2 and hi in (None, n):
            return inner.data           # the output key
        return X.Tok("junk", "slice:%r" % (v.data,), (hi if hi is not None else n) - lo)
    if isinstance(v, PyScript):
        return v.bytes() if v.kind != "ms" else v.data
    return v


def _script_index(m_, a, c):
    from ..builtins import deref
    spk, r = deref(a[0]), deref(a[1])
    return PyScript("slice", (spk, r.fields.get("start", 0), r.fields.get("end")))


def _tok_index(v, i):
    if isinstance(v.extra, tuple) and isinstance(i, int) and i < len(v.extra):
        return v.extra[i]
    if i == 0:
        return {"sig": 0x30, "key": 0x02, "cb": 0xc0, "annex": 0x50, "junk": 0x6a, "pre": 0x11, "zeros": 0,
                "script": 0x21, "scriptbytes": 0x76}.get(v.kind, 0x7f)
    raise Unsupported("byte %r of an opaque token" % (i,))


def redeem(ps):
    t = ps.bytes()
    if ps.kind == "p2wpkh":
        return X.Tok("scriptbytes", t.name, 22, True, (0, 20))
    if ps.kind == "p2wsh":
        return X.Tok("scriptbytes", t.name, 34, True, (0, 32))
    return t


def _patch_pyscript_bytes():
    def b(self):
        base = X.Tok("scriptbytes", repr(self), {"p2wpkh": 22, "p2wsh": 34, "p2pkh": 25, "p2sh": 23, "p2tr": 34,
                                              "p2pk": 35}.get(self.kind, 40))
        if self.kind == "p2wpkh":
            return X.Tok("scriptbytes", base.name, 22, True, (0, 20))
        if self.kind == "p2wsh":
            return X.Tok("scriptbytes", base.name, 34, True, (0, 32))
        return base
    PyScript.bytes = b


_patch_pyscript_bytes()

KA = X.key("A", "ecdsa")
KB = X.key("B", "ecdsa")
KU = X.Tok("key", "U", 65, True, "ecdsa-uncompressed")
XK = X.key("T", "schnorr")
SA = ms_script("pk(A)", "any")
SB = ms_script("pk(B)", "any")
CB_GOOD = X.Tok("cb", ("T", "pk(A)"), 33)
CB_BAD = X.Tok("cb", ("T", "pk(Z)"), 33)
ANNEX = X.Tok("annex", "a", 10)
SIG = X.sig("A")


def txdata_cases():
    """[(name, spk, ssig alphabet, witness alphabet)]"""
    RW = PyScript("p2wpkh", h160(KA)).bytes()
    RWB = PyScript("p2wpkh", h160(KB)).bytes()
    RS = PyScript("p2wsh", sha(SA)).bytes()
    common = [0, 1, SIG, X.JUNK]
    return [
        ("p2pk", PyScript("p2pk", KA), common + [KA], common + [KA]),
        ("p2pkh", PyScript("p2pkh", h160(KA)), common + [KA, KB, KU], common + [KA]),
        ("p2pkh-u", PyScript("p2pkh", h160(KU)), common + [KA, KU], common),
        ("p2wpkh", PyScript("p2wpkh", h160(KA)), common + [KA], common + [KA, KB, KU]),
        ("p2wpkh-u", PyScript("p2wpkh", h160(KU)), common, common + [KA, KU]),
        ("p2wsh", PyScript("p2wsh", sha(SA)), common + [SA], common + [SA, SB, KA]),
        ("p2sh-wpkh", PyScript("p2sh", h160(RW)), common + [RW, RWB, KA], common + [KA, KB, KU]),
        ("p2sh-wsh", PyScript("p2sh", h160(RS)), common + [RS, SA], common + [SA, SB]),
        ("p2sh", PyScript("p2sh", h160(SA)), common + [SA, SB, RW], common + [SA]),
        ("p2tr", PyScript("p2tr", XK), common + [SA], common + [SA, SB, CB_GOOD, CB_BAD, ANNEX]),
        ("bare", PyScript("ms", SA), common + [KA], common + [SA]),
        ("ssig-nonpush", PyScript("p2pkh", h160(KA)), [SIG, KA, "OP_DUP", "NONMINIMAL", "OP_1"], [0]),
    ]


def is_key(v, compressed_only=False):
    return isinstance(v, X.Tok) and v.kind == "key" and (v.extra == "ecdsa" or (v.extra == "ecdsa-uncompressed"
                                                                                 and not compressed_only))


def is_script(v):
    return isinstance(v, X.Tok) and v.kind == "script"


def expected(spk, ssig, wit):
    """BIP-16 / 141 / 143 / 341 as a function: -> None (invalid spend form) | (inner, kept stack, script code)"""
    if any(e in ("OP_DUP", "NONMINIMAL") for e in ssig):
        return None
    ssig = [1 if e == "OP_1" else e for e in ssig]
    k = spk.kind
    if k == "p2pk":
        return None if wit else (("Pk", spk.data), ssig, spk)
    if k == "p2pkh":
        if wit or not ssig or not is_key(ssig[-1]) or h160(ssig[-1]) != spk.data:
            return None
        return (("Pkh", ssig[-1]), ssig[:-1], spk)
    if k == "p2wpkh":
        if ssig or not wit or not is_key(wit[-1], True) or h160(wit[-1]) != spk.data:
            return None
        return (("Wpkh", wit[-1]), wit[:-1], PyScript("p2pkh", spk.data))
    if k == "p2wsh":
        if ssig or not wit or not is_script(wit[-1]) or sha(wit[-1]) != spk.data:
            return None
        return (("Wsh", wit[-1]), wit[:-1], PyScript("ms", wit[-1]))
    if k == "p2sh":
        if not ssig or not isinstance(ssig[-1], X.Tok) or h160(ssig[-1]) != spk.data:
            return None
        r = ssig[-1]
        if r.kind == "scriptbytes" and r.extra == (0, 20):
            if len(ssig) != 1 or not wit or not is_key(wit[-1], True):
                return None
            inner = PyScript("p2wpkh", h160(wit[-1]))
            if inner.bytes() != r:
                return None
            return (("ShWpkh", wit[-1]), wit[:-1], PyScript("p2pkh", h160(wit[-1])))
        if r.kind == "scriptbytes" and r.extra == (0, 32):
            if len(ssig) != 1 or not wit or not is_script(wit[-1]):
                return None
            if PyScript("p2wsh", sha(wit[-1])).bytes() != r:
                return None
            return (("ShWsh", wit[-1]), wit[:-1], PyScript("ms", wit[-1]))
        if not is_script(r) or wit:
            return None
        return (("Sh", r), ssig[:-1], PyScript("ms", r))
    if k == "p2tr":
        if ssig or not wit:
            return None
        if len(wit) >= 2 and isinstance(wit[-1], X.Tok) and wit[-1].kind == "annex":
            return None
        if len(wit) == 1:
            return (("Tr", spk.data), wit, None)
        cb, scr = wit[-1], wit[-2]
        if not (isinstance(cb, X.Tok) and cb.kind == "cb") or not is_script(scr):
            return None
        if cb.name != (spk.data.name, scr.name):
            return None
        return (("TrScript", scr), wit[:-2], PyScript("ms", scr))
    if k == "ms":
        return None if wit else (("Bare", spk.data), ssig, spk)
    return None


def lib_summary(r):
    """Result<(Inner, Stack, Option<ScriptBuf>)> -> comparable form"""
    if r.variant != "Ok":
        return None
    inner, stack, code = r.fields["0"]
    if inner.variant == "PublicKey":
        who = (inner.fields["1"].variant, _keytok(inner.fields["0"]))
    else:
        st = inner.fields["1"].variant
        who = ("TrScript" if st == "Tr" else st, inner.fields["0"].fields.get("src"))
    elems = []
    for e in stack.fields["0"].items:
        elems.append(0 if e.variant == "Dissatisfied" else (1 if e.variant == "Satisfied" else e.fields["0"]))
    c = code.fields["0"] if code.variant == "Some" else None
    return (who, elems, c)


def _tx_work(args):
    from .. import facts
    F = facts.load()
    name, spk, sa, wa, maxlen = args
    h = TxHarness(F)
    from .. import builtins
    recs = []
    n = 0
    try:
        for ls in range(0, maxlen + 1):
            for ssig in itertools.product(sa, repeat=ls):
                for lw in range(0, maxlen + 1):
                    for wit in itertools.product(wa, repeat=lw):
                        n += 1
                        wl = [PyVec([]) if e == 0 else (PyVec([1]) if e == 1 else e) for e in wit]
                        r = h.run(spk, list(ssig), wl)
                        got = lib_summary(r)
                        want = expected(spk, list(ssig), list(wit))
                        if got is None and want is None:
                            continue
                        if got is None or want is None or repr(got) != repr(want):
                            recs.append((list(ssig), list(wit), repr(got), repr(want), repr(r)[:160]))
    except Unsupported as e:
        return (name, "unsupported", str(e), n, recs)
    except Panic as e:
        return (name, "panic", str(e), n, recs)
    return (name, "done", "", n, recs)


def check_txdata(chk, F):
    R = "R13.4"
    chk.rule(R, "from_txdata, evaluated on every (scriptSig, witness) combination up to length 2 over an alphabet of "
                "right / wrong keys, redeem scripts, witness scripts, control blocks, annex, booleans and junk, for every "
                "output type: success exactly for the standard spend forms of BIP-16/141/341, with the right kept stack, "
                "inner kind and BIP-143 script code")
    chk.saw(F.fn("from_txdata", file="interpreter/inner.rs"))
    import multiprocessing as mp
    maxlen = 2 if chk.tier == "quick" else 3
    jobs = [(n, spk, sa, wa, maxlen) for (n, spk, sa, wa) in txdata_cases()]
    with mp.Pool(min(16, len(jobs))) as pool:
        results = pool.map(_tx_work, jobs, chunksize=1)
    total = 0
    for (name, status, msg, n, recs) in results:
        total += n
        if status == "unsupported":
            chk.fail(R, "unanalysable:" + name, "unanalysable: %s" % msg, kind="unanalysable")
            continue
        if status == "panic":
            chk.fail(R, "panic:" + name, "panic in from_txdata: %s" % msg, where="src/interpreter/inner.rs")
            continue
        if recs:
            ss, ww, got, want, raw = recs[0]
            chk.fail(R, name, "%d combination(s) differ from the standard; first: scriptSig=%r witness=%r library=%s "
                              "standard=%s" % (len(recs), ss, ww, got, want), where="src/interpreter/inner.rs",
                     detail=recs[:10])
        else:
            chk.ok(R)
    chk.extra["R13.4_combinations"] = total
    chk.floor(R, "combinations evaluated", total, 15000)


# ---- R13.5 signature-hash flavour per output type ---------------------------------------------------------------

INNER = "interpreter::inner::Inner"
PKT = "interpreter::inner::PubkeyType"
SCT = "interpreter::inner::ScriptType"
INTERP = "interpreter::Interpreter"
KSP = "interpreter::KeySigPair"

FLAVOUR = {  # BIP-143 / BIP-341: which signature-hash algorithm a spend of each output type commits to
    ("PublicKey", "Pk"): "legacy", ("PublicKey", "Pkh"): "legacy", ("Script", "Bare"): "legacy", ("Script", "Sh"): "legacy",
    ("PublicKey", "Wpkh"): "segwitv0", ("PublicKey", "ShWpkh"): "segwitv0", ("Script", "Wsh"): "segwitv0",
    ("Script", "ShWsh"): "segwitv0", ("PublicKey", "Tr"): "taproot-key", ("Script", "Tr"): "taproot-script",
}
HASHFN = {"legacy": "legacy_signature_hash", "segwitv0": "p2wsh_signature_hash",
          "taproot-key": "taproot_key_spend_signature_hash", "taproot-script": "taproot_script_spend_signature_hash"}


def term_calls(t, out):
    if isinstance(t, Term):
        if t.op == "call":
            out.append((str(t.args[0]), t.args[1:]))
        for a in t.args:
            term_calls(a, out)
    elif isinstance(t, Adt):
        for v in t.fields.values():
            term_calls(v, out)
    elif isinstance(t, (PyVec, tuple, list)):
        for v in (t.items if isinstance(t, PyVec) else t):
            term_calls(v, out)
    return out


def check_sighash_partition(chk, F):
    R = "R13.5"
    chk.rule(R, "for each of the 10 inner kinds: exactly one of is_legacy / is_segwit_v0 / is_taproot_v1_key_spend / "
                "is_taproot_v1_script_spend holds and it is the BIP-143/341 one; sig_type is Schnorr exactly for taproot; "
                "Interpreter::verify_sig feeds the signature check with that flavour's sighash over the stored script code, "
                "and refuses a signature of the other kind")
    preds = {"legacy": "is_legacy", "segwitv0": "is_segwit_v0", "taproot-key": "is_taproot_v1_key_spend",
             "taproot-script": "is_taproot_v1_script_spend"}
    paths = {k: F.fn(v, file="interpreter/mod.rs") for k, v in preds.items()}
    sigty = F.fn("sig_type", file="interpreter/mod.rs", container="Interpreter")
    vsig = F.fn("verify_sig", file="interpreter/mod.rs", container="Interpreter")
    chk.saw(sigty, vsig, *paths.values())
    m = Machine(F, strict=True)
    ms_ = Machine(F, strict=False, opaque_unknown=True)
    for (ik, sub), flavour in sorted(FLAVOUR.items()):
        key = "%s/%s" % (ik, sub)
        payload = Adt(BK, "Fullkey", {"0": Term("pk")}) if ik == "PublicKey" else ms(Term("node"))
        inner = Adt(INNER, ik, {"0": payload, "1": Adt(PKT if ik == "PublicKey" else SCT, sub, {})})
        # what from_txdata stores: the script code, except for a taproot key spend, which has none
        code = NONE if (ik, sub) == ("PublicKey", "Tr") else some(Term("script_code"))
        it = Adt(INTERP, "Interpreter", {"inner": inner, "stack": Term("stack"), "script_code": code,
                                         "sequence": Term("seq"), "lock_time": Term("lt")})
        got = {f: m.call_path(p, [it]) for f, p in paths.items()}
        want = {f: f == flavour for f in paths}
        chk.obligation(R, got == want, "class|" + key, "classification %r, BIP-143/341 says %s" % (got, flavour),
                       where="src/interpreter/mod.rs")
        st = m.call_path(sigty, [it])
        chk.obligation(R, st.variant == ("Schnorr" if flavour.startswith("taproot") else "Ecdsa"), "sig_type|" + key,
                       "sig_type %s for %s" % (st.variant, key), where="src/interpreter/mod.rs")
        for pair_kind in ("Ecdsa", "Schnorr"):
            sig = Adt(KSP, pair_kind, {"0": Term("key"), "1": Term("sig")})
            try:
                from ..interp import explore
                prevouts = Adt("bitcoin::sighash::Prevouts", "All", {"0": Term("prevouts")})
                res = explore(ms_, lambda: ms_.call_path(vsig, [it, Term("secp"), Term("tx"), Term("idx"),
                                                               prevouts, sig]), lambda t, taken: None)
            except Unsupported as e:
                chk.fail(R, "unanalysable:verify_sig|%s|%s" % (key, pair_kind), "unanalysable: %s" % e, where=e.where,
                         kind="unanalysable")
                continue
            except Panic as e:
                chk.fail(R, "refuse|%s|%s" % (key, pair_kind), "verify_sig panics on a %s signature for %s instead of refusing it: %s"
                         % (pair_kind, key, str(e)[:160]), where="src/interpreter/mod.rs")
                continue
            if any(isinstance(val, tuple) and val and val[0] == "panic" for _, val in res):
                chk.fail(R, "refuse|%s|%s" % (key, pair_kind), "verify_sig panics on a %s signature for %s instead of refusing it: %r"
                         % (pair_kind, key, [val for _, val in res if isinstance(val, tuple) and val and val[0] == "panic"][0]),
                         where="src/interpreter/mod.rs")
                continue
            used = set()
            only_false = True
            for conds, val in res:
                if val is False:
                    continue
                only_false = False
                calls = term_calls(val, [])
                for nm, args in calls:
                    for fl, fn in HASHFN.items():
                        if nm.endswith("::" + fn):
                            used.add((fl, any("script_code" in repr(a) for a in args)))
            compatible = (pair_kind == "Schnorr") == flavour.startswith("taproot")
            if not compatible:
                chk.obligation(R, only_false, "refuse|%s|%s" % (key, pair_kind),
                               "a %s signature is not refused outright for %s (hash used: %r)" % (pair_kind, key, used),
                               where="src/interpreter/mod.rs")
            else:
                needs_code = flavour != "taproot-key"
                chk.obligation(R, used == {(flavour, needs_code)}, "hash|%s|%s" % (key, pair_kind),
                               "signature check for %s uses %r, expected the %s sighash%s"
                               % (key, sorted(used), flavour, " over the script code" if needs_code else ""),
                               where="src/interpreter/mod.rs")


def check_pubkey_spend(chk, F):
    R = "R13.1p"
    chk.rule(R, "single-key spends (pk, pkh, wpkh, sh-wpkh, taproot key path): the iterator accepts exactly the stacks "
                "on which `<key> CHECKSIG` (resp. the taproot key-path rule) succeeds, for all stacks up to length 2")
    h = harness(F)
    tx = X.Tx()
    for ctx in ("segwitv0", "tap"):
        kk = X.keykind(ctx)
        alpha = [0, 1, X.sig("A", kk), X.sig("B", kk), X.sig("A", "schnorr" if kk == "ecdsa" else "ecdsa"), X.JUNK, X.key("A", kk)]
        bad = []
        n = 0
        for ln in range(0, 3):
            for w in itertools.product(alpha, repeat=ln):
                n += 1
                st, cons, detail = h.run(None, list(w), tx, ctx, public_key=bkey("A", ctx))
                if ctx == "tap":
                    ref = list(w) == [X.sig("A", kk)]
                    rlog = [("sig", "A")] if ref else []
                else:
                    ref, rlog, _ = X.execute([("push", X.key("A", kk)), ("op", "CHECKSIG")], list(w), tx, ctx)
                if st == "ok" and (not ref or sorted(map(repr, cons)) != sorted(map(repr, rlog))):
                    bad.append("stack %r accepted (constraints %r), reference: %s %r" % (list(w), cons, ref, rlog))
                if st != "ok" and list(w) == [X.sig("A", kk)]:
                    bad.append("the plain signature stack is rejected: %s" % detail)
        chk.obligation(R, not bad, ctx, "%d stack(s); first: %s" % (len(bad), bad[0] if bad else ""),
                       where="src/interpreter/mod.rs", detail=bad[:10])


# ---- R13.7 the interpreter's copy of the script ---------------------------------------------------------------------------

def check_to_no_checks(chk, F):
    from ..builtins import deref
    R = "R13.7"
    chk.rule(R, "the interpreter executes a copy of the script whose keys are wrapped, not changed: to_no_checks_ms translates "
                "every full key K to BitcoinKey::Fullkey(K), every x-only key to BitcoinKey::XOnlyPublicKey(K), and every hash to "
                "itself (through Miniscript::translate_pk_ctx, whose structure preservation C20 decides)")
    imps = [i for i in F.impls if (i["trait"] or "").endswith("ToNoChecks")]
    if len(imps) != 2:
        chk.fail(R, "anchor", "expected two impls of ToNoChecks, found %d" % len(imps), kind="unanalysable")
        return
    tp = F.fn("translate_pk_ctx", file="miniscript/mod.rs")
    n = 0
    for imp in imps:
        p = imp["items"][0]["path"]
        chk.saw(p)
        xonly = "XOnly" in (imp.get("self_ty") or "")
        seen = {}

        def hook(m_, a, c):
            t = a[1]
            out = {}
            for nm, arg in (("pk", "K"), ("sha256", "H1"), ("hash256", "H2"), ("ripemd160", "H3"), ("hash160", "H4")):
                out[nm] = m_.call_callee({"def": "Translator::" + nm, "name": nm, "trait": "Translator", "targs": []}, [t, arg])
            seen.update(out)
            return ok(Term("translated"))
        m = Machine(F, strict=True, hooks={tp: hook})
        try:
            m.call_callee({"def": p, "resolved": p, "name": "to_no_checks_ms", "targs": ["CTX"]}, [Term("ms")])
        except (Unsupported, Panic) as e:
            chk.fail(R, "unanalysable:" + p[-60:], "unanalysable: %s" % e, kind="unanalysable")
            continue
        n += 1
        k = seen.get("pk")
        kk = deref(k.fields["0"]) if isinstance(k, Adt) and k.variant == "Ok" else None
        want_variant = "XOnlyPublicKey" if xonly else "Fullkey"
        good = isinstance(kk, Adt) and kk.variant == want_variant and deref(kk.fields["0"]) == "K"
        chk.obligation(R, good, ("x-only" if xonly else "full") + "|pk", "a %s key K becomes %r, expected BitcoinKey::%s(K)"
                       % ("x-only" if xonly else "full", k, want_variant), F.fns[p]["span"])
        for nm, arg in (("sha256", "H1"), ("hash256", "H2"), ("ripemd160", "H3"), ("hash160", "H4")):
            r = seen.get(nm)
            good = isinstance(r, Adt) and r.variant == "Ok" and deref(r.fields["0"]) == arg
            chk.obligation(R, good, ("x-only" if xonly else "full") + "|" + nm, "hash %s becomes %r" % (arg, r), F.fns[p]["span"])
    chk.floor(R, "conversions", n, 2)


# ---- R13.8 the public glue around the iterator ------------------------------------------------------------------------------

def check_glue(chk, F):
    from ..builtins import deref, NOT_HANDLED
    R = "R13.8"
    chk.rule(R, "the public entry points put the iterator R13.1-R13.3 judge in the state those rules assume: "
                "Interpreter::from_txdata stores inner / stack / script code as inner::from_txdata returned them and the "
                "caller's sequence and lock time (each in its own field) and passes a refusal on; iter_custom starts with the "
                "spent key for key spends and the script at (0 evaluated, 0 satisfied) for script spends, a copy of the stack, "
                "the interpreter's sequence and lock time, no error, the spend's signature type and the caller's verifier; "
                "iter_assume_sigs accepts every signature; iter's verifier is verify_sig on the caller's transaction, input "
                "index and prevouts; inferred_descriptor_string names the output type the spend was recognised as")
    anchors = {}
    for nm in ("from_txdata", "iter_custom", "iter_assume_sigs", "iter", "inferred_descriptor_string", "verify_sig"):
        try:
            anchors[nm] = F.fn(nm, file="interpreter/mod.rs", container="Interpreter")
        except KeyError as e:
            chk.fail(R, "anchor|" + nm, "Interpreter::%s not found: %s" % (nm, e), kind="unanalysable")
            return
    inner_ft = F.fn("from_txdata", file="interpreter/inner.rs")
    chk.saw(*anchors.values())
    n = 0
    # from_txdata
    for outcome in ("ok", "err"):
        def hook(m_, a, c, outcome=outcome):
            if [deref(x) for x in a] != ["SPK", "SCRIPTSIG", "WITNESS"]:
                return err(Term("wrong-arguments", *a))
            return ok((Term("INNER"), Term("STACK"), Term("CODE"))) if outcome == "ok" else err(Term("REFUSED"))
        m = Machine(F, strict=True, hooks={inner_ft: hook})
        try:
            r = m.call_path(anchors["from_txdata"], ["SPK", "SCRIPTSIG", "WITNESS", Term("SEQ"), Term("LT")])
        except (Unsupported, Panic) as e:
            chk.fail(R, "unanalysable:from_txdata", "unanalysable: %s" % e, where=getattr(e, "where", ""), kind="unanalysable")
            continue
        n += 1
        if outcome == "err":
            chk.obligation(R, r.variant == "Err" and "REFUSED" in repr(r), "from_txdata|refusal", "a refusal of inner::from_txdata "
                           "becomes %r" % (r,), where="src/interpreter/mod.rs")
            continue
        got = {k: repr(v) for k, v in r.fields["0"].fields.items()} if r.variant == "Ok" else repr(r)
        want = {"inner": repr(Term("INNER")), "stack": repr(Term("STACK")), "script_code": repr(Term("CODE")),
                "sequence": repr(Term("SEQ")), "lock_time": repr(Term("LT"))}
        chk.obligation(R, got == want, "from_txdata|fields", "Interpreter built by from_txdata is %r, expected %r" % (got, want),
                       where="src/interpreter/mod.rs")
    # iter_custom / iter_assume_sigs / iter / inferred_descriptor_string
    names = {("PublicKey", "Pk"): "pk(KEY)", ("PublicKey", "Pkh"): "pkh(KEY)", ("PublicKey", "Wpkh"): "wpkh(KEY)",
             ("PublicKey", "ShWpkh"): "sh(wpkh(KEY))", ("PublicKey", "Tr"): None, ("Script", "Bare"): "MS", ("Script", "Sh"): "sh(MS)",
             ("Script", "Wsh"): "wsh(MS)", ("Script", "ShWsh"): "sh(wsh(MS))", ("Script", "Tr"): None}
    for (ik, sub), flavour in sorted(FLAVOUR.items()):
        key = "%s/%s" % (ik, sub)
        payload = "KEY" if ik == "PublicKey" else "MS"
        inner = Adt(INNER, ik, {"0": payload, "1": Adt(PKT if ik == "PublicKey" else SCT, sub, {})})
        stack = Adt(STACK, "Stack", {"0": PyVec(["e0", "e1"])})
        interp = Adt(INTERP, "Interpreter", {"inner": inner, "stack": stack, "script_code": some(Term("script_code")),
                                             "sequence": Term("SEQ"), "lock_time": Term("LT")})
        calls = []

        def vhook(m_, a, c):
            calls.append([repr(deref(x)) for x in a[1:]])
            return True
        m = Machine(F, strict=True, hooks={anchors["verify_sig"]: vhook})
        m.text_keys = True
        try:
            verifier = lambda pair: "VERDICT"      # noqa: E731
            it = m.call_path(anchors["iter_custom"], [interp, verifier])
            bad = []
            f = it.fields
            pk = deref(f["public_key"])
            if ik == "PublicKey":
                if not (pk.variant == "Some" and deref(pk.fields["0"]) == "KEY"):
                    bad.append("public_key %r" % (pk,))
                if len(deref(f["state"]).items) != 0:
                    bad.append("evaluation state %r for a key spend" % (f["state"],))
            else:
                if pk.variant != "None":
                    bad.append("public_key %r for a script spend" % (pk,))
                st = [deref(x) for x in deref(f["state"]).items]
                if not (len(st) == 1 and deref(st[0].fields["node"]) == "MS" and st[0].fields["n_evaluated"] == 0
                        and st[0].fields["n_satisfied"] == 0):
                    bad.append("evaluation state %r" % (st,))
            stv = deref(f["stack"])
            if [deref(x) for x in deref(stv.fields["0"]).items] != ["e0", "e1"]:
                bad.append("stack %r" % (stv,))
            if repr(f["sequence"]) != repr(Term("SEQ")) or repr(f["lock_time"]) != repr(Term("LT")):
                bad.append("sequence %r / lock time %r" % (f["sequence"], f["lock_time"]))
            if f["has_errored"] is not False:
                bad.append("has_errored %r" % (f["has_errored"],))
            if f["sig_type"].variant != ("Schnorr" if flavour.startswith("taproot") else "Ecdsa"):
                bad.append("sig_type %r" % (f["sig_type"],))
            v = f["verify_sig"]
            if m.call_value(v, [Term("pair")]) != "VERDICT":
                bad.append("the verifier is not the caller's")
            it2 = m.call_path(anchors["iter_assume_sigs"], [interp])
            if m.call_value(it2.fields["verify_sig"], [Term("pair")]) is not True:
                bad.append("iter_assume_sigs' verifier does not accept")
            it3 = m.call_path(anchors["iter"], [interp, Term("SECP"), Term("TX"), Term("IDX"), Term("PREVOUTS")])
            del calls[:]
            res = m.call_value(it3.fields["verify_sig"], [Term("pair")])
            if res is not True or calls != [[repr(Term("SECP")), repr(Term("TX")), repr(Term("IDX")), repr(Term("PREVOUTS")), repr(Term("pair"))]]:
                bad.append("iter's verifier calls verify_sig with %r" % (calls,))
            for other in (it2, it3):
                for fld in ("public_key", "state", "stack", "sequence", "lock_time", "has_errored", "sig_type"):
                    if repr(other.fields[fld]) != repr(f[fld]):
                        bad.append("iter / iter_assume_sigs differ from iter_custom in %s" % fld)
            text = m.call_path(anchors["inferred_descriptor_string"], [interp])
            if names[(ik, sub)] is not None and text != names[(ik, sub)]:
                bad.append("inferred descriptor %r, expected %r" % (text, names[(ik, sub)]))
            if names[(ik, sub)] is None and payload not in text:
                bad.append("inferred descriptor %r does not mention the %s" % (text, payload))
            n += 1
            chk.obligation(R, not bad, "iter|" + key, "; ".join(bad[:3]), where="src/interpreter/mod.rs")
        except (Unsupported, Panic) as e:
            chk.fail(R, "unanalysable:iter|" + key, "unanalysable: %s" % e, where=getattr(e, "where", ""), kind="unanalysable")
    chk.floor(R, "cases", n, 11)


# ---- R13.9 which script a stack element is --------------------------------------------------------------------------------------------

def check_script_from_elem(chk, F):
    from ..builtins import deref
    R = "R13.9"
    chk.rule(R, "the redeem / witness / leaf script the interpreter executes is decoded from the very bytes of the stack "
                "element that the output commits to: a pushed element from its bytes, the one-byte element 0x01 and the empty "
                "element (which the stack classifies as Satisfied / Dissatisfied) from the bytes 01 and nothing - never as the "
                "scripts OP_1 / OP_0, whose hashes are other commitments")
    try:
        fn = F.fn("script_from_stack_elem", file="interpreter/inner.rs")
    except KeyError as e:
        chk.fail(R, "anchor", "missing anchor %s" % e, kind="unanalysable")
        return
    chk.saw(fn)
    ELEM = "interpreter::stack::Element"
    n = 0
    for ctx in ("Legacy", "Segwitv0", "Tap", "BareCtx"):
        seen = []

        def dec(m_, a, c):
            v = deref(a[0])
            seen.append(list(v.items) if isinstance(v, PyVec) else v)
            return ok(Term("decoded", repr(seen[-1])))
        hooks = {"bitcoin::Script::from_bytes": lambda m_, a, c: deref(a[0])}
        for p_ in F.fns:
            if p_.endswith("::decode_consensus"):
                hooks[p_] = dec
        m = Machine(F, strict=True, hooks=hooks)
        ctxp = "miniscript::context::" + ctx
        for label, elem, want in (("push", Adt(ELEM, "Push", {"0": PyVec([0x51, 0xac])}), [0x51, 0xac]),
                                  ("0x01", Adt(ELEM, "Satisfied", {}), [1]), ("empty", Adt(ELEM, "Dissatisfied", {}), [])):
            del seen[:]
            try:
                r = m.call_callee({"def": fn, "resolved": fn, "name": "script_from_stack_elem", "targs": [ctxp]}, [elem])
                n += 1
                good = seen == [want] and isinstance(r, Adt) and r.variant == "Ok" and "decoded" in repr(r)
                chk.obligation(R, good, "%s|%s" % (ctx, label), "the element %s is turned into %s after decoding %r; expected the "
                               "decoding of the bytes %r" % (label, repr(r)[:100], seen, want), F.fns[fn]["span"])
            except Unsupported as e:
                chk.fail(R, "unanalysable:%s|%s" % (ctx, label), "unanalysable: %s" % e, where=e.where, kind="unanalysable")
            except Panic as e:
                chk.fail(R, "%s|%s" % (ctx, label), "panic: %s" % e, F.fns[fn]["span"])
    chk.floor(R, "cases", n, 12)


def run(chk):
    F = chk.facts()
    chk.explanation = __doc__
    chk.trusted = ["spec/msexec.py (reference Script execution, consensus rules), spec/script.py, spec/satisfaction.py",
                   "rust-bitcoin signature / key parsing and hashing modelled on abstract tokens",
                   "rustc THIR as dumped by factgen; msverif THIR evaluator"]
    if not ONLY or "1" in ONLY:
        chk.guard("R13.2", "iter", check_iter, chk, F)
    if not ONLY or "4" in ONLY:
        chk.guard("R13.4", "from_txdata", check_txdata, chk, F)
    if not ONLY or "5" in ONLY:
        chk.guard("R13.5", "sighash", check_sighash_partition, chk, F)
    if not ONLY or "p" in ONLY:
        chk.guard("R13.1p", "pubkey", check_pubkey_spend, chk, F)
    if not ONLY or "7" in ONLY:
        chk.guard("R13.7", "to-no-checks", check_to_no_checks, chk, F)
    if not ONLY or "8" in ONLY:
        chk.guard("R13.8", "glue", check_glue, chk, F)
        chk.guard("R13.9", "script-from-element", check_script_from_elem, chk, F)
