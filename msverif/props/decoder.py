"""Script decoder (lexer + decode state machine): shared by C04 (R04.4: decode . encode = id) and C11 (R11.6: no
panic on malformed instruction streams).

The script of a miniscript is produced by the specification's templates (spec/script.py through spec/msexec.script;
that the library's encoder emits these templates is C04 R04.1); pushes of keys and hashes are opaque byte tokens of
the right length.  The library's lexer and Miniscript::decode_with_validation_params are evaluated from their typed
syntax trees on the instruction list; rust-bitcoin's instruction iterator, read_scriptint and key / hash parsing are
modelled."""

import os
import sys

from ..interp import Machine, Adt, Term, PyVec, PyIter, Panic, ok, err, some, NONE
from ..report import Unsupported
from .. import model
from . import c13

X = c13.X
INSTR = "bitcoin::script::Instruction"
T = model.TERMINAL
MS = model.MS
CTXP = {"segwitv0": "miniscript::context::Segwitv0", "tap": "miniscript::context::Tap",
        "legacy": "miniscript::context::Legacy", "bare": "miniscript::context::BareCtx"}
KEYTY = {"segwitv0": "bitcoin::PublicKey", "tap": "bitcoin::secp256k1::XOnlyPublicKey"}

sys.path.insert(0, os.path.join(os.path.dirname(__file__), "..", "..", "spec"))
import script as S  # noqa: E402


def scriptint_bytes(n):
    """minimal CScriptNum encoding of n >= 0"""
    out = []
    while n:
        out.append(n & 0xff)
        n >>= 8
    if out and out[-1] & 0x80:
        out.append(0)
    return out


def read_scriptint(bs):
    """rust-bitcoin script::read_scriptint: <= 4 bytes, minimal encoding; -> ('ok', n) | ('err', why)"""
    if len(bs) > 4:
        return ("err", "NumericOverflow")
    if bs:
        if bs[-1] & 0x7f == 0:
            if len(bs) <= 1 or (bs[-2] & 0x80) == 0:
                return ("err", "NonMinimalPush")
    n = 0
    for i, b in enumerate(bs):
        n |= b << (8 * i)
    if bs and bs[-1] & 0x80:
        n &= ~(0x80 << (8 * (len(bs) - 1)))
        n = -n
    return ("ok", n)


def instructions(items):
    """spec script items -> instruction model values"""
    out = []
    for it in items:
        if it[0] == "op":
            out.append(("op", S.OP[it[1]]))
        else:
            v = it[1]
            if isinstance(v, int):
                if v == 0:
                    out.append(("op", 0x00))
                elif 1 <= v <= 16:
                    out.append(("op", 0x50 + v))
                else:
                    out.append(("push", PyVec(scriptint_bytes(v))))
            elif isinstance(v, tuple) and v[0] == "hash":
                ln = 20 if v[1] in ("HASH160", "RIPEMD160") else 32
                out.append(("push", X.Tok("hash", repr(v), ln, True, v)))
            else:
                out.append(("push", v))
    return out


def to_instr(i):
    if i[0] == "op":
        return ok(Adt(INSTR, "Op", {"0": Adt("bitcoin::Opcode", "Opcode", {"code": i[1]})}))
    if i[0] == "bad":
        return err(Term("ScriptError", i[1]))
    return ok(Adt(INSTR, "PushBytes", {"0": i[1]}))


class Script(object):
    def __init__(self, instrs):
        self.instrs = list(instrs)

    def byte_len(self):
        n = 0
        for i in self.instrs:
            if i[0] == "op":
                n += 1
            elif i[0] == "push":
                v = i[1]
                n += 1 + (len(v.items) if isinstance(v, PyVec) else v.length)
        return n


class Decoder(object):
    def __init__(self, F):
        self.F = F
        m = Machine(F, strict=True, max_depth=80)
        m.max_steps = 3_000_000
        self.m = m
        from ..builtins import deref
        h = m.hooks
        h["bitcoin::Script::len"] = lambda m_, a, c: deref(a[0]).byte_len()
        h["bitcoin::Script::instructions_minimal"] = lambda m_, a, c: PyIter([to_instr(i) for i in deref(a[0]).instrs])
        h["bitcoin::script::PushBytes::as_bytes"] = lambda m_, a, c: deref(a[0])
        h["bitcoin::script::PushBytes::to_owned"] = lambda m_, a, c: deref(a[0])

        def rsi(m_, a, c):
            v = deref(a[0])
            if isinstance(v, PyVec):
                r = read_scriptint(v.items)
                return ok(r[1]) if r[0] == "ok" else err(Term("ScriptIntError", r[1]))
            if hasattr(v, "length"):
                # opaque bytes of a length that is not 20/32/33/65: longer than 4 -> overflow
                return err(Term("ScriptIntError", "NumericOverflow")) if v.length > 4 else ok(Term("opaque_int"))
            raise Unsupported("read_scriptint(%r)" % (v,))
        h["bitcoin::script::read_scriptint"] = rsi

        def pk_from_slice(kind):
            def f(m_, a, c):
                v = deref(a[0])
                if isinstance(v, X.Tok) and v.kind == "key" and v.extra in kind:
                    if v.extra == "schnorr":
                        return ok(v)
                    return ok(Adt("bitcoin::PublicKey", "PublicKey", {"compressed": v.extra == "ecdsa", "inner": v}))
                return err(Term("KeyError"))
            return f
        h["bitcoin::PublicKey::from_slice"] = pk_from_slice(("ecdsa", "ecdsa-uncompressed"))
        h["bitcoin::XOnlyPublicKey::from_slice"] = pk_from_slice(("schnorr",))
        h["bitcoin::secp256k1::XOnlyPublicKey::from_slice"] = pk_from_slice(("schnorr",))
        self.ctx = "segwitv0"
        for n in (20, 32, 33, 65):
            h["<&'a [u8; %d] as bitcoin::hex_conservative::DisplayHex>::as_hex" % n] = lambda m_, a, c: deref(a[0])
        h["bitcoin::hex_conservative::DisplayHex::as_hex"] = lambda m_, a, c: deref(a[0])

        def parseable(m_, a, c):
            # `<Ctx as ScriptContext>::Key::from_slice`: the context's key type
            f = pk_from_slice(("schnorr",) if self.ctx == "tap" else ("ecdsa", "ecdsa-uncompressed"))
            r = f(m_, a, c)
            if r.variant == "Err":
                kerr = [x for x in F.adts if x.endswith("decode::KeyError")]
                return err(Adt(kerr[0], "XOnly" if self.ctx == "tap" else "Full", {"0": r.fields["0"]})) if kerr else r
            return r
        h["miniscript::decode::ParseableKey::from_slice"] = parseable
        for nm in ("bitcoin::hashes::Hash::from_byte_array", "bitcoin::bitcoin_hashes::Hash::from_byte_array",
                   "bitcoin::hashes::sha256::Hash::from_byte_array", "bitcoin::hashes::hash160::Hash::from_byte_array",
                   "bitcoin::hashes::ripemd160::Hash::from_byte_array", "bitcoin::hashes::sha256d::Hash::from_byte_array"):
            h[nm] = lambda m_, a, c: deref(a[0])
        self.fn = F.fn("decode_with_validation_params", file="miniscript/mod.rs")

    def decode(self, instrs, ctx, params="CONSENSUS"):
        F = self.F
        self.ctx = ctx
        ctxp = CTXP[ctx]
        const = "<%s as miniscript::context::ScriptContext>::%s" % (ctxp, params)
        from .. import constval
        pv = constval.parse(F.consts[const]["value"])
        return self.m.call_callee({"def": self.fn, "resolved": self.fn, "name": "decode_with_validation_params",
                                   "targs": [KEYTY[ctx], ctxp]}, [Script(instrs), pv])


def norm(v):
    """decoded model Miniscript -> spec AST (msexec.Node-like tuples)"""
    if isinstance(v, Adt) and v.path == MS:
        return norm(v.fields["node"])
    if isinstance(v, Adt) and v.path == T:
        x = v.variant
        f = v.fields
        if x in ("True", "False"):
            return (x,)
        if x in ("PkK", "PkH"):
            return (x, keyname(f["0"]))
        if x == "RawPkH":
            hv = f["0"]
            if isinstance(hv, X.Tok) and isinstance(hv.extra, tuple) and isinstance(hv.extra[2], X.Tok):
                return (x, hv.extra[2].name)
            return (x, repr(hv))
        if x in ("After", "Older"):
            lk = f["0"]
            n = lk.fields["0"] if isinstance(lk, Adt) else lk
            if isinstance(n, Adt):
                n = n.fields["0"]
            return (x, n)
        if x in ("Sha256", "Hash256", "Ripemd160", "Hash160"):
            hv = f["0"]
            return (x, hv.extra[2].name if isinstance(hv, X.Tok) and isinstance(hv.extra, tuple) else repr(hv))
        if x in ("Multi", "SortedMulti", "MultiA", "SortedMultiA"):
            th = f["0"]
            return (x, th.fields["k"], tuple(keyname(k) for k in th.fields["inner"].items))
        if x == "Thresh":
            th = f["0"]
            return (x, th.fields["k"], tuple(norm(c) for c in th.fields["inner"].items))
        return (x,) + tuple(norm(f[str(i)]) for i in range(len(f)))
    return ("?", repr(v))


def to_node(t):
    """norm tuple -> msexec.Node (None if not expressible)"""
    v = t[0]
    if v in ("True", "False"):
        return X.Node(v)
    if v in ("PkK", "PkH", "After", "Older", "Sha256", "Hash256", "Ripemd160", "Hash160"):
        return X.Node(v, data=t[1])
    if v == "RawPkH":
        return X.Node("PkH", data=t[1])        # same script: DUP HASH160 <hash of key> EQUALVERIFY
    if v in ("Multi", "SortedMulti", "MultiA", "SortedMultiA"):
        return X.Node(v, data=(t[1], list(t[2])))
    if v == "Thresh":
        kids = [to_node(c) for c in t[2]]
        return None if any(k is None for k in kids) else X.Node(v, kids, data=t[1])
    if v == "?":
        return None
    kids = [to_node(c) for c in t[1:]]
    return None if any(k is None for k in kids) else X.Node(v, kids)


def keyname(k):
    if isinstance(k, Adt) and "inner" in k.fields:
        k = k.fields["inner"]
    return k.name if isinstance(k, X.Tok) else repr(k)


def spec_norm(n, ctx):
    v = n.v
    if v in ("True", "False"):
        return (v,)
    if v in ("PkK", "PkH"):
        return (v, n.data)
    if v in ("After", "Older"):
        return (v, n.data)
    if v in ("Sha256", "Hash256", "Ripemd160", "Hash160"):
        return (v, n.data)
    if v in ("Multi", "SortedMulti", "MultiA", "SortedMultiA"):
        k, keys = n.data
        # a sorted multisig script is a plain multisig with the keys in sorted order: the decoder cannot know
        name = {"SortedMulti": "Multi", "SortedMultiA": "MultiA"}.get(v, v)
        ks = sorted(keys) if v.startswith("Sorted") else keys
        return (name, k, tuple(ks))
    if v == "Thresh":
        return (v, n.data, tuple(spec_norm(c, ctx) for c in n.kids))
    return (v,) + tuple(spec_norm(c, ctx) for c in n.kids)


EXTRA_SCRIPTS = [
    ("and_v(v:pk(A),and_v(v:pk(B),pk(C)))", "segwitv0"), ("or_i(or_i(pk(A),pk(B)),pk(C))", "segwitv0"),
    ("andor(pk(A),or_i(pk(B),pk(C)),pk(D))", "segwitv0"), ("c:or_i(pk_k(A),pk_h(B))", "segwitv0"),
    ("and_v(vc:pk_h(A),older(100000))", "segwitv0"), ("and_v(v:after(499999999),pk(A))", "segwitv0"),
    ("and_v(v:older(65535),pk(A))", "segwitv0"), ("and_v(v:older(17),pk(A))", "segwitv0"),
    ("and_v(v:older(128),pk(A))", "segwitv0"), ("and_v(v:older(32768),pk(A))", "segwitv0"),
    ("or_b(pk(A),a:or_b(pk(B),a:pk(C)))", "segwitv0"), ("and_b(sha256(H),a:hash256(G))", "segwitv0"),
    ("and_b(ripemd160(H),a:hash160(G))", "segwitv0"), ("thresh(3,pk(A),s:pk(B),s:pk(C),sln:older(12))", "segwitv0"),
    ("or_d(pk(A),or_d(pk(B),pk(C)))", "segwitv0"), ("t:or_c(pk(A),or_c(pk(B),v:pk(C)))", "segwitv0"),
    ("and_v(or_c(pk(A),v:pk(B)),pk(C))", "segwitv0"), ("andor(pk(A),pk(B),0)", "segwitv0"),
    ("or_i(0,or_i(pk(A),0))", "segwitv0"), ("and_v(v:and_v(v:pk(A),pk(B)),pk(C))", "segwitv0"),
    ("multi(1,A)", "segwitv0"), ("multi(3,A,B,C,D,E)", "segwitv0"), ("thresh(1,multi(1,A,B))", "segwitv0"),
    ("and_v(v:multi_a(1,A),pk(B))", "tap"), ("or_i(multi_a(2,A,B),pk(C))", "tap"), ("and_v(v:pkh(A),older(5))", "tap"),
]


def _keys(n):
    return ",".join("K%02d" % i for i in range(n))


# thresholds at and beyond the CHECKMULTISIG limit (20) and large CHECKSIGADD chains
BIG_SCRIPTS = [
    ("multi(20,%s)" % _keys(20), "segwitv0"), ("multi(1,%s)" % _keys(20), "segwitv0"),
    ("multi_a(21,%s)" % _keys(25), "tap"), ("multi_a(25,%s)" % _keys(25), "tap"), ("multi_a(1,%s)" % _keys(30), "tap"),
    ("and_v(v:multi_a(22,%s),older(144))" % _keys(30), "tap"),
]


def family():
    return list(c13.SCRIPTS) + EXTRA_SCRIPTS + BIG_SCRIPTS


def check_decoder(chk, F):
    """R04.4"""
    R = "R04.4"
    chk.rule(R, "decode . encode = id: for every script of the family (every fragment, both contexts, number pushes of "
                "every encoded width) the library's lexer + decoder, evaluated on the specification's Script for the "
                "miniscript, rebuild exactly that miniscript (sorted multisig decodes as the plain form with sorted keys)")
    D = Decoder(F)
    chk.saw(D.fn, F.fn("lex", file="miniscript/lex.rs"), F.fn("decode", file="miniscript/decode.rs"))
    n_ok = 0
    for text, ctx in family():
        key = "%s|%s" % (ctx, text)
        try:
            ast = X.parse(text)
            ins = instructions(X.script(ast, ctx))
            r = D.decode(ins, ctx)
            if not (isinstance(r, Adt) and r.variant == "Ok"):
                chk.fail(R, key, "the script of %s is not decoded: %s" % (text, repr(r)[:200]), where="src/miniscript/decode.rs")
                continue
            got, want = norm(r.fields["0"]), spec_norm(ast, ctx)
            if got != want:
                # different trees are fine when they are the same script (and_v is associative in Script, a key hash
                # cannot be inverted): compare the specification's scripts of both trees
                back = to_node(got)
                s1 = repr(instructions(X.script(back, ctx))) if back is not None else None
                if s1 != repr(ins):
                    chk.fail(R, key, "decoded as %r, whose script differs from the script of %r" % (got, want),
                             where="src/miniscript/decode.rs")
                    continue
            chk.ok(R)
            n_ok += 1
        except Unsupported as e:
            chk.fail(R, "unanalysable:" + key, "unanalysable: %s" % e, where=e.where, kind="unanalysable")
        except Panic as e:
            chk.fail(R, key, "panic while decoding a valid script: %s" % e, where="src/miniscript/decode.rs")
    chk.floor(R, "scripts round-tripped", n_ok, 70)


ALL_OPS = sorted(set(S.OP.values()) | {0x4f, 0x50, 0x61, 0x6a, 0x74, 0x7e, 0x8b, 0xa3, 0xb0, 0xbb, 0xff})


def malformed(ins):
    """single-instruction mutations of an instruction list"""
    out = []
    pushes = [("push", X.key("Z", "ecdsa")), ("push", X.key("Z", "schnorr")), ("push", X.Tok("hash", "z20", 20)),
              ("push", X.Tok("hash", "z32", 32)), ("push", X.Tok("key", "U", 65, True, "ecdsa-uncompressed")),
              ("push", PyVec([0x80])), ("push", PyVec([0x00])), ("push", PyVec([1, 0])), ("push", PyVec([255, 255, 255, 255, 0])),
              ("push", PyVec([17])), ("push", PyVec([])), ("push", X.Tok("junk", "j7", 7)), ("bad", "EarlyEndOfScript"),
              # large well-formed numbers: a count read from the script must be bounded before anything is sized by it
              ("push", PyVec([0xe8, 0x03])), ("push", PyVec([0x70, 0x11, 0x01])), ("push", PyVec([0xff, 0xff, 0xff, 0x7f]))]
    for i in range(len(ins) + 1):
        if i < len(ins):
            out.append(ins[:i] + ins[i + 1:])                  # delete
            out.append(ins[:i] + [ins[i], ins[i]] + ins[i + 1:])  # duplicate
            if i + 1 < len(ins):
                x = list(ins)
                x[i], x[i + 1] = x[i + 1], x[i]
                out.append(x)
        for op in (0x00, 0x51, 0x52, 0x60, 0x63, 0x64, 0x67, 0x68, 0x69, 0x76, 0x7c, 0x82, 0x87, 0x88, 0x92, 0x93, 0x9a,
                   0x9b, 0x9c, 0xac, 0xad, 0xae, 0xb1, 0xb2, 0xba, 0x6b, 0x6c, 0x73, 0xa9, 0xa8, 0x6a):
            out.append(ins[:i] + [("op", op)] + ins[i:])         # insert an opcode
            if i < len(ins):
                out.append(ins[:i] + [("op", op)] + ins[i + 1:])  # replace by an opcode
        for p in pushes:
            out.append(ins[:i] + [p] + ins[i:])
            if i < len(ins):
                out.append(ins[:i] + [p] + ins[i + 1:])
    # a fused *VERIFY opcode written as two opcodes (same execution, different bytes)
    for i, x in enumerate(ins):
        if x[0] == "op" and x[1] in (0x88, 0xad, 0xaf, 0x9d):
            out.append(ins[:i] + [("op", x[1] - 1), ("op", 0x69)] + ins[i + 1:])
    out.append([])
    return out


def _mal_work(args):
    from .. import facts
    F = facts.load()
    text, ctx, tier = args
    D = Decoder(F)
    ast = X.parse(text)
    ins = instructions(X.script(ast, ctx))
    out = []
    noncanon = []
    n = 0
    accepted = 0
    muts = malformed(ins)
    if tier == "quick":
        # always: deletions, duplications, swaps, VERIFY / 0 / 1 insertions and replacements, number pushes; the bulk of
        # arbitrary opcode / payload insertions is sampled
        base = repr(ins)

        def core(mi):
            if len(mi) <= len(ins) and all(x in ins for x in mi):
                return True
            new = [x for x in mi if x not in ins]
            if len(new) == 2 and new[1] == ("op", 0x69):
                return True
            return all((x[0] == "op" and x[1] in (0x69, 0x00, 0x51)) or (x[0] == "push" and isinstance(x[1], PyVec)) for x in new)
        keep = [mi for mi in muts if core(mi)]
        rest = [mi for mi in muts if not core(mi)]
        muts = keep + rest[::4]
    for mi in muts:
        try:
            n += 1
            r = D.decode(mi, ctx)
            if isinstance(r, Adt) and r.variant == "Ok":
                accepted += 1
                back = to_node(norm(r.fields["0"]))
                if back is None:
                    noncanon.append((text, repr(mi)[:300], "accepted as %r, which has no specification script" % (norm(r.fields["0"]),)))
                else:
                    lens = dict((i[1].name, i[1].length) for i in mi if i[0] == "push" and isinstance(i[1], X.Tok) and i[1].kind == "key")
                    re_enc = shape(instructions(X.script(back, ctx)), lens)
                    if re_enc != shape(mi):
                        noncanon.append((text, repr(mi)[:300], "accepted as %r whose script is %s" % (norm(r.fields["0"]), repr(re_enc)[:300])))
        except Panic as e:
            out.append((text, repr(mi)[:300], str(e)))
        except Unsupported as e:
            return text, n, out, str(e), accepted, noncanon
        except RecursionError:
            out.append((text, repr(mi)[:300], "evaluator recursion limit"))
    return text, n, out, None, accepted, noncanon


NONCANON = {}
_MUT = {}


def mutation_results(tier):
    import multiprocessing as mp
    if tier not in _MUT:
        jobs = [(t, c, tier) for (t, c) in family() if tier != "quick" or (t, c) not in BIG_SCRIPTS[2:]]
        with mp.Pool(min(16, os.cpu_count() or 4)) as pool:
            _MUT[tier] = pool.map(_mal_work, jobs, chunksize=1)
    return _MUT[tier]


def check_decoder_canonical(chk, F, R="R04.5"):
    chk.rule(R, "the decoder never accepts a script that is not the canonical encoding of the miniscript it returns: every "
                "single-instruction mutation (deletion, duplication, swap, opcode / push insertion and replacement incl. "
                "non-minimal and zero numbers) of every family script that decodes successfully re-encodes, by the "
                "specification's templates, to the very same instruction stream")
    results = mutation_results(chk.tier)
    accepted = 0
    for text, n, out, unsup, acc, noncanon in results:
        accepted += acc
        if unsup:
            chk.fail(R, "unanalysable:" + text, "unanalysable: %s" % unsup, kind="unanalysable")
        elif noncanon:
            chk.fail(R, text, "%d accepted mutant(s) are not canonical; first: %s %s" % (len(noncanon), noncanon[0][1], noncanon[0][2]),
                     where="src/miniscript/decode.rs", detail=noncanon[:8])
        else:
            chk.ok(R)
    chk.extra[R + "_accepted_mutants"] = accepted
    chk.floor(R, "accepted mutants re-encoded", accepted, 300)


def shape(ins, key_lens=None):
    """an instruction list up to the identity of opaque payloads: opcodes, number pushes byte for byte, other pushes by
    their length (payload bytes are copied by the decoder and the encoder, only their position and size matter here);
    the empty push is OP_0"""
    out = []
    for i in ins:
        if i[0] == "op":
            out.append(("op", i[1]))
        elif i[0] == "push":
            v = i[1]
            if isinstance(v, PyVec):
                out.append(("op", 0) if not v.items else ("num", tuple(v.items)))
            elif key_lens and getattr(v, "kind", None) == "key" and v.name in key_lens:
                out.append(("push", key_lens[v.name]))   # the key as it was pushed (the normal form keeps only its name)
            else:
                out.append(("push", v.length))
        else:
            out.append(i)
    return out


def check_decoder_panics(chk, F, R="R11.6"):
    import multiprocessing as mp
    chk.rule(R, "the lexer and the script decoder do not panic on malformed instruction streams: every single deletion, "
                "duplication, neighbour swap, opcode insertion / replacement and push insertion / replacement (keys of "
                "the wrong kind, hashes, non-minimal / negative / oversized numbers, truncated script) of the script of "
                "every miniscript of the family, plus every one- and two-instruction script over all opcodes")
    results = mutation_results(chk.tier)
    total = 0
    for text, n, out, unsup, accepted, noncanon in results:
        total += n
        NONCANON.setdefault("all", []).extend(noncanon)
        NONCANON["accepted"] = NONCANON.get("accepted", 0) + accepted
        if unsup:
            chk.fail(R, "unanalysable:" + text, "unanalysable: %s" % unsup, kind="unanalysable")
        elif out:
            chk.fail(R, text, "%d instruction stream(s) panic; first: %s: %s" % (len(out), out[0][1], out[0][2]),
                     where="src/miniscript/decode.rs", detail=out[:10])
        else:
            chk.ok(R)
    # tiny scripts over every opcode
    D = Decoder(F)
    bad = []
    n = 0
    for ctx in ("segwitv0", "tap"):
        tiny = [[("op", a)] + ([("op", b)] if b is not None else []) for a in ALL_OPS for b in [None] + ALL_OPS[:40]]
        # a number (small, just over the key limits, huge) followed by any opcode
        for num in ([2], [0xe8, 0x03], [0x70, 0x11, 0x01], [0xff, 0xff, 0xff, 0x7f]):
            tiny += [[("push", PyVec(list(num))), ("op", b)] for b in ALL_OPS]
        for _one in (0,):
            for ins in tiny:
                try:
                    n += 1
                    D.decode(ins, ctx)
                except Panic as e:
                    bad.append((repr(ins), str(e)))
                except Unsupported as e:
                    chk.fail(R, "unanalysable:tiny", "unanalysable: %s on %r" % (e, ins), kind="unanalysable")
                    break
    chk.obligation(R, not bad, "tiny-scripts", "%d tiny script(s) panic; first %r" % (len(bad), bad[:1]),
                   where="src/miniscript/decode.rs", detail=bad[:10])
    chk.extra[R + "_streams"] = total + n
    chk.floor(R, "instruction streams evaluated", total + n, 5000)
