def check_decoder(chk, F):
    pass
