"""C16 -- descriptors map to the standard output scripts, addresses and derived keys.

Structural clauses (DESIGN.md C16): the per-type output table is the standard one and its siblings agree;
sorted-multisig sites sort before interpreting keys; Descriptor dispatch is uniform."""

import os
import sys

from .. import symx, model, scriptmodel, satmodel
from ..interp import Term, Adt
from ..report import Unsupported
from . import assembly

LEVEL = "other"
DESC = "descriptor::Descriptor"
SHI = "descriptor::sh::ShInner"


def check_sorted_pairing(chk, F):
    rid = "R16.2"
    chk.rule(rid, "sorted multisig: every site that interprets the keys of SortedMulti / SortedMultiA for script "
                  "meaning (encode, sat_dissat) sorts them first with the matching BIP67 routine (full keys for "
                  "CHECKMULTISIG, x-only keys for CHECKSIGADD); plain multi keeps the listed order")
    try:
        P = scriptmodel.paths(F)
        SP = satmodel.paths(F)
    except KeyError as e:
        chk.fail(rid, "anchors", "missing %s" % e, kind="unanalysable")
        return
    want = {"Multi": "plain", "SortedMulti": "sorted67", "MultiA": "plain", "SortedMultiA": "sorted67x"}
    for v, kind in want.items():
        try:
            res, m = scriptmodel.run_encode(F, v, n=3, P=P)
            toks = [scriptmodel.nf_tokens(r) for c, r in res if not (isinstance(r, tuple) and r and r[0] == "panic")]
            keys = [t[2] for t in toks[0] if t[0] == "key"]
            chk.obligation(rid, [k[0] for k in keys] == [kind] * 3 and [k[1] for k in keys] == [0, 1, 2],
                           "encode|" + v, "encode(%s) pushes keys %r; expected the 3 keys in %s order" % (v, keys, kind),
                           F.fns[P["encode"]]["span"])
            ser = set(t[1] for t in toks[0] if t[0] == "key")
            chk.obligation(rid, ser == ({"key_full"} if v in ("Multi", "SortedMulti") else {"key_ctx"}), "encode|%s|ser" % v,
                           "encode(%s) serialises keys as %s" % (v, sorted(ser)), F.fns[P["encode"]]["span"])
        except (Unsupported, IndexError) as e:
            chk.fail(rid, "encode|%s|unanalysable" % v, "unanalysable: %s" % e, kind="unanalysable")
        try:
            res, m = satmodel.run_variant(F, v, False, n=3, k=3, P=SP)
            good = False
            for conds, r in res:
                if isinstance(r, tuple):
                    continue
                s = satmodel.nf_sat(r.fields["sat"])
                names = [a[1] for a in s if isinstance(a, tuple) and a[0] == "sig"]
                pref = {"plain": "K", "sorted67": "sorted67:K", "sorted67x": "sorted67x:K"}[kind]
                good = len(names) == 3 and all(nm.startswith(pref) for nm in names)
                chk.obligation(rid, good, "sat_dissat|" + v,
                               "sat_dissat(%s) asks signatures for keys %r; expected %s keys" % (v, names, kind),
                               F.fns[SP["sat_dissat"]]["span"])
        except Unsupported as e:
            chk.fail(rid, "sat_dissat|%s|unanalysable" % v, "unanalysable: %s" % e, kind="unanalysable")
    # push_ms_key: full key for ECDSA contexts, x-only serialisation for Schnorr
    for p in P["push_ms_key"]:
        body = F.thir(p)["body"]
        ms_ = symx.find_matches_on(body, "miniscript::context::SigType", min_arms=2)
        good = False
        if ms_:
            table = {}
            for a in ms_[0]["arms"]:
                vs = symx.pat_variants(a["pat"]) or set()
                calls = [c["callee"].get("name") for c in symx.find_nodes(a["body"], lambda n: n.get("k") == "call" and "callee" in n)]
                for v in vs:
                    table[v] = calls
            good = "push_key" in table.get("Ecdsa", []) and "to_x_only_pubkey" in table.get("Schnorr", []) \
                and "push_key" not in table.get("Schnorr", [])
        chk.obligation(rid, good, "push_ms_key", "push_ms_key must push the full key under Ecdsa and the x-only "
                       "serialisation under Schnorr", F.fns[p]["span"])


def check_dispatch(chk, F):
    rid = "R16.3"
    chk.rule(rid, "dispatch uniformity: in every method of Descriptor (and Sh over ShInner) that matches on the "
                  "variant, each arm calls the same-named method of the wrapped type (reasoned exceptions listed)")
    EXC = {
        # (method, variant): what the arm may call instead, reason
        ("explicit_script", "Bare"): ("script_pubkey", "the explicit script of bare/pkh/wpkh is the scriptPubKey"),
        ("explicit_script", "Pkh"): ("script_pubkey", "idem"),
        ("explicit_script", "Wpkh"): ("script_pubkey", "idem"),
        ("explicit_script", "Wsh"): ("inner_script", "witness script"),
        ("explicit_script", "Sh"): ("inner_script", "redeem / witness script"),
        ("script_code", "*"): ("ecdsa_sighash_script_code", "renamed accessor"),
        ("into_plan", "*"): ("plan_satisfaction", "plan variant of the satisfier"),
        ("into_plan_mall", "*"): ("plan_satisfaction_mall", "plan variant of the satisfier"),
    }
    n = 0
    for p, f in sorted(F.fns.items()):
        if f.get("kind") == "Closure" or not f["span"].startswith("src/descriptor/mod.rs"):
            continue
        cont = f.get("container") or ""
        if DESC + "<" not in cont and not cont.startswith(DESC):
            continue
        if "::tests::" in p:
            continue
        name = f.get("name")
        body = F.thir(p)["body"]
        ms_ = symx.find_matches_on(body, DESC, min_arms=5)
        if not ms_ or f.get("derived") or name in ("desc_type", "fmt", "from_tree", "sanity_check", "iter_pk", "clone",
                                                     "eq", "cmp", "partial_cmp", "hash"):
            continue
        n += 1
        chk.saw(p)
        for a in ms_[0]["arms"]:
            vs = symx.pat_variants(a["pat"], DESC) or set()
            calls = [c["callee"].get("name") for c in symx.find_nodes(a["body"], lambda x: x.get("k") == "call" and "callee" in x)]
            calls = [c for c in calls if c not in ("branch", "from_residual", "into", "from", "map_err", "map", "new", "clone", "Ok", "Err")]
            for v in vs:
                exp = EXC.get((name, v), EXC.get((name, "*"), (name, "")))[0]
                if not calls:
                    # constant arms (e.g. `Err(BareDescriptorAddr)`, `ScriptBuf::new()`): allowed for these cells
                    const_ok = (name, v) in (("address", "Bare"), ("unsigned_script_sig", "Bare"), ("unsigned_script_sig", "Pkh"),
                                             ("unsigned_script_sig", "Wpkh"), ("unsigned_script_sig", "Wsh"),
                                             ("unsigned_script_sig", "Tr"), ("explicit_script", "Tr"), ("script_code", "Tr"))
                    chk.obligation(rid, const_ok, "%s|%s" % (name, v),
                                   "Descriptor::%s arm for %s calls nothing on the wrapped value" % (name, v), a.get("sp", ""))
                else:
                    chk.obligation(rid, exp in calls or name in calls, "%s|%s" % (name, v),
                                   "Descriptor::%s arm for %s calls %s; expected the wrapped type's `%s`" % (name, v, calls, exp),
                                   a.get("sp", ""))
    chk.floor(rid, "Descriptor dispatch methods", n, 12)


def check_derive_key(chk, F):
    rid = "R16.4"
    chk.rule(rid, "DefiniteDescriptorKey::derive_public_key: a single full key is returned unchanged, an x-only key "
                  "through to_public_key, an extended key is derived along its own path (table over the key variants)")
    try:
        p = [x for x in F.fn("derive_public_key", file="descriptor/key.rs", allow_many=True)
             if "DefiniteDescriptorKey" in x][0]
    except (KeyError, IndexError) as e:
        chk.fail(rid, "anchor", "missing %s" % e, kind="unanalysable")
        return
    chk.saw(p)
    from ..interp import Machine, Adt, explore
    DPK = "descriptor::key::DescriptorPublicKey"
    SPK = "descriptor::key::SinglePubKey"
    where = F.fns[p]["span"]

    def single(kind):
        return Adt("descriptor::key::DefiniteDescriptorKey", "DefiniteDescriptorKey", {"0": Adt(DPK, "Single", {"0": Adt(
            "descriptor::key::SinglePub", "SinglePub", {"origin": Term("origin"), "key": Adt(SPK, kind, {"0": Term("thekey")})})})})
    for kind, want in (("FullKey", "identity"),):
        m = Machine(F, strict=False)
        try:
            res = explore(m, lambda: m.call_path(p, [single(kind), Term("secp")]))
        except Unsupported as e:
            chk.fail(rid, kind + "|unanalysable", "unanalysable: %s" % e, where, kind="unanalysable")
            continue
        vals = [r for c, r in res if not (isinstance(r, tuple) and r and r[0] == "panic")]
        if want == "identity":
            good = vals == [Term("thekey")]
        else:
            good = len(vals) == 1 and isinstance(vals[0], Term) and "to_public_key" in repr(vals[0]) and "thekey" in repr(vals[0])
        chk.obligation(rid, good, kind, "derive_public_key of a single %s key returns %r (expected %s of the key)"
                       % (kind, vals, want), where)
    xp = Adt("descriptor::key::DefiniteDescriptorKey", "DefiniteDescriptorKey", {"0": Adt(DPK, "XPub", {"0": Adt(
        "descriptor::key::DescriptorXKey", "DescriptorXKey", {"origin": Term("origin"), "xkey": Term("xkey"),
                                                               "derivation_path": Term("path"),
                                                               "wildcard": Adt("descriptor::key::Wildcard", "None")})})})
    m = Machine(F, strict=False)
    try:
        res = explore(m, lambda: m.call_path(p, [xp, Term("secp")]))
        vals = [r for c, r in res if not (isinstance(r, tuple) and r and r[0] == "panic")]
        txt = " ".join(repr(v) for v in vals)
        chk.obligation(rid, len(vals) >= 1 and "derive_pub" in txt and "xkey" in txt and "path" in txt, "XPub",
                       "derive_public_key of an extended key returns %r (expected derive_pub(xkey, path).public_key)" % (vals,), where)
    except Unsupported as e:
        chk.fail(rid, "XPub|unanalysable", "unanalysable: %s" % e, where, kind="unanalysable")


# ---- R16.5 key-level derivation, multipath split and full paths ----------------------------------------------------

def spec_key(text):
    """independent reading of a BIP-380 key expression -> dict(origin, base, kind, paths, wildcard)"""
    origin = None
    rest = text
    if rest.startswith("["):
        o, rest = rest[1:].split("]", 1)
        parts = o.split("/")
        origin = (parts[0].lower(), [spec_step(x) for x in parts[1:]])
    parts = rest.split("/")
    base, steps = parts[0], parts[1:]
    wildcard = "None"
    if steps and steps[-1] in ("*", "*h", "*'"):
        wildcard = "Unhardened" if steps[-1] == "*" else "Hardened"
        steps = steps[:-1]
    paths = [[]]
    for st in steps:
        if st.startswith("<"):
            alts = st[1:-1].split(";")
            paths = [p + [spec_step(a)] for a in alts for p in paths] if len(paths) == 1 else None
        else:
            paths = [p + [spec_step(st)] for p in paths]
    kind = "x" if base.startswith(("xpub", "tpub")) else "single"
    return {"origin": origin, "base": base, "kind": kind, "paths": paths, "wildcard": wildcard}


def spec_step(x):
    hard = x.endswith(("'", "h"))
    return ("Hardened" if hard else "Normal", int(x[:-1] if hard else x))


def derivation_hooks(m):
    """rust-bitcoin BIP-32 path operations on the structural model of c10.key_machine; child derivation itself is a
    term constructor ("derived", xkey, path)"""
    from . import c10
    from ..interp import Adt, PyVec, ok, err
    from ..builtins import deref
    CHILD = c10.CHILD
    h = m.hooks

    def child(kind):
        def f(m_, a, c):
            i = deref(a[0])
            return ok(Adt(CHILD, kind, {"index": i})) if 0 <= i < 2 ** 31 else err(Term("InvalidChildNumber", i))
        return f
    h["bitcoin::bip32::ChildNumber::from_normal_idx"] = child("Normal")
    h["bitcoin::bip32::ChildNumber::from_hardened_idx"] = child("Hardened")
    h["bitcoin::bip32::ChildNumber::is_hardened"] = lambda m_, a, c: deref(a[0]).variant == "Hardened"
    h["bitcoin::bip32::ChildNumber::is_normal"] = lambda m_, a, c: deref(a[0]).variant == "Normal"
    h["bitcoin::bip32::DerivationPath::into_child"] = lambda m_, a, c: PyVec(list(deref(a[0]).items) + [deref(a[1])])
    h["bitcoin::bip32::DerivationPath::child"] = h["bitcoin::bip32::DerivationPath::into_child"]
    h["bitcoin::bip32::DerivationPath::extend"] = lambda m_, a, c: PyVec(list(deref(a[0]).items) + list(deref(a[1]).items))
    h["<bitcoin::bip32::DerivationPath as std::convert::From<std::vec::Vec<bitcoin::bip32::ChildNumber>>>::from"] = \
        lambda m_, a, c: PyVec(list(deref(a[0]).items))
    h["<bitcoin::bip32::DerivationPath as std::convert::AsRef<[bitcoin::bip32::ChildNumber]>>::as_ref"] = lambda m_, a, c: deref(a[0])
    from .. import builtins as _B

    def into_path(m_, a, c):
        v = deref(a[0])
        tg = " ".join(c.get("targs") or [])
        if isinstance(v, PyVec) and "DerivationPath" in tg:
            return PyVec(list(v.items))
        return _B.NOT_HANDLED
    h["<T as std::convert::Into<U>>::into"] = into_path
    h["bitcoin::bip32::Xpriv::derive_priv"] = lambda m_, a, c: ok(("xprv-derived", deref(a[0]), tuple((x.variant, x.fields["index"]) for x in deref(a[2]).items)))
    h["bitcoin::bip32::Xpub::from_priv"] = lambda m_, a, c: ("xkey", ("pub-of", deref(a[1])))
    h["bitcoin::bip32::Xpriv::fingerprint"] = lambda m_, a, c: ("fingerprint-of", deref(a[0]))
    h["bitcoin::bip32::Xpub::derive_pub"] = lambda m_, a, c: ok(Adt("bitcoin::bip32::Xpub", "Xpub", {
        "public_key": ("derived", deref(a[0]), tuple((x.variant, x.fields["index"]) for x in deref(a[2]).items))}))
    h["bitcoin::PublicKey::new"] = lambda m_, a, c: Adt("bitcoin::PublicKey", "PublicKey", {"compressed": True, "inner": deref(a[0])})
    h["bitcoin::bip32::Xpub::fingerprint"] = lambda m_, a, c: ("fingerprint-of", deref(a[0]))
    h["miniscript::ToPublicKey::to_public_key"] = lambda m_, a, c: ("even-y", deref(a[0]))

    return m


def check_key_derivation(chk, F):
    from . import c10
    from ..interp import Machine, Adt, PyVec, Panic, ok, err, some, NONE
    from ..builtins import deref
    rid = "R16.5"
    chk.rule(rid, "descriptor keys, over single / x-only / extended keys with every combination of origin, path, multipath "
                  "step and wildcard: at_derivation_index(i) appends exactly the child i that the wildcard names (normal "
                  "for /*, hardened for /*h, refused when i >= 2^31), leaves other keys alone, refuses multipath keys and "
                  "every result with a hardened step (an xpub cannot derive it); into_single_keys yields one key per "
                  "alternative, in order, with the same origin / xkey / wildcard; full_derivation_path(s) = origin path + "
                  "path; derive_public_key derives the xkey along exactly that path; derivation_path(s) are the path(s) "
                  "without the origin; the text is a DefiniteDescriptorKey exactly when nothing is left to choose (no wildcard, "
                  "no multipath step, no hardened step), and the wrapper's accessors / conversions return the wrapped key and "
                  "its full paths")
    DPK = c10.DPK
    CHILD = c10.CHILD
    fs = [it["path"] for i in F.impls if i["trait"] == "std::str::FromStr" and i["self_adt"] == DPK
          for it in i["items"] if it["name"] == "from_str"]
    names = {}
    for nm in ("at_derivation_index", "into_single_keys", "full_derivation_path", "full_derivation_paths", "master_fingerprint"):
        cands = [x for x in F.fn(nm, file="descriptor/key.rs", allow_many=True) if "DescriptorPublicKey" in x and "Definite" not in x
                 and "{closure" not in x]
        if len(cands) != 1:
            chk.fail(rid, "anchor|" + nm, "DescriptorPublicKey::%s not found (%r)" % (nm, cands), kind="unanalysable")
            return
        names[nm] = cands[0]
    dpk = [x for x in F.fn("derive_public_key", file="descriptor/key.rs", allow_many=True) if "DefiniteDescriptorKey" in x][0]
    chk.saw(fs[0], dpk, *names.values())
    extra = {}
    DDK = "descriptor::key::DefiniteDescriptorKey"
    try:
        for nm in ("derivation_path", "derivation_paths"):
            extra[nm] = [x for x in F.fn(nm, file="descriptor/key.rs", allow_many=True) if "DescriptorPublicKey" in x and "Definite" not in x
                         and "{closure" not in x][0]
        extra["definite_from_str"] = [it["path"] for i in F.impls if i["trait"] == "std::str::FromStr" and i["self_adt"] == DDK
                                      for it in i["items"] if it["name"] == "from_str"][0]
        for nm, fnm in (("as_descriptor_public_key", "as_descriptor_public_key"), ("into_descriptor_public_key", "into_descriptor_public_key"),
                        ("definite_full_paths", "full_derivation_paths"), ("definite_full_path", "full_derivation_path")):
            extra[nm] = [x for x in F.fn(fnm, file="descriptor/key.rs", allow_many=True) if "DefiniteDescriptorKey" in x and "{closure" not in x][0]
        extra["from_definite"] = [it["path"] for i in F.impls if i["self_adt"] == DPK and (i["trait"] or "").startswith("std::convert::From")
                                  and "DefiniteDescriptorKey" in (i.get("trait_str") or i["trait"]) for it in i["items"] if it["name"] == "from"][0]
    except (IndexError, KeyError) as e:
        chk.fail(rid, "anchor|definite", "DefiniteDescriptorKey entry points / derivation_path(s) not found: %r" % (e,), kind="unanalysable")
        return
    chk.saw(*extra.values())
    m = c10.key_machine(F)
    h = m.hooks

    derivation_hooks(m)

    def steps(v):
        return [(x.variant, x.fields["index"]) for x in deref(v).items]

    def view(k):
        """(variant, origin, xkey-or-key, [paths], wildcard) of a DescriptorPublicKey value"""
        k = deref(k)
        inner = k.fields["0"]
        o = inner.fields["origin"]
        origin = None if o.variant == "None" else ("".join("%02x" % b for b in deref(o.fields["0"][0]).items), steps(o.fields["0"][1]))
        if k.variant == "Single":
            return ("Single", origin, repr(inner.fields["key"]), [[]], "None")
        if k.variant == "XPub":
            return ("XPub", origin, inner.fields["xkey"][1], [steps(inner.fields["derivation_path"])], inner.fields["wildcard"].variant)
        dp = inner.fields["derivation_paths"]
        ps = dp.fields["0"] if "0" in dp.fields else list(dp.fields.values())[0]
        return ("MultiXPub", origin, inner.fields["xkey"][1], [steps(p) for p in deref(ps).items], inner.fields["wildcard"].variant)
    n_ok = 0
    texts = c10.key_texts() + c10.key_noncanonical()
    for s_ in texts:
        key = s_.replace(c10.XPUB, "XPUB").replace(c10.PK33, "PK33").replace(c10.PK65, "PK65").replace(c10.XONLY, "XONLY")
        sp = spec_key(s_)
        try:
            r = m.call_path(fs[0], [s_])
            if r.variant != "Ok":
                chk.fail(rid, key, "key expression does not parse", where="src/descriptor/key.rs")
                continue
            K = r.fields["0"]
            base_view = view(K)
            multi = len(sp["paths"]) > 1
            bad = []
            # the parsed key is the one the text spells
            want_view = ("Single" if sp["kind"] == "single" else ("MultiXPub" if multi else "XPub"), sp["origin"],
                         base_view[2], sp["paths"], sp["wildcard"])
            if base_view != want_view:
                bad.append("parses to %r, the text spells %r" % (base_view, want_view))
            # at_derivation_index
            for i in (0, 7, 2 ** 31 - 1, 2 ** 31, 2 ** 32 - 1):
                from ..interp import dcopy
                r2 = m.call_path(names["at_derivation_index"], [dcopy(K), i])
                if sp["kind"] == "single":
                    want = ("Ok", base_view)
                elif multi:
                    want = ("Err", "Multipath")
                else:
                    path = list(sp["paths"][0])
                    if sp["wildcard"] != "None":
                        path.append(("Normal" if sp["wildcard"] == "Unhardened" else "Hardened", i))
                    if sp["wildcard"] != "None" and i >= 2 ** 31:
                        want = ("Err", "HardenedStep")
                    elif any(kd == "Hardened" for kd, _ in path):
                        want = ("Err", "HardenedStep")
                    else:
                        want = ("Ok", ("XPub", sp["origin"], base_view[2], [path], "None"))
                got = ("Ok", view(r2.fields["0"].fields["0"])) if r2.variant == "Ok" else ("Err", r2.fields["0"].variant)
                if got != want:
                    bad.append("at_derivation_index(%d) gives %r, expected %r" % (i, got, want))
                if r2.variant == "Ok" and sp["kind"] != "single":
                    pk = m.call_path(dpk, [r2.fields["0"], Term("secp")])
                    wantpk = ("derived", ("xkey", base_view[2]), tuple(want[1][3][0]))
                    if not (isinstance(pk, Adt) and pk.fields.get("compressed") is True and repr(pk.fields["inner"]) == repr(wantpk)):
                        bad.append("derive_public_key after at_derivation_index(%d) gives %r, expected %r" % (i, pk, wantpk))
            # into_single_keys
            r3 = m.call_path(names["into_single_keys"], [dcopy(K)])
            got = [view(x) for x in deref(r3).items]
            want = [base_view] if not multi else [("XPub", sp["origin"], base_view[2], [p], sp["wildcard"]) for p in sp["paths"]]
            if got != want:
                bad.append("into_single_keys gives %r, expected %r" % (got, want))
            # full paths
            opath = sp["origin"][1] if sp["origin"] else []
            r4 = m.call_path(names["full_derivation_paths"], [K])
            got = [steps(x) for x in deref(r4).items]
            want = [opath + p for p in sp["paths"]]
            if got != want:
                bad.append("full_derivation_paths gives %r, expected %r" % (got, want))
            if sp["kind"] != "single" or sp["origin"]:
                r6 = m.call_path(names["master_fingerprint"], [K])
                got = "".join("%02x" % b for b in deref(r6).items) if hasattr(deref(r6), "items") else repr(deref(r6))
                want = sp["origin"][0] if sp["origin"] else repr(("fingerprint-of", ("xkey", base_view[2])))
                if got != want:
                    bad.append("master_fingerprint gives %s, expected %s" % (got, want))
            r5 = m.call_path(names["full_derivation_path"], [K])
            got = None if r5.variant == "None" else steps(r5.fields["0"])
            want = None if multi else opath + sp["paths"][0]
            if got != want:
                bad.append("full_derivation_path gives %r, expected %r" % (got, want))
            # the paths without the origin
            r7 = m.call_path(extra["derivation_path"], [K])
            got = None if r7.variant == "None" else steps(r7.fields["0"])
            want = None if multi else sp["paths"][0]
            if got != want:
                bad.append("derivation_path gives %r, expected %r" % (got, want))
            r8 = m.call_path(extra["derivation_paths"], [K])
            got = [steps(x) for x in deref(r8).items]
            if got != sp["paths"]:
                bad.append("derivation_paths gives %r, expected %r" % (got, sp["paths"]))
            # the definite-key wrapper: the same text is a DefiniteDescriptorKey exactly when nothing is left to choose
            r9 = m.call_path(extra["definite_from_str"], [s_])
            # (nor can an extended *public* key take a hardened step)
            definite = not multi and sp["wildcard"] == "None" and not any(kd == "Hardened" for kd, _ in sp["paths"][0])
            if (r9.variant == "Ok") != definite:
                bad.append("DefiniteDescriptorKey::from_str is %s" % (repr(r9)[:120],))
            elif definite:
                D = r9.fields["0"]
                if view(deref(D).fields["0"]) != base_view:
                    bad.append("DefiniteDescriptorKey::from_str holds %r" % (view(deref(D).fields["0"]),))
                for nm in ("as_descriptor_public_key", "into_descriptor_public_key", "from_definite"):
                    v = m.call_path(extra[nm], [dcopy(D)])
                    if view(v) != base_view:
                        bad.append("%s gives %r" % (nm, view(v)))
                v = m.call_path(extra["definite_full_paths"], [D])
                if [steps(x) for x in deref(v).items] != [opath + p for p in sp["paths"]]:
                    bad.append("DefiniteDescriptorKey::full_derivation_paths gives %r" % ([steps(x) for x in deref(v).items],))
                v = m.call_path(extra["definite_full_path"], [D])
                if v.variant != "Some" or steps(v.fields["0"]) != opath + sp["paths"][0]:
                    bad.append("DefiniteDescriptorKey::full_derivation_path gives %r" % (v,))
            chk.obligation(rid, not bad, key, "; ".join(bad[:3]).replace(c10.XPUB, "XPUB")[:700], where="src/descriptor/key.rs")
            n_ok += 1
        except Unsupported as e:
            chk.fail(rid, "unanalysable:" + key, "unanalysable: %s" % e, where=e.where, kind="unanalysable")
            break
        except Panic as e:
            chk.fail(rid, key, "panic: %s" % e, where="src/descriptor/key.rs")
    chk.floor(rid, "key expressions", n_ok, 85)


# ---- R16.6 descriptor-level multipath split and wildcard replacement -------------------------------------------------

DESC_TEMPLATES = ["wpkh(K0)", "pkh(K0)", "sh(wpkh(K0))", "wsh(multi(2,K0,K1))", "sh(multi(1,K0,K1))",
                  "sh(wsh(sortedmulti(1,K0,K1)))", "wsh(and_v(v:pk(K0),or_d(pk(K1),older(5))))", "tr(K0)",
                  "tr(K0,{pk(K1),and_v(v:pk(K2),older(9))})", "tr(K0,multi_a(2,K1,K2))", "wsh(thresh(2,pk(K0),s:pk(K1),s:pk(K2)))",
                  # hash fragments: the key translators behind these functions must leave every hash as it is
                  "wsh(and_v(v:pk(K0),sha256(%s)))" % ("ab" * 32), "wsh(and_v(v:pk(K0),hash256(%s)))" % ("cd" * 32),
                  "sh(wsh(and_v(v:pk(K0),ripemd160(%s))))" % ("ef" * 20), "tr(K0,and_v(v:pk(K1),hash160(%s)))" % ("12" * 20)]


def check_descriptor_split(chk, F):
    import itertools
    import re
    from . import c10
    from .. import builtins as B, textmodel as tm
    from ..interp import Panic, dcopy
    rid = "R16.6"
    chk.rule(rid, "whole descriptors over extended keys (every output type, 1-3 keys, keys with / without multipath steps "
                  "of 2 or 3 alternatives, with / without (hardened) wildcards): into_single_descriptors returns, in order, "
                  "exactly the descriptors whose text has every <a;b;..> step replaced by its j-th alternative (the "
                  "descriptor itself when no key is multipath); at_derivation_index(i) is the text with every /* replaced "
                  "by /i, and is refused for multipath keys, hardened wildcards / steps and i >= 2^31; has_wildcard / is_multipath / "
                  "into_definite / derive_at_index answer accordingly and derived_descriptor's keys are the keys derived along "
                  "exactly those paths; keys with different numbers of alternatives are refused")
    DPK = c10.DPK
    fs = [it["path"] for i in F.impls if i["trait"] == "std::str::FromStr" and i["self_adt"] == c10.DESC
          for it in i["items"] if it["name"] == "from_str"]
    isd = [q for q in F.fns if q.endswith("Descriptor::<descriptor::key::DescriptorPublicKey>::into_single_descriptors")]
    adi = [q for q in F.fns if q.endswith("Descriptor::<descriptor::key::DescriptorPublicKey>::at_derivation_index")]
    if len(fs) != 1 or len(isd) != 1 or len(adi) != 1:
        chk.fail(rid, "anchor", "Descriptor::from_str / into_single_descriptors / at_derivation_index not found", kind="unanalysable")
        return
    chk.saw(fs[0], isd[0], adi[0])
    more = {}
    for nm in ("has_wildcard", "is_multipath", "into_definite", "derive_at_index"):
        qs = [q for q in F.fns if q.endswith("Descriptor::<descriptor::key::DescriptorPublicKey>::" + nm)]
        if len(qs) != 1:
            chk.fail(rid, "anchor|" + nm, "Descriptor::%s not found" % nm, kind="unanalysable")
            return
        more[nm] = qs[0]
    qs = [q for q in F.fns if q.endswith("Descriptor::<descriptor::key::DefiniteDescriptorKey>::derived_descriptor")]
    fek_l = [it["path"] for i in F.impls if i["self_adt"] == c10.DESC and (i["trait"] or "").endswith("ForEachKey")
             for it in i["items"] if it["name"] == "for_each_key"]
    if len(qs) != 1 or len(fek_l) != 1:
        chk.fail(rid, "anchor|derived_descriptor", "Descriptor::derived_descriptor / for_each_key not found", kind="unanalysable")
        return
    more["derived_descriptor"] = qs[0]
    fek_ = fek_l[0]
    chk.saw(*more.values())
    m, _params = c10.desc_machine(F)
    km = c10.key_machine(F)
    for k, v in km.hooks.items():
        m.hooks.setdefault(k, v)
    derivation_hooks(m)
    m.key_display = True
    m.max_depth = 140
    XP = [c10.XPUB, c10.XPUB.replace("A1", "B7"), c10.XPUB.replace("A1", "C9")]

    def show(s_):
        for i, x in enumerate(XP):
            s_ = s_.replace(x, "X%d" % i)
        return s_

    def text_of(v):
        out, _ = tm.display(m, v)
        return "".join(map(str, out)).split("#")[0]

    def parse(s_):
        return m.call_callee({"def": fs[0], "resolved": fs[0], "name": "from_str", "targs": [DPK]}, [s_])
    # key forms: (prefix path, multipath alternatives per count, suffix path)
    def key_text(slot, n_alt, multi, wc):
        base = XP[slot] + ("/%d" % (slot + 1) if slot != 1 else "")
        if multi:
            base += "/<" + ";".join(str(10 * slot + j) for j in range(n_alt)) + ">"
        if slot == 2:
            base += "/7"
        return base + wc
    orig = B.fmt_value
    B.fmt_value = c10._key_fmt_value(orig)
    n = 0
    try:
        for tpl in DESC_TEMPLATES:
            slots = len(set(re.findall(r"K\d", tpl)))
            plans = [(1, ()), (2, tuple(range(slots))), (3, tuple(range(slots))), (2, (0,)), (3, (slots - 1,))]
            for (n_alt, multi_slots), wc in itertools.product(plans, ("", "/*", "/*h")):
                if n_alt > 1 and slots > 1 and multi_slots == (slots - 1,) and multi_slots == (0,):
                    continue
                s_ = tpl
                for i in range(slots):
                    s_ = s_.replace("K%d" % i, key_text(i, n_alt, i in multi_slots, wc))
                key = "%s|alts=%d@%s|wildcard=%s" % (tpl, n_alt, ",".join(map(str, multi_slots)) or "-", wc or "-")
                n += 1
                try:
                    r = parse(s_)
                    if r.variant != "Ok":
                        chk.fail(rid, key, "descriptor %s does not parse: %s" % (show(s_), repr(r)[:200]), where="src/descriptor/mod.rs")
                        continue
                    d = r.fields["0"]
                    bad = []
                    r2 = m.call_path(isd[0], [dcopy(d)])
                    want = [re.sub(r"<([^>]*)>", lambda mo: mo.group(1).split(";")[j], s_) for j in range(n_alt)] if multi_slots else [s_]
                    got = [text_of(x) for x in B.deref(r2.fields["0"]).items] if r2.variant == "Ok" else repr(r2)[:200]
                    if got != want:
                        bad.append("into_single_descriptors gives %s, expected %s" % (
                            [show(x) for x in got] if isinstance(got, list) else got, [show(x) for x in want]))
                    for i in (0, 9, 2 ** 31 - 1, 2 ** 31):
                        r3 = m.call_path(adi[0], [d, i])
                        hard = wc == "/*h" or (wc == "/*" and i >= 2 ** 31)
                        # the keys are translated one by one: any key's own refusal may be the one reported
                        want3 = set()
                        if multi_slots:
                            want3.add("Err:Multipath")
                        if hard and (not multi_slots or len(multi_slots) < slots):
                            want3.add("Err:HardenedStep")
                        if not want3:
                            want3.add(s_.replace("/*", "/%d" % i))
                        got3 = text_of(r3.fields["0"]) if r3.variant == "Ok" else "Err:" + getattr(B.deref(r3.fields["0"]), "variant", "?")
                        if got3 not in want3:
                            bad.append("at_derivation_index(%d) gives %s, expected %s" % (i, show(got3), " or ".join(sorted(map(show, want3)))))
                    # the predicates and the other derivation entry points
                    hw = m.call_path(more["has_wildcard"], [d])
                    if hw != (wc != ""):
                        bad.append("has_wildcard = %r" % (hw,))
                    im = m.call_path(more["is_multipath"], [d])
                    if im != bool(multi_slots):
                        bad.append("is_multipath = %r" % (im,))
                    rdef = m.call_path(more["into_definite"], [d])
                    if wc != "":
                        wdef = "Err:Wildcard"
                    elif multi_slots:
                        wdef = "Err:Multipath"
                    else:
                        wdef = s_
                    gdef = text_of(rdef.fields["0"]) if rdef.variant == "Ok" else "Err:" + getattr(B.deref(rdef.fields["0"]), "variant", "?")
                    if gdef != wdef:
                        bad.append("into_definite gives %s, expected %s" % (show(gdef), show(wdef)))
                    rd = m.call_path(more["derive_at_index"], [d, 9])
                    if wc == "":
                        good_ = rd.variant == "WithoutWildcard" and text_of(rd.fields["0"]) == s_
                    elif multi_slots or wc == "/*h":
                        good_ = rd.variant == "Error"
                    else:
                        good_ = rd.variant == "Ok" and text_of(rd.fields["0"]) == s_.replace("/*", "/9")
                    if not good_:
                        bad.append("derive_at_index(9) gives %s" % repr(rd)[:120])
                    if not multi_slots and wc in ("", "/*"):
                        # derived_descriptor: every key becomes the key derived along exactly its path
                        dd = m.call_path(adi[0], [d, 9])
                        if dd.variant == "Ok":
                            pkd = m.call_callee({"def": more["derived_descriptor"], "resolved": more["derived_descriptor"],
                                                 "name": "derived_descriptor", "targs": ["C"]}, [dd.fields["0"], Term("secp")])
                            seenk = []
                            m.call_callee({"def": fek_, "resolved": fek_, "name": "for_each_key", "targs": ["bitcoin::PublicKey", "F"]},
                                          [pkd, lambda k: seenk.append(B.deref(k)) or True])
                            wantk = []
                            for i in range(slots):
                                sp_ = spec_key(key_text(i, n_alt, False, wc).replace("/*", "/9"))
                                wantk.append(repr(("derived", ("xkey", sp_["base"]), tuple(sp_["paths"][0]))))
                            gotk = sorted(repr(k.fields["inner"]) if isinstance(k, Adt) else repr(k) for k in seenk)
                            if sorted(set(gotk)) != sorted(set(wantk)):
                                bad.append("derived_descriptor has the keys %s, expected %s" % ([show(x) for x in gotk][:3], [show(x) for x in wantk][:3]))
                    chk.obligation(rid, not bad, key, "; ".join(bad[:2])[:900], where="src/descriptor/mod.rs")
                except Unsupported as e:
                    chk.fail(rid, "unanalysable:" + key, "unanalysable: %s" % e, where=e.where, kind="unanalysable")
                    return
                except Panic as e:
                    chk.fail(rid, key, "panic: %s" % e, where="src/descriptor/mod.rs")
        # different numbers of alternatives: no split exists; refused by the parser or by into_single_descriptors
        for s_ in ("wsh(multi(2,%s/<0;1>/*,%s/<0;1;2>/*))" % (XP[0], XP[1]), "wsh(multi(2,%s/<0;1;2>/*,%s/<0;1>/*))" % (XP[0], XP[1]),
                   "tr(%s/<0;1;2>,pk(%s/<3;4>))" % (XP[0], XP[1]), "tr(%s/<0;1>,pk(%s/<3;4;5>))" % (XP[0], XP[1]),
                   "tr(%s,{pk(%s/<3;4>),pk(%s/<5;6;7>)})" % (XP[0], XP[1], XP[2]),
                   "tr(%s,{pk(%s/<3;4;8>),pk(%s/<5;6>)})" % (XP[0], XP[1], XP[2]),
                   "sh(wsh(and_v(v:pk(%s/<0;1>),pk(%s/9/<1;2;3>))))" % (XP[0], XP[1])):
            n += 1
            try:
                r = parse(s_)
                refused = r.variant == "Err"
                if not refused:
                    r2 = m.call_path(isd[0], [dcopy(r.fields["0"])])
                    refused = r2.variant == "Err"
                    detail = "" if refused else "split into %s" % [show(text_of(x)) for x in B.deref(r2.fields["0"]).items]
                chk.obligation(rid, refused, "mismatch|" + show(s_), "a descriptor whose multipath keys have different numbers of "
                               "alternatives is accepted and " + (detail if not refused else ""), where="src/descriptor/mod.rs")
            except Unsupported as e:
                chk.fail(rid, "unanalysable:" + show(s_), "unanalysable: %s" % e, where=e.where, kind="unanalysable")
            except Panic as e:
                chk.fail(rid, "mismatch|" + show(s_), "panic: %s" % e, where="src/descriptor/mod.rs")
    finally:
        B.fmt_value = orig
    chk.floor(rid, "descriptor x key-form cases", n, 150)


# ---- R16.7 taproot output script and address ------------------------------------------------------------------------

def check_tr_output(chk, F):
    from ..interp import Adt
    rid = "R16.7"
    chk.rule(rid, "Tr::script_pubkey is OP_1 (0x51) <32-byte serialization of the spend info's output key> (BIP-341 witness program "
                  "v1) and Tr::address(network) is the tweaked-key address of the same output key on that network; both read "
                  "the key from spend_info() (whose value C15 decides)")
    TR = "descriptor::tr::Tr"
    try:
        spk = assembly.method(F, TR, "script_pubkey")
        addr = assembly.method(F, TR, "address")
        si = assembly.method(F, TR, "spend_info")
    except KeyError as e:
        chk.fail(rid, "anchor", "missing %s" % e, kind="unanalysable")
        return
    chk.saw(spk, addr)
    hooks = {si: lambda m, a, c: Term("spendinfo", a[0])}
    for q in F.fns:
        if q.endswith("TrSpendInfo::<Pk>::output_key") or q.endswith("TrSpendInfo<Pk>::output_key"):
            hooks[q] = lambda m, a, c: Term("outkey", a[0])
    okp = [q for q in F.fns if F.fns[q].get("name") == "output_key" and "spend_info" in F.fns[q]["span"]]
    for q in okp:
        hooks[q] = lambda m, a, c: Term("outkey", a[0])
    hooks["bitcoin::script::Builder::push_opcode"] = lambda m, a, c: Term("script", *(a[0].args + (Term("op", a[1]),)))
    hooks["bitcoin::key::TweakedPublicKey::serialize"] = lambda m, a, c: Term("ser32", a[0])
    hooks["bitcoin::Address::p2tr_tweaked"] = lambda m, a, c: Term("addr_tweaked", a[0], a[1])
    tr = Adt(TR, "Tr", {"internal_key": Term("ik"), "tree": Term("tree"), "spend_info": Term("cache")})
    where = F.fns[spk]["span"]
    try:
        res, m = assembly.run(F, spk, [tr], hooks)
        vals = [r for c, r in res if not (isinstance(r, tuple) and r and r[0] == "panic")]
        txt = repr(vals[0]) if len(vals) == 1 else repr(vals)
        v = vals[0] if len(vals) == 1 else None
        good = isinstance(v, Term) and v.op == "script" and len(v.args) == 2 and v.args[0].op == "op" and \
            "code: 81}" in repr(v.args[0]) and v.args[1].op == "push" and \
            repr(assembly.strip(v.args[1].args[0])) == repr(Term("ser32", Term("outkey", Term("spendinfo", tr))))
        chk.obligation(rid, good, "script_pubkey", "Tr::script_pubkey builds %s; expected OP_1 push(serialize(spend_info().output_key()))" % txt[:300], where)
        res, m = assembly.run(F, addr, [tr, Term("network")], hooks)
        vals = [r for c, r in res if not (isinstance(r, tuple) and r and r[0] == "panic")]
        v = vals[0] if len(vals) == 1 else None
        good = isinstance(v, Term) and v.op == "addr_tweaked" and repr(v.args[0]) == repr(Term("outkey", Term("spendinfo", tr))) \
            and v.args[1] == Term("network")
        chk.obligation(rid, good, "address", "Tr::address(network) is %r; expected p2tr_tweaked(spend_info().output_key(), network)" % (vals,), F.fns[addr]["span"])
    except Unsupported as e:
        chk.fail(rid, "unanalysable", "unanalysable: %s" % e, where, kind="unanalysable")


# ---- R16.8 secret keys: public counterpart; R10.9 text form -------------------------------------------------------------

def secret_texts():
    from . import c10
    XPRV = "xprv" + c10.XPUB[4:]
    out = []
    for o in ("", "[deadbeef/9']", "[00000000/1/2']"):
        for path in ("", "/0/1", "/0'", "/0'/1", "/0'/1/2'/3", "/1/2'"):
            for wc in ("", "/*", "/*h"):
                out.append(o + XPRV + path + wc)
        for mp in ("/<0;1>/*", "/7'/<0;1>/*", "/7'/3/<0;1;2>/4/*", "/<0';1'>/*", "/1/<2;3'>", "/5'/<0;1>/6'"):
            out.append(o + XPRV + mp)
    return XPRV, out


def check_secret_keys(chk, F, rid="R16.8", text_rule=None):
    from . import c10
    from .. import builtins as B, textmodel as tm
    from ..interp import Panic
    from ..builtins import deref
    if text_rule is None:
        chk.rule(rid, "DescriptorSecretKey::to_public: the public key expression of an extended private key derives the same keys - "
                      "the hardened prefix of the path (up to the last hardened step; for multipath keys: of the shared prefix) is "
                      "applied to the private key and moved into the origin (fingerprint kept, or the key's own when there was "
                      "none), the rest stays as path(s) with the same wildcard, so origin path + path is unchanged; a hardened step "
                      "inside the alternatives is refused; the secret key's into_single_keys yields one key per alternative, in "
                      "order, spelled as the text with the multipath step replaced, and is_multipath says whether there are several")
    else:
        chk.rule(text_rule, "secret key expressions (extended private keys x origin x path x multipath x wildcard) parse, print back as "
                            "the same text, and that text parses to an equal key")
    DSK = "descriptor::key::DescriptorSecretKey"
    try:
        fs = [it["path"] for i in F.impls if i["trait"] == "std::str::FromStr" and i["self_adt"] == DSK for it in i["items"] if it["name"] == "from_str"][0]
        tp = [q for q in F.fns if q.endswith("DescriptorSecretKey::to_public")][0]
    except IndexError:
        chk.fail(text_rule or rid, "anchor", "DescriptorSecretKey::from_str / to_public not found", kind="unanalysable")
        return
    chk.saw(fs, tp)
    split = None
    if text_rule is None:
        try:
            split = ([q for q in F.fns if q.endswith("DescriptorSecretKey::into_single_keys")][0],
                     [q for q in F.fns if q.endswith("DescriptorSecretKey::is_multipath")][0])
            chk.saw(*split)
        except IndexError:
            chk.fail(rid, "anchor|split", "DescriptorSecretKey::into_single_keys / is_multipath not found", kind="unanalysable")
            return
    m = c10.key_machine(F)
    derivation_hooks(m)
    XPRV, texts = secret_texts()
    orig = B.fmt_value
    B.fmt_value = c10._key_fmt_value(orig)
    n = 0

    def steps(v):
        return [(x.variant, x.fields["index"]) for x in deref(v).items]
    try:
        for t in texts:
            key = t.replace(XPRV, "XPRV")
            R = text_rule or rid
            try:
                r = m.call_path(fs, [t])
                if r.variant != "Ok":
                    chk.fail(R, key, "the secret key expression does not parse: %s" % repr(r)[:160], where="src/descriptor/key.rs")
                    continue
                sk = r.fields["0"]
                n += 1
                if text_rule is not None:
                    out, _ = tm.display(m, sk)
                    p1 = "".join(map(str, out))
                    r2 = m.call_path(fs, [p1])
                    good = p1 == t and r2.variant == "Ok" and c10.pstrip(r2.fields["0"]) == c10.pstrip(sk)
                    chk.obligation(R, good, key, "prints as %s, which parses to %s" % (p1.replace(XPRV, "XPRV"), repr(r2)[:100]),
                                   where="src/descriptor/key.rs")
                    continue
                sp = spec_key(t.replace(XPRV, c10.XPUB))       # same grammar; the base is put back below
                paths = sp["paths"]
                if split is not None and paths is not None:
                    # the secret key's own multipath split: one key per alternative, in order, spelled as the text with the
                    # <a;b;..> step replaced by that alternative
                    import re as _re
                    from ..interp import dcopy as _dc
                    im = m.call_path(split[1], [sk])
                    if im is not (len(paths) > 1):
                        chk.fail(R, key + "|is_multipath", "is_multipath is %r for %d path(s)" % (im, len(paths)), where="src/descriptor/key.rs")
                    singles = m.call_path(split[0], [_dc(sk)])
                    got_t = []
                    for x in deref(singles).items:
                        out, _ = tm.display(m, x)
                        got_t.append("".join(map(str, out)))
                    mo = _re.search(r"<([^>]*)>", t)
                    want_t = [t[:mo.start()] + alt + t[mo.end():] for alt in mo.group(1).split(";")] if mo else [t]
                    chk.obligation(R, got_t == want_t, key + "|into_single_keys", "into_single_keys gives %r, expected %r" % (
                        [x.replace(XPRV, "XPRV") for x in got_t], [x.replace(XPRV, "XPRV") for x in want_t]), where="src/descriptor/key.rs")
                res = m.call_path(tp, [sk, Term("secp")])
                # specification
                if paths is None:
                    continue
                if len(paths) == 1:
                    shared = paths[0]
                    suffixes = [[]]
                else:
                    k = 0
                    while all(len(p_) > k for p_ in paths) and len(set(p_[k] for p_ in paths)) == 1:
                        k += 1
                    shared = paths[0][:k]
                    suffixes = [p_[k:] for p_ in paths]
                bad_suffix = any(kd == "Hardened" for sfx in suffixes for kd, _ in sfx)
                last_h = max([i for i, (kd, _) in enumerate(shared) if kd == "Hardened"] + [-1]) + 1
                hard, rest = shared[:last_h], shared[last_h:]
                if bad_suffix:
                    chk.obligation(R, res.variant == "Err", key, "a hardened step inside the alternatives is accepted: %s" % repr(res)[:200],
                                   where="src/descriptor/key.rs")
                    continue
                if res.variant != "Ok":
                    chk.fail(R, key, "to_public fails: %s" % repr(res)[:200], where="src/descriptor/key.rs")
                    continue
                pk = deref(res.fields["0"])
                inner = pk.fields["0"]
                bad = []
                want_x = ("xkey", ("pub-of", ("xprv-derived", ("xkey", XPRV), tuple(hard))))
                if repr(inner.fields["xkey"]) != repr(want_x):
                    bad.append("public key of %r, expected the key derived along the hardened prefix %r" % (inner.fields["xkey"], hard))
                o = inner.fields["origin"]
                if sp["origin"]:
                    want_o = (sp["origin"][0], sp["origin"][1] + hard)
                elif hard:
                    want_o = (repr(("fingerprint-of", ("xkey", XPRV))), hard)
                else:
                    want_o = None
                if o.variant == "None":
                    got_o = None
                else:
                    fp, op_ = o.fields["0"]
                    fpd = deref(fp)
                    got_o = ("".join("%02x" % b for b in fpd.items) if hasattr(fpd, "items") else repr(fpd), steps(op_))
                if got_o != want_o:
                    bad.append("origin %r, expected %r" % (got_o, want_o))
                if pk.variant == "XPub":
                    got_p = [steps(inner.fields["derivation_path"])]
                else:
                    dp = inner.fields["derivation_paths"]
                    ps_ = dp.fields["0"] if "0" in dp.fields else list(dp.fields.values())[0]
                    got_p = [steps(x) for x in deref(ps_).items]
                want_p = [rest + sfx for sfx in suffixes]
                if got_p != want_p:
                    bad.append("path(s) %r, expected %r" % (got_p, want_p))
                if inner.fields["wildcard"].variant != sp["wildcard"]:
                    bad.append("wildcard %s, expected %s" % (inner.fields["wildcard"].variant, sp["wildcard"]))
                chk.obligation(R, not bad, key, "; ".join(bad[:2]).replace(XPRV, "XPRV")[:700], where="src/descriptor/key.rs")
            except Unsupported as e:
                chk.fail(R, "unanalysable:" + key, "unanalysable: %s" % e, where=e.where, kind="unanalysable")
                break
            except Panic as e:
                chk.fail(R, key, "panic: %s" % e, where="src/descriptor/key.rs")
    finally:
        B.fmt_value = orig
    chk.floor(text_rule or rid, "secret key expressions", n, 60)


# ---- R16.9 descriptor kinds ---------------------------------------------------------------------------------------------------

def check_desc_type(chk, F):
    from ..interp import Machine, Adt, Panic
    rid = "R16.9"
    chk.rule(rid, "Descriptor::desc_type names the output type of every descriptor form (bare, pkh, wpkh, wsh, sh, sh(wsh), sh(wpkh), "
                  "tr) and DescriptorType::segwit_version is v1 for tr, v0 for the four segwit-v0 forms and none for bare / sh / "
                  "pkh (sizes, sighash flavour and utxo checks branch on these)")
    try:
        dt = [q for q in F.fns if q.endswith("descriptor::Descriptor::<Pk>::desc_type")][0]
        sv = [q for q in F.fns if q.endswith("DescriptorType::segwit_version")][0]
    except IndexError:
        chk.fail(rid, "anchor", "Descriptor::desc_type / DescriptorType::segwit_version not found", kind="unanalysable")
        return
    chk.saw(dt, sv)
    vals = dict(assembly.values())
    m = Machine(F, strict=True)
    table = {"Bare": ("Bare", None), "Pkh": ("Pkh", None), "Wpkh": ("Wpkh", "V0"), "Wsh": ("Wsh", "V0"), "Sh": ("Sh", None),
             "ShWsh": ("ShWsh", "V0"), "ShWpkh": ("ShWpkh", "V0"), "Tr": ("Tr", "V1")}
    for name, (want_t, want_v) in table.items():
        if name == "Tr":
            d = Adt(DESC, "Tr", {"0": Adt("descriptor::tr::Tr", "Tr", {"internal_key": Term("ik"), "tree": Term("tree"), "spend_info": Term("c")})})
        else:
            d = Adt(DESC, {"Bare": "Bare", "Pkh": "Pkh", "Wpkh": "Wpkh", "Wsh": "Wsh"}.get(name, "Sh"), {"0": vals[name]})
        try:
            t = m.call_callee({"def": dt, "resolved": dt, "name": "desc_type", "targs": ["PK"]}, [d])
            v = m.call_path(sv, [t])
            gv = None if v.variant == "None" else getattr(v.fields["0"], "variant", repr(v.fields["0"]))
            chk.obligation(rid, getattr(t, "variant", None) == want_t and gv == want_v, name,
                           "%s: desc_type %r, segwit version %r; expected %s / %s" % (name, t, v, want_t, want_v), F.fns[dt]["span"])
        except (Unsupported, Panic) as e:
            chk.fail(rid, "unanalysable:" + name, "unanalysable: %s" % e, kind="unanalysable")


# ---- R16.10 looking an output script up among the derived descriptors; the derivation glue ------------------------------------

def check_spk_search(chk, F):
    import itertools
    from ..interp import Machine, Adt, PyVec, Panic, ok, err, some, NONE
    from ..builtins import deref
    rid = "R16.10"
    chk.rule(rid, "Descriptor::find_derivation_index_for_spk returns the first index of the range whose derived descriptor pays "
                  "to the given script, with that descriptor; None when no index of the range does; index 0 / None for a "
                  "descriptor without wildcard by comparing its own script; a derivation error is passed on (decision table "
                  "over wildcard x range x matching indices x failing index); DerivationResult::{into_result, or_fallback} and "
                  "Descriptor::<DescriptorPublicKey>::derived_descriptor / TryFrom are the compositions their documentation "
                  "states")
    D = "Descriptor::<descriptor::key::DescriptorPublicKey>::"
    try:
        find = [q for q in F.fns if q.endswith(D + "find_derivation_index_for_spk")][0]
        hasw = [q for q in F.fns if q.endswith(D + "has_wildcard")][0]
        intod = [q for q in F.fns if q.endswith(D + "into_definite")][0]
        dai = [q for q in F.fns if q.endswith(D + "derive_at_index")][0]
        adi = [q for q in F.fns if q.endswith(D + "at_derivation_index")][0]
        dd_pub = [q for q in F.fns if q.endswith(D + "derived_descriptor")][0]
        dd_def = [q for q in F.fns if q.endswith("Descriptor::<descriptor::key::DefiniteDescriptorKey>::derived_descriptor")][0]
        spk = [q for q in F.fns if q.endswith("Descriptor::<Pk>::script_pubkey")][0]
        into_result = [q for q in F.fns if q.endswith("DerivationResult::into_result")][0]
        or_fallback = [q for q in F.fns if q.endswith("DerivationResult::or_fallback")][0]
        tryfrom = [it["path"] for i in F.impls if (i["trait"] or "").startswith("std::convert::TryFrom") and i["self_adt"] == "descriptor::Descriptor"
                   for it in i["items"] if it["name"] == "try_from" and it["path"] in F.bodies]
        if len(tryfrom) != 1:
            raise IndexError("TryFrom")
    except IndexError as e:
        chk.fail(rid, "anchor", "find_derivation_index_for_spk and its collaborators not found (%s)" % e, kind="unanalysable")
        return
    chk.saw(find, dd_pub, into_result, or_fallback, tryfrom[0])
    DR = "descriptor::DerivationResult"
    n = 0
    try:
        for wild, (lo, hi), matching, failing in itertools.product((True, False), ((0, 0), (0, 4), (2, 6), (5, 6)),
                                                                   ((), (0,), (3,), (2, 5), (1, 2, 3)), (None, 0, 2, 5)):
            calls = []
            hooks = {
                hasw: lambda m_, a, c: wild,
                intod: lambda m_, a, c: err(Term("into-definite-error")) if failing == 0 else ok(("definite", "self")),
                dai: lambda m_, a, c: (calls.append(deref(a[1])),
                                       Adt(DR, "Error", {"0": Term("derive-error", deref(a[1]))}) if deref(a[1]) == failing
                                       else Adt(DR, "Ok", {"0": ("definite", deref(a[1]))}))[1],
                # (should the loop call the deprecated at_derivation_index directly, the same table applies)
                adi: lambda m_, a, c: (calls.append(deref(a[1])),
                                       err(Term("derive-error", deref(a[1]))) if deref(a[1]) == failing else ok(("definite", deref(a[1]))))[1],
                dd_def: lambda m_, a, c: ("concrete", deref(a[0])[1]),
                spk: lambda m_, a, c: "TARGET" if (deref(a[0])[1] in matching or (deref(a[0])[1] == "self" and 0 in matching)) else ("other", deref(a[0])[1]),
            }
            m = Machine(F, strict=True, hooks=hooks)
            rng = Adt("std::ops::Range", "Range", {"start": lo, "end": hi})
            r = m.call_callee({"def": find, "resolved": find, "name": "find_derivation_index_for_spk", "targs": ["C"]},
                              [Term("desc"), Term("secp"), "TARGET", rng])
            n += 1
            key = "find|wildcard=%s|range=%d..%d|matching=%s|failing=%s" % (wild, lo, hi, ",".join(map(str, matching)) or "-", failing)
            if not wild:
                want = "Err" if failing == 0 else (("Some", 0, "self") if 0 in matching else "None")
            else:
                want = "None"
                for i in range(lo, hi):
                    if i == failing:
                        want = "Err"
                        break
                    if i in matching:
                        want = ("Some", i, i)
                        break
            if r.variant == "Err":
                got = "Err"
            else:
                o = deref(r.fields["0"])
                got = "None" if o.variant == "None" else ("Some", deref(o.fields["0"])[0], deref(deref(o.fields["0"])[1])[1])
            chk.obligation(rid, got == want, key, "result %r (%s), expected %r" % (got, repr(r)[:100], want), where="src/descriptor/mod.rs")
        # DerivationResult conversions
        m = Machine(F, strict=True, hooks={intod: lambda m_, a, c: ok(("definite-of", deref(a[0])))})
        for variant, payload, want_ir, want_fb in (("Ok", "d", "Ok:d", "Ok:d"), ("WithoutWildcard", "orig", "Err:NoWildcard", "Ok:definite-of"),
                                                   ("Error", Term("E"), "Err:E", "Err:E")):
            for fn_, want in ((into_result, want_ir), (or_fallback, want_fb)):
                r = m.call_path(fn_, [Adt(DR, variant, {"0": payload})])
                n += 1
                got = "%s:%s" % (r.variant, repr(deref(r.fields["0"])))
                chk.obligation(rid, got.startswith(want.split(":")[0]) and want.split(":")[1] in got, "DerivationResult|%s|%s" % (variant, fn_.rsplit("::", 1)[1]),
                               "%s of %s is %s, expected %s" % (fn_.rsplit("::", 1)[1], variant, got, want), where="src/descriptor/mod.rs")
        # derived_descriptor(secp, i) = at_derivation_index(i)?.derived_descriptor(secp); TryFrom = into_definite
        for outcome in ("ok", "err"):
            m = Machine(F, strict=True, hooks={
                adi: lambda m_, a, c: ok(("definite", deref(a[1]))) if outcome == "ok" else err(Term("E", deref(a[1]))),
                dd_def: lambda m_, a, c: ("concrete", deref(a[0])[1]),
                intod: lambda m_, a, c: ok(("definite-of", deref(a[0]))) if outcome == "ok" else err(Term("E"))})
            r = m.call_callee({"def": dd_pub, "resolved": dd_pub, "name": "derived_descriptor", "targs": ["C"]}, [Term("desc"), Term("secp"), 11])
            n += 1
            good = (r.variant == "Ok" and deref(r.fields["0"]) == ("concrete", 11)) if outcome == "ok" else (r.variant == "Err" and "E" in repr(r))
            chk.obligation(rid, good, "derived_descriptor|" + outcome, "derived_descriptor(secp, 11) is %r" % (r,), where="src/descriptor/mod.rs")
            r = m.call_path(tryfrom[0], ["DESC"])
            n += 1
            good = (r.variant == "Ok" and deref(r.fields["0"]) == ("definite-of", "DESC")) if outcome == "ok" else r.variant == "Err"
            chk.obligation(rid, good, "try_from|" + outcome, "TryFrom gives %r" % (r,), where="src/descriptor/mod.rs")
    except Unsupported as e:
        chk.fail(rid, "unanalysable", "unanalysable: %s" % e, where=e.where, kind="unanalysable")
    except Panic as e:
        chk.fail(rid, "panic", "panic: %s" % e, where="src/descriptor/mod.rs")
    chk.floor(rid, "cases", n, 170)


# ---- R16.11 BIP-67 ordering -------------------------------------------------------------------------------------------------------

def check_bip67(chk, F):
    import itertools
    from ..interp import Machine, Adt, PyVec, Panic
    from ..builtins import deref
    rid = "R16.11"
    chk.rule(rid, "Threshold::into_sorted_bip67 / into_sorted_bip67_xonly (what sortedmulti / sortedmulti_a encode and satisfy with) "
                  "return the same k and the same keys ordered by their 33-byte compressed / 32-byte x-only serialization, "
                  "lexicographically ascending, whatever order they were listed in (all permutations of key sets whose two "
                  "orders differ); is_sorted_bip67(_xonly) holds exactly for the lists in that order")
    T = "primitives::threshold::Threshold"
    try:
        fns = {nm: F.fn(nm, file="primitives/threshold.rs") for nm in ("into_sorted_bip67", "into_sorted_bip67_xonly", "is_sorted_bip67",
                                                                      "is_sorted_bip67_xonly")}
    except KeyError as e:
        chk.fail(rid, "anchor", "missing anchor %s" % e, kind="unanalysable")
        return
    chk.saw(*fns.values())
    # name -> (parity byte, x coordinate bytes): the full order looks at the parity byte first, the x-only order does not
    ser = {"A": (3, [0x00, 0x10]), "B": (2, [0xff, 0x01]), "C": (2, [0x80, 0x00]), "D": (3, [0x80, 0x00]), "E": (2, [0x00, 0x10, ])}
    h = {}
    h["ToPublicKey::to_public_key"] = lambda m_, a, c: Adt("bitcoin::PublicKey", "PublicKey", {"compressed": True, "inner": ("secp", deref(a[0]))})
    h["miniscript::ToPublicKey::to_public_key"] = h["ToPublicKey::to_public_key"]
    h["ToPublicKey::to_x_only_pubkey"] = lambda m_, a, c: ("xonly", deref(a[0]))
    h["miniscript::ToPublicKey::to_x_only_pubkey"] = h["ToPublicKey::to_x_only_pubkey"]
    h["bitcoin::secp256k1::PublicKey::serialize"] = lambda m_, a, c: PyVec([ser[deref(a[0])[1]][0]] + ser[deref(a[0])[1]][1])
    h["bitcoin::secp256k1::XOnlyPublicKey::serialize"] = lambda m_, a, c: PyVec(list(ser[deref(a[0])[1]][1]))
    h["bitcoin::XOnlyPublicKey::serialize"] = h["bitcoin::secp256k1::XOnlyPublicKey::serialize"]
    m = Machine(F, strict=True, hooks=h)
    n = 0
    try:
        for names in (["A", "B"], ["A", "B", "C"], ["A", "B", "C", "D"], ["A", "E"], ["B", "C", "D", "E"]):
            for perm in itertools.permutations(names):
                for nm, keyf in (("into_sorted_bip67", lambda x: [ser[x][0]] + ser[x][1]), ("into_sorted_bip67_xonly", lambda x: ser[x][1])):
                    th = Adt(T, "Threshold", {"k": 2 if len(perm) > 1 else 1, "inner": PyVec(list(perm))})
                    r = m.call_callee({"def": fns[nm], "resolved": fns[nm], "name": nm, "targs": ["PK"], "cargs": ["20"]}, [th])
                    n += 1
                    got = [deref(x) for x in deref(r.fields["inner"]).items]
                    want = sorted(perm, key=keyf)            # Python's sort is stable, as slice::sort_by_key is
                    # keys with equal serialization may come in either order
                    good = [keyf(x) for x in got] == [keyf(x) for x in want] and sorted(got) == sorted(perm) and r.fields["k"] == th.fields["k"]
                    chk.obligation(rid, good, "%s|%s" % (nm, "".join(perm)), "%s of %s gives k=%r %r, expected %r" % (nm, list(perm), r.fields["k"], got, want),
                                   where="src/primitives/threshold.rs")
                    isn = "is_sorted_bip67" + ("_xonly" if nm.endswith("xonly") else "")
                    th2 = Adt(T, "Threshold", {"k": 1, "inner": PyVec(list(perm))})
                    b = m.call_callee({"def": fns[isn], "resolved": fns[isn], "name": isn, "targs": ["PK"], "cargs": ["20"]}, [th2])
                    n += 1
                    ks = [keyf(x) for x in perm]
                    chk.obligation(rid, b is (ks == sorted(ks)), "%s|%s" % (isn, "".join(perm)), "%s of %s is %r" % (isn, list(perm), b),
                                   where="src/primitives/threshold.rs")
    except Unsupported as e:
        chk.fail(rid, "unanalysable", "unanalysable: %s" % e, where=e.where, kind="unanalysable")
    except Panic as e:
        chk.fail(rid, "panic", "panic: %s" % e, where="src/primitives/threshold.rs")
    chk.floor(rid, "cases", n, 200)


def run(chk):
    F = chk.facts()
    chk.explanation = (
        "Decides that the per-type output table is the standard one and that its siblings agree: scriptPubKey, inner "
        "script, ECDSA script code and unsigned scriptSig of bare / pkh / wpkh / wsh / sh / sh-wsh / sh-wpkh are extracted "
        "symbolically (rust-bitcoin's script and address constructors as term constructors) and compared with the "
        "BIP16/141/143 table; address(net).script_pubkey = script_pubkey; sorted multisig sites sort (with the matching "
        "routine) before interpreting keys in both the encoder and the satisfier; Descriptor dispatch is uniform.")
    chk.trusted = ["spec/outputs.py", "rust-bitcoin's to_p2wsh / to_p2sh / Address::* (modelled as constructors)", "factgen THIR"]
    chk.assumptions = ["BIP32 derivation equality, wildcard / multipath expansion and taproot output keys are not decided"]
    assembly.check_outputs(chk, F, "R16.1")
    check_sorted_pairing(chk, F)
    check_dispatch(chk, F)
    check_derive_key(chk, F)
    chk.guard("R16.5", "key-derivation", check_key_derivation, chk, F)
    if os.environ.get("C16_SKIP6"):
        pass
    else:
        chk.guard("R16.6", "descriptor-split", check_descriptor_split, chk, F)
    chk.guard("R16.7", "tr-output", check_tr_output, chk, F)
    chk.guard("R16.8", "secret-keys", check_secret_keys, chk, F)
    chk.guard("R16.9", "desc-type", check_desc_type, chk, F)
    chk.guard("R16.10", "spk-search", check_spk_search, chk, F)
    chk.guard("R16.11", "bip67", check_bip67, chk, F)
    # the scripts of pkh-style fragments commit to the HASH160 of the key in its own serialization (shared with C04)
    from . import c04
    from ..report import RuleAlias
    chk.guard("R16.12", "key-pushes", c04.check_key_pushes, RuleAlias(chk, {"R04.6": "R16.12"}, "what a key / key-hash push "
              "in a script commits to"), F)
    from . import wholedesc
    chk.guard("R16.13", "named-constructors", wholedesc.check_named_constructors, chk, F, "R16.13")
